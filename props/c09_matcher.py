"""C09 — a successful match really instantiates the pattern to the target.

Case (JSON): {"pat": term, "t": term, "seed": null | {"inst": {name: term}, "tyinst": {name: type}},
              "klass": generator class, "expect_success": bool}
"""
import copy as _copy
import json

from vlib import harness, codec, ref, gen
from vlib.harness import CaseInvalid, SelfTestError, time_limit, Timeout
from vlib.codec import BOOL, fun

ID = 'C09'
RULE = ("(pattern, target, seed) triples. Patterns: generated well-typed terms over the base logic in which a drawn subset "
        "of the free variables is made schematic - first-order (never in head position), Miller patterns (?F applied to "
        "distinct bound variables under binders), repeated schematic variables, type-polymorphic patterns (type variables "
        "made schematic), non-pattern applications ?f (g x) (heuristic branch), pre-seeded instantiations (consistent and "
        "conflicting). Targets: the pattern instantiated by a drawn substitution and beta-normalised by the reference "
        "calculus, optionally eta-expanded, one-point mutated, or unrelated. Oracle: on success the reference calculus "
        "applies the returned instantiation (type instantiation completed by matching the types of the instances) and "
        "compares beta-eta normal forms with the target; the result must agree with the seed on every seeded key and the "
        "caller's seed object must be unchanged; for first-order patterns whose target is exactly the drawn instance, "
        "matching must succeed. Non-trivial: a successful match binding >= 1 schematic variable to a non-variable term, or "
        "a failed match of a near miss; distinct by canonical JSON.")
ASSUMPTIONS = [
    "targets contain no schematic variables and no loose bound variables (what the callers pass)",
    "exceptions other than MatchException are recorded, not flagged",
    "a schematic variable name is used at one type per pattern (instantiations are keyed by name)",
]
SHRINK_BUDGET = 500

_T = {}


def setup():
    from logic import basic
    from kernel import theory
    from logic import matcher
    basic.load_theory('logic_base')
    _T['thy'] = theory.thy
    _T['matcher'] = matcher
    # reference self-test: beta-eta
    a = ref.from_jterm(["abs", "x", BOOL, ["app", ["v", "f", fun(BOOL, BOOL)], ["b", 0]]])
    b = ref.from_jterm(["v", "f", fun(BOOL, BOOL)])
    if not ref.beta_eta_eq(a, b):
        raise SelfTestError('reference eta wrong')


def inst_enc(inst):
    return {'inst': {k: codec.term_enc(v) for k, v in inst.items()},
            'tyinst': {k: codec.type_enc(v) for k, v in inst.tyinst.items()}}


def inst_dec(j):
    from kernel.term import Inst
    inst = Inst(**{str(k): codec.term_dec(v) for k, v in (j.get('inst') or {}).items()})
    for k, v in (j.get('tyinst') or {}).items():
        inst.tyinst[str(k)] = codec.type_dec(v)
    return inst


def inst_snapshot(inst):
    return (sorted((k, ref.canon(ref.from_term(v))) for k, v in inst.items()),
            sorted((k, ref.from_type(v)) for k, v in inst.tyinst.items()),
            sorted((k, ref.canon(ref.from_term(v))) for k, v in inst.var_inst.items()),
            sorted(inst.abs_name_inst.items()))


def _no_svar_no_loose(j, depth=0):
    tag = j[0]
    if tag == 'sv':
        return False
    if tag == 'b':
        return j[1] < depth
    if tag == 'app':
        return _no_svar_no_loose(j[1], depth) and _no_svar_no_loose(j[2], depth)
    if tag == 'abs':
        return _no_svar_no_loose(j[3], depth + 1)
    return True


def run_case(case, H):
    from kernel.term import Inst, TermException, TypeCheckException
    from kernel import theory
    matcher = _T['matcher']
    if not isinstance(case, dict):
        raise CaseInvalid('case')
    theory.thy = _T['thy']
    pat_j, t_j = case.get('pat'), case.get('t')
    if not _no_svar_no_loose(t_j):
        raise CaseInvalid('target has schematic / loose variables')
    pat, t = codec.term_dec(pat_j), codec.term_dec(t_j)
    rpat, rt = ref.from_jterm(pat_j), ref.from_jterm(t_j)
    if ref.is_open(rpat) or not ref.well_typed(rpat) or not ref.well_typed(rt):
        raise CaseInvalid('ill-typed or open')
    names = {}
    for v in ref.free_vars(rpat):
        if v[0] == 'svar':
            if names.setdefault(v[1], v[2]) != v[2]:
                raise CaseInvalid('schematic name at two types')
    seed = inst_dec(case['seed']) if case.get('seed') else None
    snap = inst_snapshot(seed) if seed is not None else None
    klass = case.get('klass', '?')
    try:
        with time_limit(20):
            try:
                res = matcher.first_order_match(pat, t, seed)
                outcome = 'success'
            except matcher.MatchException:
                outcome = 'fail'
            except RecursionError:
                H.inconc('recursion')
                return
            except Exception as e:
                H.note('other-exception:' + type(e).__name__)
                H.case(case, False, ['klass:' + klass, 'outcome:exception'])
                return
    except Timeout:
        H.inconc('timeout')
        return
    nontrivial = False
    if seed is not None and inst_snapshot(seed) != snap:
        H.violation('match:seed-object-modified', case, 'the caller\'s instantiation object changed')
    if outcome == 'fail':
        if case.get('expect_success'):
            H.violation('match:incomplete-first-order:%s' % klass, case,
                        'pattern %s should match %s (target is the drawn instance)' % (codec.jterm_str(pat_j), codec.jterm_str(t_j)))
        nontrivial = klass.endswith('mut') or bool(case.get('expect_success'))
        H.case(case, nontrivial, ['klass:' + klass, 'outcome:fail'])
        return
    # ---- success: the instantiation must extend the seed
    if seed is not None:
        for k, v in seed.items():
            if k not in res or ref.canon(ref.from_term(res[k])) != ref.canon(ref.from_term(v)):
                H.violation('match:seed-altered', case, 'seeded ?%s := %s became %s' % (k, v, res.get(k)))
                H.case(case, True, ['klass:' + klass, 'outcome:success'])
                return
        for k, v in seed.tyinst.items():
            if k not in res.tyinst or ref.from_type(res.tyinst[k]) != ref.from_type(v):
                H.violation('match:seed-tyinst-altered', case, "seeded '%s" % k)
                H.case(case, True, ['klass:' + klass, 'outcome:success'])
                return
    # ---- apply the instantiation in the reference calculus
    sigma = {('stv', k): ref.from_type(v) for k, v in res.tyinst.items()}
    r_inst = {}
    problem = None
    try:
        for k, v in res.items():
            r_inst[k] = ref.from_term(v)
        for v in sorted(ref.free_vars(rpat)):
            if v[0] == 'svar' and v[1] in r_inst:
                if not ref.type_match(v[2], ref.typeof(r_inst[v[1]]), sigma):
                    problem = 'type of ?%s (%s) does not match its instance %s :: %s' % (
                        v[1], ref.show_type(v[2]), ref.show(r_inst[v[1]]), ref.show_type(ref.typeof(r_inst[v[1]])))
                    break
    except ref.RefError as e:
        problem = 'instance ill-typed: %s' % e
    feature = klass.split(':')[0]
    if problem is None:
        try:
            applied = ref.subst_by_name(ref.subst_type_term(rpat, sigma), r_inst)
            lhs = ref.canon(ref.beta_eta_norm(applied))
            rhs = ref.canon(ref.beta_eta_norm(rt))
            if lhs != rhs:
                problem = 'pattern instantiated: %s ; target: %s' % (ref.show(ref.beta_eta_norm(applied)), ref.show(ref.beta_eta_norm(rt)))
        except ref.RefError as e:
            H.inconc('reference-normalisation-failed')
            return
        kind = 'wrong-instantiation'
    else:
        kind = 'ill-typed-instantiation'
    if problem is not None:
        H.violation('match:%s:%s' % (kind, feature), case,
                    'match(%s, %s) succeeded with %s but %s' % (codec.jterm_str(pat_j), codec.jterm_str(t_j), res, problem))
    else:
        # secondary: holpy's own subst_norm must not fail on an instantiation it returned
        try:
            out = pat.subst_norm(res)
            if not ref.beta_eta_eq(ref.from_term(out), rt):
                H.violation('match:subst_norm-differs:%s' % feature, case, '%s vs %s' % (out, t))
        except (TermException, TypeCheckException) as e:
            H.violation('match:subst_norm-raises:%s' % feature, case, repr(e))
        except RecursionError:
            H.inconc('recursion')
    nontrivial = any(not (v.is_var() or v.is_svar()) for v in res.values())
    H.case(case, nontrivial, ['klass:' + klass, 'outcome:success'])


# ------------------------------------------------------------------ generation
def _heads(j, acc):
    """Variable atoms occurring as the head of an application."""
    if j[0] == 'app':
        h = j
        while h[0] == 'app':
            _heads(h[2], acc)
            h = h[1]
        if h[0] in ('v', 'sv'):
            acc.add((h[1], json.dumps(h[2])))
        else:
            _heads(h, acc)
    elif j[0] == 'abs':
        _heads(j[3], acc)


def _to_svars(j, chosen, tysig):
    tag = j[0]
    if tag == 'v':
        T = codec.jt_subst(j[2], tysig)
        return ['sv' if (j[1], json.dumps(j[2])) in chosen else 'v', j[1], T]
    if tag == 'c':
        return ['c', j[1], codec.jt_subst(j[2], tysig)]
    if tag == 'app':
        return ['app', _to_svars(j[1], chosen, tysig), _to_svars(j[2], chosen, tysig)]
    if tag == 'abs':
        return ['abs', j[1], codec.jt_subst(j[2], tysig), _to_svars(j[3], chosen, tysig)]
    return j


def _leaves_under_binders(j, bound=(), path=()):
    """(path, node, enclosing binder types) for variable / constant leaves."""
    tag = j[0]
    if tag in ('v', 'c'):
        yield path, j, bound
    elif tag == 'app':
        yield from _leaves_under_binders(j[1], bound, path + (1,))
        yield from _leaves_under_binders(j[2], bound, path + (2,))
    elif tag == 'abs':
        yield from _leaves_under_binders(j[3], (j[2],) + tuple(bound), path + (3,))


def _mutate(draw, st, t, opts):
    from props.c03_terms import _replace
    leaves = list(_leaves_under_binders(t))
    if not leaves:
        return t, 'none'
    # prefer: a leaf under a binder of its own type becomes that BOUND variable (the target then mentions a bound
    # variable where the instance had a free one - the bound-variable escape / capture cases of the matcher)
    cands = [(p, n, b) for p, n, b in leaves if n[2] in b]
    if cands and draw(st.integers(0, 2)) != 0:
        p, n, b = draw(st.sampled_from(cands))
        idx = [i for i, T in enumerate(b) if T == n[2]]
        return _replace(t, p, ['b', draw(st.sampled_from(idx))]), 'to-bound'
    p, node, b = draw(st.sampled_from(leaves))
    if node[0] == 'v':
        new = ['v', draw(st.sampled_from(opts.names)), node[2]]
    else:
        new = ['v', 'k', node[2]]
    return _replace(t, p, new), 'leaf'


def case_strategy():
    from hypothesis import strategies as st
    opts = gen.Opts(svars=False, stvars=False, redex=False, max_order=1)
    opts_r = gen.Opts(svars=False, stvars=False, redex=True, max_order=1)
    atomsT = gen.atom_types(opts)

    @st.composite
    def cases(draw):
        klass = draw(st.sampled_from(['fo', 'fo', 'repeated', 'poly', 'miller', 'miller', 'miller-mixed', 'miller-mixed', 'heuristic',
                                      'heuristic-poly', 'seeded', 'seeded-conflict', 'eta', 'unrelated']))
        if klass == 'heuristic-poly':
            # ?f ?x1 .. ?xk with a fully polymorphic head against an application with k or more arguments
            k = draw(st.integers(1, 3))
            stv = [["stv", n] for n in ('a', 'b', 'c', 'd')]
            FT = fun(*(stv[:k] + [stv[k]]))
            pat = ['sv', 'F', FT]
            for i in range(k):
                pat = ['app', pat, ['sv', 'x%d' % i, stv[i]] if draw(st.integers(0, 3)) else draw(gen.terms(opts, draw(st.sampled_from(atomsT)), (), 1))]
            n = draw(st.integers(k, k + 1))
            Ts = [draw(st.sampled_from(atomsT)) for _ in range(n)]
            R = draw(st.sampled_from(atomsT))
            tgt = ['v', 'g', fun(*(Ts + [R]))]
            m = draw(st.integers(max(1, k - 1), n))          # number of arguments actually applied
            for Ti in Ts[:m]:
                tgt = ['app', tgt, draw(gen.terms(opts, Ti, (), 1))]
            R = fun(*(Ts[m:] + [R])) if m < n else R
            if draw(st.booleans()):
                eqR = fun(R, R, BOOL)
                rhs = draw(gen.terms(opts, R, (), 1))
                pat = ['app', ['app', ['c', 'equals', fun(stv[k], stv[k], BOOL)], pat], ['sv', 'r', stv[k]]]
                tgt = ['app', ['app', ['c', 'equals', eqR], tgt], rhs]
            return {'pat': pat, 't': tgt, 'seed': None, 'klass': klass, 'expect_success': False}
        T = draw(st.sampled_from([BOOL, BOOL, gen.A, fun(gen.A, BOOL)]))
        tysig = {}
        if klass == 'poly' or draw(st.integers(0, 4)) == 0:
            tysig = {('tv', 'a'): gen.SA}
        if klass in ('miller', 'eta'):
            A1 = draw(st.sampled_from(atomsT))
            A2 = draw(st.sampled_from(atomsT))
            R = draw(st.sampled_from(atomsT))
            nargs = draw(st.sampled_from([1, 2, 2]))
            if nargs == 2:
                order = draw(st.booleans())
                FT = fun(A1, A2, R) if order else fun(A2, A1, R)
                Fapp = ['app', ['app', ['v', 'F', FT], ['b', 1 if order else 0]], ['b', 0 if order else 1]]
            else:
                which = draw(st.integers(0, 1))
                FT = fun(A1 if which == 1 else A2, R)
                Fapp = ['app', ['v', 'F', FT], ['b', which]]
            rhs = draw(gen.terms(opts, R, (A2, A1), 2))
            body = ['app', ['app', ['c', 'equals', fun(R, R, BOOL)], Fapp], rhs]
            p0 = ['app', ['c', 'all', fun(fun(A1, BOOL), BOOL)],
                  ['abs', 'u', A1, ['app', ['c', 'all', fun(fun(A2, BOOL), BOOL)], ['abs', 'v', A2, body]]]]
        elif klass == 'miller-mixed':
            # ?F applied to a mixture of bound variables and a schematic variable that is matched EARLIER (it also occurs
            # in a first conjunct), possibly omitting an enclosing bound variable:  Q ?a & (!u. [!v.] ?F <args> = rhs)
            A1 = draw(st.sampled_from(atomsT))
            A2 = draw(st.sampled_from(atomsT))
            A3 = draw(st.sampled_from(atomsT))
            R = draw(st.sampled_from(atomsT))
            two = draw(st.booleans())
            bound = (A2, A1) if two else (A1,)
            pool = [(['b', i], T) for i, T in enumerate(bound)] + [(['v', 'a', A3], A3)] * 2
            args = draw(st.lists(st.sampled_from(pool), min_size=1, max_size=3))
            FT = fun(*([T for _, T in args] + [R]))
            Fapp = ['v', 'F', FT]
            for a_, _ in args:
                Fapp = ['app', Fapp, a_]
            rhs = draw(gen.terms(opts, R, bound, 2))
            body = ['app', ['app', ['c', 'equals', fun(R, R, BOOL)], Fapp], rhs]
            if draw(st.booleans()):
                body = ['app', ['app', ['c', 'equals', fun(R, R, BOOL)], rhs], Fapp]
            inner = ['abs', 'v', A2, body] if two else None
            q = ['app', ['c', 'all', fun(fun(A1, BOOL), BOOL)],
                 ['abs', 'u', A1, ['app', ['c', 'all', fun(fun(A2, BOOL), BOOL)], inner] if two else body]]
            first = ['app', ['v', 'Q', fun(A3, BOOL)], ['v', 'a', A3]]
            p0 = ['app', ['app', ['c', 'conj', fun(BOOL, BOOL, BOOL)], first], q]
        elif klass == 'heuristic':
            A1 = draw(st.sampled_from(atomsT))
            R = draw(st.sampled_from(atomsT))
            arg = draw(gen.terms(opts, A1, (), 2))
            inner = ['app', ['v', 'F', fun(A1, R)], arg]
            if draw(st.integers(0, 2)) == 0:
                # a head with two arguments (polymorphic when the type variable is made schematic below)
                A0 = draw(st.sampled_from(atomsT))
                arg0 = draw(st.one_of(gen.terms(opts, A0, (), 1), st.just(['v', 'x0', A0])))
                inner = ['app', ['app', ['v', 'F', fun(A0, A1, R)], arg0], arg]
                if draw(st.booleans()):
                    tysig = {('tv', 'a'): gen.SA}
            rhs = draw(gen.terms(opts, R, (), 1))
            p0 = ['app', ['app', ['c', 'equals', fun(R, R, BOOL)], inner], rhs]
        else:
            p0 = draw(gen.terms(opts, T, (), draw(st.integers(1, 3))))
        atoms = [(a[1], a[2]) for a in gen.jterm_atoms(p0)]
        by_name = {}
        for nme, Ts in atoms:
            by_name.setdefault(nme, set()).add(Ts)
        heads = set()
        _heads(p0, heads)
        cand = [a for a in atoms if len(by_name[a[0]]) == 1]
        if klass in ('fo', 'repeated', 'poly', 'seeded', 'seeded-conflict', 'unrelated'):
            cand = [a for a in cand if a not in heads]
        if klass == 'miller-mixed':
            chosen = {a for a in cand if a[0] in ('F', 'a')}
        elif klass in ('miller', 'eta', 'heuristic'):
            chosen = {a for a in cand if a[0] == 'F'} | set(draw(st.lists(st.sampled_from(cand), max_size=2)) if cand else [])
        else:
            chosen = set(draw(st.lists(st.sampled_from(cand), min_size=1, max_size=3))) if cand else set()
        pat = _to_svars(p0, chosen, tysig)
        # substitution sigma
        tyinst = {}
        ty_sub = {}
        if tysig:
            Ta = draw(st.sampled_from([BOOL, gen.A, gen.B, fun(gen.A, gen.A)]))
            tyinst = {'a': Ta}
            ty_sub = {('stv', 'a'): Ta}
        sigma = {}
        for nme, Ts in sorted(chosen):
            Tv = codec.jt_subst(codec.jt_subst(json.loads(Ts), tysig), ty_sub)
            o = opts if klass in ('fo', 'repeated', 'poly', 'seeded', 'seeded-conflict') else opts_r
            sigma[nme] = draw(gen.terms(o, Tv, (), draw(st.integers(0, 2))))
        rp = ref.from_jterm(pat)
        inst = ref.subst_by_name(ref.subst_type_term(rp, {k: ref.from_jtype(v) for k, v in ty_sub.items()}),
                                 {k: ref.from_jterm(v) for k, v in sigma.items()})
        exact_fo = klass in ('fo', 'repeated', 'poly', 'seeded')
        try:
            target = ref.to_jterm(inst if exact_fo else ref.beta_norm(inst))
        except ref.RefError:
            target = ref.to_jterm(inst)
        expect = exact_fo and bool(chosen)
        seed = None
        if klass == 'seeded' and sigma:
            keys = draw(st.lists(st.sampled_from(sorted(sigma)), min_size=1, max_size=2, unique=True))
            seed = {'inst': {k: sigma[k] for k in keys}, 'tyinst': dict(tyinst) if draw(st.booleans()) else {}}
        elif klass == 'seeded-conflict' and sigma:
            k = draw(st.sampled_from(sorted(sigma)))
            Tk = gen.jterm_type(sigma[k]) if _closed(sigma[k]) else BOOL
            seed = {'inst': {k: draw(gen.terms(opts, Tk, (), 1))}, 'tyinst': {}}
            expect = False
        if klass == 'eta':
            # eta-expand the target at the top of an equation side when possible: handled by the matcher's abs/non-abs case
            pass
        if klass == 'unrelated':
            Tt = codec.jt_subst(codec.jt_subst(T, tysig), ty_sub)
            if draw(st.integers(0, 2)) == 0:
                # a target of ANOTHER type (rewriting visits subterms of every type)
                Tt = draw(st.sampled_from([x for x in [BOOL, gen.A, gen.B, fun(gen.A, BOOL), fun(BOOL, BOOL)] if x != Tt]))
                klass = 'unrelated-type'
            target = draw(gen.terms(opts, Tt, (), draw(st.integers(1, 3))))
            expect = False
        mode = draw(st.sampled_from(['exact', 'mut'] if klass == 'miller-mixed' else ['exact', 'exact', 'exact', 'mut']))
        if mode == 'mut' and klass not in ('unrelated', 'unrelated-type'):
            target, how = _mutate(draw, st, target, opts)
            expect = False
            klass = klass + ':mut'
        return {'pat': pat, 't': target, 'seed': seed, 'klass': klass, 'expect_success': expect}
    return cases()


def _closed(j):
    return _no_svar_no_loose(j)


def shards(tier):
    n, k = (16000, 32) if tier == 'quick' else (600000, 96)
    return [{'n': c, 'i': i} for i, c in enumerate(harness.split(n, k))]


def run_shard(desc, seed, tier, H):
    def body(case):
        try:
            run_case(case, H)
        except CaseInvalid:
            H.note('generated-out-of-domain')
    harness.hyp_run(case_strategy(), body, desc['n'], seed)
