"""C13 — proof editing preserves the goal and keeps the partial proof checkable.

Case (JSON): {"theory": name, "thm": name, "ops": [OP...]}
  OP = ["next", live]                          apply the next recorded step (live: on the state itself, else on a copy)
     | ["pert", kind, i, j, k, live]           a perturbed / extra method application (see PERT below)
     | ["sugg", gap_i, [fact_i...], pick, live]  apply the pick-th suggestion of search_method
Every op is run with a pre-op copy kept aside; an op that raises is discarded together with the state it ran on
and the walk continues from the pre-op copy (the property speaks about operations that complete).
"""
import copy
import json

from vlib import harness, ref, edit_lib
from vlib.harness import CaseInvalid, SelfTestError, time_limit, Timeout

ID = 'C13'
RULE = ("Histories over server.method.ProofState starting from library theorems with recorded proofs (theory loaded up to "
        "the theorem): Hypothesis draws op lists mixing the next recorded step, suggestions returned by search_method for "
        "a drawn gap and drawn facts (open parameters supplied), and perturbations (the recorded step on another gap / "
        "with other facts / repeated, cut, cases, introduction with fresh or clashing names, forall_elim, "
        "inst_exists_goal, revert_intro, new_var); each op is applied either to the live state or to a copy. After every "
        "completed op: a full state.check_proof() succeeds and its reported gaps are exactly the sorry lines; the last "
        "line is the original sequent; ids equal positions at every depth and every citation names an earlier visible "
        "line; with no gap left check_proof(no_gaps=True) accepts; export_proof -> parse_proof gives the same lines "
        "(rule, citations, sequent, printed arguments) and the same check result; fingerprints of all earlier copies are "
        "unchanged. A small corpus of hand-written walks (corpus/C13) is run and mutated (index changes, dropped / "
        "duplicated / swapped / inserted ops) in addition. Non-trivial: >= 3 completed ops including one that spliced more than one line; distinct by op list.")
ASSUMPTIONS = [
    "recorded steps of the library theorems drive most walks; a fixed list of generated propositional / quantifier goals in theory logic is walked with suggestions and perturbations only",
    "an op that raises is outside the property (it speaks of operations that complete); its state is discarded",
    "full re-checks run under a 60 s timer per op; hits are inconclusive",
]
SHRINK_BUDGET = 200
SHRINK_SECONDS = 120
MAXTASKS = 4

_C = {}


def setup():
    from syntax import parser, printer  # noqa
    from server import server, method  # noqa
    _C['quick'] = edit_lib.load_corpus(edit_lib.QUICK_THEORIES)
    if sum(len(v) for v in _C['quick'].values()) < 50:
        raise SelfTestError('corpus too small')


def corpus_for(tier):
    if tier == 'thorough':
        if 'thorough' not in _C:
            _C['thorough'] = edit_lib.load_corpus(edit_lib.THOROUGH_THEORIES)
        return _C['thorough']
    return _C['quick']



class ReimportError(Exception):
    def __init__(self, line, detail):
        self.line = line
        self.rule = line.get('rule', '?')
        self.detail = detail


def reimport(lines):
    """server.parse_proof, line by line, so that the line that cannot be read back is known."""
    from logic import context
    from server.method import ProofState
    from kernel.proof import Proof
    from kernel.term import Var
    from syntax import parser
    st = ProofState()
    for nm, T in context.ctxt.vars.items():
        st.vars.append(Var(nm, T))
    st.prf = Proof()
    for line in lines:
        try:
            if line['rule'] == 'variable':
                nm, str_T = line['args'].split(',', 1)
                context.ctxt.vars[nm] = parser.parse_type(str_T.strip())
            it = parser.parse_proof_rule(line)
            st.prf.insert_item(it)
        except Timeout:
            raise
        except Exception as e:
            raise ReimportError(line, '%s: %s' % (type(e).__name__, str(getattr(e, 'err', e))))
    return st


def shadowed_variable(state):
    """A variable line re-declares a name that is already in scope at another type."""
    outer = {v.name: v.T for v in state.vars}

    def rec(prf, scope):
        scope = dict(scope)
        for it in prf.items:
            if it.rule == 'variable':
                nm, T = it.args
                if nm in scope and scope[nm] != T:
                    return True
                scope[nm] = T
            if it.subproof and rec(it.subproof, scope):
                return True
        return False
    return rec(state.prf, outer)

def term_roundtrip_broken(state, line, uni):
    """The sequent of this exported line cannot be parsed back even in isolation, with exactly the variables
    visible at that line declared."""
    from logic import context
    from syntax import parser
    from syntax.settings import global_setting
    if not line.get('th'):
        return False
    try:
        vars = state.get_vars(line['id'])
    except Exception:
        return False
    prev = context.ctxt
    context.ctxt = context.Context(vars=dict(vars))
    try:
        try:
            th = parser.parse_thm(line['th'])
        except Timeout:
            raise
        except Exception:
            return True
        try:
            item = state.get_proof_item(line['id'])
            return item.th is not None and edit_lib.thm_key(th) != edit_lib.thm_key(item.th)
        except Exception:
            return False
    finally:
        context.ctxt = prev


def repeated_assumption(state):
    """Some stated line has the same antecedent twice in its chain A1 --> ... --> An --> C."""
    for _, it in edit_lib.walk_items(state.prf):
        if it.th is not None:
            As, _c = it.th.prop.strip_implies()
            keys = [ref.canon(ref.from_term(a)) for a in As]
            if len(set(keys)) != len(keys):
                return True
    return False


def args_with_tyinst(state):
    """Some line's arguments contain an Inst that carries a type instantiation (which the export does not print)."""
    from kernel.term import Inst
    for _, it in edit_lib.walk_items(state.prf):
        args = it.args if isinstance(it.args, (tuple, list)) else [it.args]
        for a in args:
            if isinstance(a, Inst) and a.tyinst:
                return True
    return False


# ------------------------------------------------------------------ invariants
def check_invariants(state, goal_key, item, H, case, last_method):
    """Returns False when a violation was recorded."""
    from kernel.theory import CheckProofException
    from logic import context
    from server import server
    from syntax.settings import global_setting
    sig_m = last_method or 'init'
    # 1. full re-check, gaps = sorry lines
    try:
        res = state.check_proof()
    except Timeout:
        raise
    except Exception as e:
        feat = sig_m + (':repeated-assumption' if repeated_assumption(state) else '')
        H.violation('edit:recheck-fails:%s' % feat, case, '%s: %s' % (type(e).__name__, harness.exc_text(e)))
        return False
    sorries = [it for _, it in edit_lib.sorry_items(state)]
    got = sorted(repr(edit_lib.thm_key(g)) for g in state.rpt.gaps)
    exp = sorted(repr(edit_lib.thm_key(it.th)) for it in sorries)
    if got != exp:
        H.violation('edit:gaps-differ-from-sorry-lines:%s' % sig_m, case, 'reported %d, present %d' % (len(got), len(exp)))
        return False
    # 2. last line is the original sequent
    last = state.prf.items[-1]
    if last.th is None or edit_lib.thm_key(last.th) != goal_key or edit_lib.thm_key(res) != goal_key:
        H.violation('edit:goal-changed:%s' % sig_m, case, 'last line is %s' % last.th)
        return False
    # 3. numbering / citations
    probs = edit_lib.structure_problems(state)
    if probs:
        H.violation('edit:%s:%s' % (probs[0][0], sig_m), case, probs[0][1])
        return False
    # 4. complete proof accepted with gaps disallowed
    if not sorries:
        try:
            state.check_proof(no_gaps=True)
        except Timeout:
            raise
        except Exception as e:
            H.violation('edit:complete-proof-rejected:%s' % sig_m, case, repr(e)[:300])
            return False
    # 5. export / import
    shadow = shadowed_variable(state)
    if not shadow and args_with_tyinst(state):
        shadow = 'inst-with-type-instantiation'
    elif shadow:
        shadow = 'shadowed-variable'
    for uni in (True, False):
        with global_setting(unicode=uni):
            lines = state.export_proof()
        lines = json.loads(json.dumps(lines))
        prev_ctxt = context.ctxt
        context.ctxt = context.Context(vars=dict(item.vars))
        failing = None
        try:
            try:
                st2 = reimport(lines)
            except ReimportError as e:
                failing = e
            if failing is None:
                try:
                    res2 = st2.check_proof()
                    gaps2 = sorted(repr(edit_lib.thm_key(g)) for g in st2.rpt.gaps)
                except Timeout:
                    raise
                except Exception as e:
                    H.violation(('edit:reimport:%s' % shadow) if shadow else 'edit:reimported-proof-fails-check:%s' % sig_m, case,
                                'unicode=%s %s: %s' % (uni, type(e).__name__, harness.exc_text(e)))
                    return False
                with global_setting(unicode=uni):
                    lines2 = json.loads(json.dumps(st2.export_proof()))
        finally:
            context.ctxt = prev_ctxt
        if failing is not None:
            if not shadow and term_roundtrip_broken(state, failing.line, uni):
                # the statement of the line does not survive print -> parse on its own: that is property C07's
                # business (operator printing), not an editing defect
                H.inconc('reimport-blocked-by-print-parse-defect(C07)')
                return True
            feat = shadow if shadow else 'rule=%s' % failing.rule
            H.violation(('edit:reimport:%s' % shadow) if shadow else 'edit:reimport-fails:%s' % feat, case,
                        'unicode=%s line %s (%s): %s' % (uni, failing.line.get('id'), failing.rule, failing.detail[:300]))
            return False
        if lines2 != lines:
            diff = next(((a, b) for a, b in zip(lines, lines2) if a != b), (len(lines), len(lines2)))
            rule = diff[0].get('rule', '?') if isinstance(diff[0], dict) else 'line-count'
            H.violation(('edit:reimport:%s' % shadow) if shadow else 'edit:reimport-differs:rule=%s' % rule, case,
                        'unicode=%s %r  vs  %r' % (uni, diff[0], diff[1]))
            return False
        if edit_lib.thm_key(res2) != goal_key or gaps2 != got:
            H.violation(('edit:reimport:%s' % shadow) if shadow else 'edit:reimport-check-differs:%s' % sig_m, case,
                        're-imported proof proves %s with gaps %s' % (res2, gaps2))
            return False
    return True


# ------------------------------------------------------------------ ops
PERT = ['other_gap', 'other_facts', 'repeat', 'cut', 'cases', 'intro_names', 'forall_elim', 'inst_exists', 'revert_intro',
        'new_var', 'cut_sub', 'cut_concl', 'forward_at']


def _subprops(t, out, depth=0):
    """Propositional components (not under binders) of a formula: candidates for a cut on a sub-formula."""
    if depth > 4:
        return
    if t.is_implies() or t.is_conj() or t.is_disj():
        for a in (t.arg1, t.arg):
            if a not in out:
                out.append(a)
            _subprops(a, out, depth + 1)
    elif t.is_not():
        if t.arg not in out:
            out.append(t.arg)
        _subprops(t.arg, out, depth + 1)


def build_step(state, op, item, cursor, last_step):
    """Translate an op into a method step dict (or None if not applicable in this state)."""
    from syntax import printer
    from syntax.settings import global_setting
    kind = op[0]
    gaps = edit_lib.sorry_items(state)
    if kind == 'next':
        if cursor[0] >= len(item.steps):
            return None
        return dict(item.steps[cursor[0]]), True
    if not gaps:
        return None
    if kind == 'sugg':
        _, gi, fis, pick, _live = op
        gpos, gitem = gaps[gi % len(gaps)]
        facts = edit_lib.visible_facts(state, gpos)
        chosen = []
        for fi in fis[:2]:
            if facts:
                p = facts[fi % len(facts)]
                if p not in chosen:
                    chosen.append(p)
        res = state.search_method(edit_lib.id_str(gpos), [edit_lib.id_str(p) for p in chosen])
        if not res:
            return None
        entry = res[pick % len(res)]
        step = {k: v for k, v in entry.items() if not k.startswith('_') and k != 'display'}
        step.setdefault('fact_ids', [])
        supply_params(state, step, gpos, variant=pick)
        return step, False
    if kind == 'pert':
        _, pk, i, j, k, _live = op
        gpos, gitem = gaps[i % len(gaps)]
        gid = edit_lib.id_str(gpos)
        facts = edit_lib.visible_facts(state, gpos)
        with global_setting(unicode=False, highlight=False):
            if pk == 'other_gap':
                if cursor[0] >= len(item.steps):
                    return None
                s = dict(item.steps[cursor[0]])
                s['goal_id'] = gid
                s['fact_ids'] = [f for f in s.get('fact_ids', [])]
                return s, False
            if pk == 'other_facts':
                if cursor[0] >= len(item.steps) or not facts:
                    return None
                s = dict(item.steps[cursor[0]])
                g2 = tuple(int(x) for x in s['goal_id'].split('.'))
                f2 = edit_lib.visible_facts(state, g2) if any(p == g2 for p, _ in gaps) else facts
                if not f2:
                    return None
                s['fact_ids'] = [edit_lib.id_str(f2[j % len(f2)])] + ([edit_lib.id_str(f2[k % len(f2)])] if k % 3 == 0 else [])
                return s, False
            if pk == 'repeat':
                if last_step[0] is None:
                    return None
                return dict(last_step[0]), False
            if pk in ('cut', 'cases'):
                src = [state.prf.find_item(_iid(p)).th.prop for p in facts] + [gitem.th.prop]
                t = src[j % len(src)]
                if pk == 'cases' and k % 2 == 0 and t.is_not():
                    t = t.arg
                text = printer.print_term(t)
                return ({'method_name': 'cut', 'goal_id': gid, 'fact_ids': [], 'goal': text} if pk == 'cut' else
                        {'method_name': 'cases', 'goal_id': gid, 'fact_ids': [], 'case': text}), False
            if pk == 'forward_at':
                # a forward step (it only adds a fact, so it is legal at any gap that sees the fact) found as a
                # suggestion for one gap and applied at another one: search_method hides forward steps at a gap
                # they would close, a user choosing the method by hand is not so restricted
                if not facts:
                    return None
                f = facts[j % len(facts)]
                fwd = None
                for gp2, _ in gaps:
                    if not edit_lib.visible(gp2, f):
                        continue
                    res = state.search_method(edit_lib.id_str(gp2), [edit_lib.id_str(f)])
                    res = [r for r in res if r['method_name'] in ('apply_forward_step', 'rewrite_fact', 'apply_fact')]
                    if res:
                        fwd = res[k % len(res)]
                        break
                if fwd is None:
                    return None
                step = {kk: v for kk, v in fwd.items() if not kk.startswith('_') and kk != 'display'}
                step['goal_id'] = gid
                step['fact_ids'] = [edit_lib.id_str(f)]
                return step, False
            if pk == 'cut_concl':
                # "first prove the conclusion, then use it": cut X on a gap Y --> X (or A & (Y --> X), !y. X with y not in X)
                t = gitem.th.prop
                cands = []

                def concl(u, depth=0):
                    if depth > 3:
                        return
                    if u.is_implies():
                        cands.append(u.arg)
                        concl(u.arg, depth + 1)
                    elif u.is_conj() or u.is_disj():
                        concl(u.arg1, depth + 1)
                        concl(u.arg, depth + 1)
                    elif u.is_forall() and not u.arg.body.is_open():
                        cands.append(u.arg.body)
                        concl(u.arg.body, depth + 1)
                concl(t)
                cands = [c for c in cands if not c.is_open()]
                if not cands:
                    return None
                return {'method_name': 'cut', 'goal_id': gid, 'fact_ids': [], 'goal': printer.print_term(cands[j % len(cands)])}, False
            if pk == 'cut_sub':
                subs = []
                for p in facts:
                    _subprops(state.prf.find_item(_iid(p)).th.prop, subs)
                _subprops(gitem.th.prop, subs)
                if not subs:
                    return None
                return {'method_name': 'cut', 'goal_id': gid, 'fact_ids': [], 'goal': printer.print_term(subs[j % len(subs)])}, False
            if pk == 'intro_names':
                vs = sorted(state.get_vars(gid))
                names = [edit_lib.fresh_name(state, gid, 'u'), edit_lib.fresh_name(state, gid, 'w')]
                if vs and j % 3 == 0:
                    names[0] = vs[k % len(vs)]       # clashing name
                return {'method_name': 'introduction', 'goal_id': gid, 'fact_ids': [], 'names': ', '.join(names[:1 + k % 2])}, False
            if pk == 'forall_elim':
                cands = [p for p in facts if state.prf.find_item(_iid(p)).th.prop.is_forall()]
                if not cands:
                    return None
                p = cands[j % len(cands)]
                T = state.prf.find_item(_iid(p)).th.prop.arg.var_T
                s = edit_lib.term_string_of_type(state, gid, T, k)
                if s is None:
                    return None
                return {'method_name': 'forall_elim', 'goal_id': gid, 'fact_ids': [edit_lib.id_str(p)], 's': s}, False
            if pk == 'inst_exists':
                if not gitem.th.prop.is_exists():
                    return None
                T = gitem.th.prop.arg.var_T
                s = edit_lib.term_string_of_type(state, gid, T, k)
                if s is None:
                    return None
                return {'method_name': 'inst_exists_goal', 'goal_id': gid, 'fact_ids': [], 's': s}, False
            if pk == 'revert_intro':
                cands = [p for p in facts if state.prf.find_item(_iid(p)).rule == 'assume' and len(p) == len(gpos)]
                if not cands:
                    return None
                return {'method_name': 'revert_intro', 'goal_id': gid, 'fact_ids': [edit_lib.id_str(cands[j % len(cands)])]}, False
            if pk == 'new_var':
                vs = sorted(state.get_vars(gid))
                nm = edit_lib.fresh_name(state, gid, 'nv') if (j % 3 or not vs) else vs[k % len(vs)]
                return {'method_name': 'new_var', 'goal_id': gid, 'fact_ids': [], 'name': nm,
                        'type': ['nat', 'bool', "'a"][k % 3] if _has_nat() else 'bool'}, False
    raise CaseInvalid('op %r' % (op,))


def _has_nat():
    from kernel import theory
    return theory.thy.has_type_sig('nat')


def _iid(pos):
    from kernel.proof import ItemID
    return ItemID(tuple(pos))


def supply_params(state, step, gpos, variant=0):
    """Fill the parameters that the method declares in sig and the suggestion leaves open."""
    from server import method
    m = method.global_methods[step['method_name']]
    gid = edit_lib.id_str(gpos)
    gitem = state.prf.find_item(_iid(gpos))
    for p in m.sig:
        if p in step:
            continue
        if p == 'names':
            step['names'] = edit_lib.fresh_name(state, gid, 'u%d' % variant if variant else 'u')
            if step['method_name'] == 'introduction':
                n, t = 0, gitem.th.prop
                names = []
                while t.is_forall():
                    names.append(edit_lib.fresh_name(state, gid, 'u', avoid=names))
                    t = t.arg.body
                step['names'] = ', '.join(names)
            elif step['method_name'] == 'exists_elim' and step.get('fact_ids'):
                fpos = tuple(int(x) for x in step['fact_ids'][0].split('.'))
                t = state.prf.find_item(_iid(fpos)).th.prop
                names = []
                while t.is_exists():
                    names.append(edit_lib.fresh_name(state, gid, 'e', avoid=names))
                    t = t.arg.body
                step['names'] = ', '.join(names)
        elif p == 's':
            T = None
            if step['method_name'] == 'forall_elim' and step.get('fact_ids'):
                fpos = tuple(int(x) for x in step['fact_ids'][0].split('.'))
                T = state.prf.find_item(_iid(fpos)).th.prop.arg.var_T
            elif step['method_name'] == 'inst_exists_goal':
                T = gitem.th.prop.arg.var_T
            s = edit_lib.term_string_of_type(state, gid, T, variant) if T is not None else None
            if s is not None:
                step['s'] = s
        elif p == 'var' and step['method_name'] == 'induction':
            from kernel import theory
            th = theory.thy.get_theorem(step['theorem'], svar=False)
            var_T = th.concl.arg.T
            vs = sorted(v.name for v in gitem.th.prop.get_vars() if v.T == var_T)
            if vs:
                step['var'] = vs[variant % len(vs)]


def run_case(case, H):
    from server import method
    from kernel import theory
    if not isinstance(case, dict) or not isinstance(case.get('ops'), list):
        raise CaseInvalid('case')
    try:
        item, state = edit_lib.init_state(case['theory'], case['thm'])
    except CaseInvalid:
        raise
    except Exception as e:
        raise CaseInvalid('cannot initialise: %r' % e)
    goal_key = edit_lib.thm_key(state.prf.items[-1].th)
    cursor = [0]
    last_step = [None]
    history = []          # (state copy, fingerprint)
    completed = 0
    spliced = False
    methods_done = []
    try:
        with time_limit(60):
            if not check_invariants(state, goal_key, item, H, case, None):
                H.case(case, True, 'walk:violation')
                return
    except Timeout:
        H.inconc('timeout-initial')
        return
    for op in case['ops']:
        if not isinstance(op, list) or not op:
            raise CaseInvalid('op')
        try:
            with time_limit(60):
                try:
                    built = build_step(state, op, item, cursor, last_step)
                except (CaseInvalid, Timeout):
                    raise
                except Exception:
                    H.note('op-not-buildable')
                    continue
                if built is None:
                    H.note('op-not-applicable:' + str(op[0]))
                    continue
                step, is_next = built
                live = bool(op[-1]) if isinstance(op[-1], (bool, int)) else False
                pre = copy.copy(state)
                fp_pre = edit_lib.fingerprint(pre)
                n_before = sum(1 for _ in edit_lib.walk_items(state.prf))
                target = state if live else copy.copy(state)
                other = pre if live else state
                try:
                    method.apply_method(target, step)
                    target.check_proof(compute_only=True)
                    ok = True
                except Timeout:
                    raise
                except Exception as e:
                    ok = False
                    H.note('op-raised:' + step.get('method_name', '?'))
                if not ok:
                    state = pre                 # discard the state the failed op ran on
                    if is_next:
                        cursor[0] = len(item.steps)   # the recorded script cannot continue
                    continue
                # the untouched twin must be unchanged
                if edit_lib.fingerprint(other) != fp_pre:
                    H.violation('edit:copy-shares-state:%s' % step['method_name'], case,
                                'editing %s changed the other object' % ('the original' if live else 'a copy'))
                    H.case(case, True, 'walk:violation')
                    return
                history.append((pre if live else state, fp_pre))
                state = target
                if is_next:
                    cursor[0] += 1
                last_step[0] = step
                completed += 1
                methods_done.append(step['method_name'])
                if sum(1 for _ in edit_lib.walk_items(state.prf)) - n_before > 1:
                    spliced = True
                if not check_invariants(state, goal_key, item, H, case, step['method_name']):
                    H.case(case, True, 'walk:violation')
                    return
                for old, fp in history[-6:]:
                    if edit_lib.fingerprint(old) != fp:
                        H.violation('edit:earlier-copy-changed:%s' % step['method_name'], case, '')
                        H.case(case, True, 'walk:violation')
                        return
        except Timeout:
            H.inconc('timeout')
            break
    nontrivial = completed >= 3 and spliced
    H.case(case, nontrivial, ['walk', 'theory:' + case['theory']] + ['m:' + m for m in sorted(set(methods_done))],
           key={'t': case['theory'], 'n': case['thm'], 'o': case['ops']}, sample=nontrivial)


# ------------------------------------------------------------------ generation
def case_strategy(corpus):
    from hypothesis import strategies as st
    pool = [(th, nm) for th in sorted(corpus) for nm in corpus[th]]
    # generated goals (no recorded steps: walks consist of suggestions and perturbations only)
    small = st.integers(0, 7)
    op = st.one_of(
        st.tuples(st.just('next'), st.booleans()).map(list),
        st.tuples(st.just('next'), st.booleans()).map(list),
        st.tuples(st.just('next'), st.booleans()).map(list),
        st.tuples(st.just('next'), st.booleans()).map(list),
        st.tuples(st.just('sugg'), small, st.lists(small, max_size=2), small, st.booleans()).map(list),
        st.tuples(st.just('pert'), st.sampled_from(PERT), small, small, small, st.booleans()).map(list),
    )
    lib = st.tuples(st.sampled_from(pool), st.lists(op, min_size=3, max_size=14)).map(
        lambda p: {'theory': p[0][0], 'thm': p[0][1], 'ops': p[1]})
    # generated goals have no recorded steps: walks of suggestions and perturbations with small indices, so that each
    # short path of a goal (cut of a sub-formula, a block whose inner goal is that cut, a forward step closing it ...)
    # has a fair chance
    tiny = st.integers(0, 3)
    gop = st.one_of(
        st.tuples(st.just('sugg'), tiny, st.one_of(st.just([]), st.lists(tiny, min_size=1, max_size=2)), st.integers(0, 5),
                  st.booleans()).map(list),
        st.tuples(st.just('sugg'), tiny, st.one_of(st.just([]), st.lists(tiny, min_size=1, max_size=2)), st.integers(0, 5),
                  st.booleans()).map(list),
        st.tuples(st.just('pert'), st.sampled_from(['cut_sub', 'cut_sub', 'cut_concl', 'cut_concl', 'forward_at', 'forward_at', 'cut',
                                                    'cases', 'intro_names', 'revert_intro', 'new_var', 'forall_elim', 'inst_exists']),
                  tiny, small, small, st.booleans()).map(list))
    goal = st.tuples(st.integers(0, len(edit_lib.GOALS) - 1), st.lists(gop, min_size=3, max_size=8)).map(
        lambda p: {'theory': '#goal', 'thm': str(p[0]), 'ops': p[1]})
    return st.one_of(lib, lib, goal)


def corpus_cases():
    """Hand-written walks of interesting shape (corpus/C13/*.json): starting points for mutation."""
    import glob
    import os
    out = []
    for f in sorted(glob.glob(os.path.join(os.path.dirname(os.path.dirname(os.path.abspath(__file__))), 'corpus', 'C13', '*.json'))):
        with open(f) as fh:
            out.append(json.load(fh))
    return out


def mutation_strategy(seeds):
    """A corpus walk with up to two local mutations: an index changed, an op dropped, duplicated, swapped with its
    neighbour, the live flag flipped, a random goal-walk op inserted."""
    from hypothesis import strategies as st
    tiny = st.integers(0, 3)
    fresh = st.one_of(
        st.tuples(st.just('sugg'), tiny, st.one_of(st.just([]), st.lists(tiny, min_size=1, max_size=2)), st.integers(0, 5),
                  st.booleans()).map(list),
        st.tuples(st.just('pert'), st.sampled_from(PERT), tiny, tiny, tiny, st.booleans()).map(list))

    @st.composite
    def cases(draw):
        base = draw(st.sampled_from(seeds))
        ops = json.loads(json.dumps(base['ops']))
        for _ in range(draw(st.integers(0, 2))):
            if not ops:
                break
            i = draw(st.integers(0, len(ops) - 1))
            kind = draw(st.sampled_from(['index', 'index', 'drop', 'dup', 'swap', 'live', 'insert']))
            if kind == 'index':
                slots = [k for k, v in enumerate(ops[i]) if isinstance(v, int) and not isinstance(v, bool)]
                if slots:
                    ops[i][draw(st.sampled_from(slots))] = draw(st.integers(0, 4))
            elif kind == 'drop' and len(ops) > 1:
                del ops[i]
            elif kind == 'dup':
                ops.insert(i, json.loads(json.dumps(ops[i])))
            elif kind == 'swap' and i + 1 < len(ops):
                ops[i], ops[i + 1] = ops[i + 1], ops[i]
            elif kind == 'live':
                ops[i][-1] = not ops[i][-1]
            elif kind == 'insert':
                ops.insert(i, draw(fresh))
        goal = base['thm'] if draw(st.integers(0, 3)) else str(draw(st.integers(0, len(edit_lib.GOALS) - 1)))
        return {'theory': base['theory'], 'thm': goal if base['theory'] == '#goal' else base['thm'], 'ops': ops}
    return cases()


def shards(tier):
    n, k = (640, 32) if tier == 'quick' else (6000, 96)
    m, km = (96, 4) if tier == 'quick' else (1500, 16)
    return [{'n': c, 'i': i} for i, c in enumerate(harness.split(n, k))] + \
           [{'kind': 'corpus', 'n': c, 'i': i} for i, c in enumerate(harness.split(m, km))]


def run_shard(desc, seed, tier, H):
    corpus = corpus_for(tier)

    def body(case):
        try:
            run_case(case, H)
        except CaseInvalid:
            H.note('case-invalid')
    if desc.get('kind') == 'corpus':
        seeds = corpus_cases()
        if not seeds:
            return
        if desc['i'] == 0:
            for c in seeds:
                body(c)
        harness.hyp_run(mutation_strategy(seeds), body, desc['n'], seed)
        return
    harness.hyp_run(case_strategy(corpus), body, desc['n'], seed)
