"""C03 — term equality is alpha-equivalence for every history; substitution is capture-free.

Cases (JSON):
  {"kind": "pair", "s": term, "t": term, "via": how t was derived}
  {"kind": "tpair", "S": type, "T": type}
  {"kind": "triple", "ts": [term, term, term]}
  {"kind": "op", "op": name, ...operands...}           kernel operations against the reference implementation
  {"kind": "hist", "ops": [[opname, ...], ...]}         object-creation / garbage-collection histories
"""
import copy as _copy
import gc
import random

from vlib import harness, codec, ref, model, gen
from vlib.harness import CaseInvalid, SelfTestError, time_limit, Timeout
from vlib.codec import BOOL, fun

ID = 'C03'
RULE = ("(a) pairs (s, t): t is a bound-renamed variant, an identical rebuild, or a one-point mutation of a generated "
        "well-typed s (one type annotation, one name, one de Bruijn index, swapped arguments, Var/SVar/Const tag) - near "
        "misses; holpy ==, hash, fast_compare, copy(), Term(term) are compared with the reference alpha-equivalence; "
        "type pairs and triples (order axioms, sorted_terms) likewise. (b) histories: JSON op lists interpreted step by "
        "step (construct, Term(text) through the parser, Term(term), copy, subst/subst_type derivations, drop references, "
        "gc, allocation bursts, subst_type_inplace + rehash); after every step the newest object is compared with every "
        "live one and the verdict must equal the reference verdict on snapshots taken at creation. (c) operations "
        "(subst_type, subst with tyinst/var_inst/abs_name_inst, Lambda/abstract_over, subst_bound with open arguments, "
        "beta_conv, beta_norm, incr_boundvars): result alpha-equal to the independent named-term implementation, "
        "well-typed at the predicted type, same denotation in finite standard models. Non-trivial: (a) a binder present "
        "or a near miss; (b) a Term(text)/Term(term) followed by a drop and an allocation before a comparison; (c) a "
        "capture opportunity (a free name of the argument equals a binder name in scope, or a loose bound argument) or a "
        "beta step. Distinct by canonical JSON.")
ASSUMPTIONS = [
    "denotations are compared in finite standard models only (type variables of size <= 2, function spaces <= 300 elements)",
    "address reuse after garbage collection is CPython behaviour: histories are replayed in the same interpreter, so a "
    "shrunk history reproduces, but another allocator could behave differently",
    "Term.subst is exercised with closed instantiating terms only (its callers guarantee this); open arguments are "
    "exercised through subst_bound / beta_conv",
]
SHRINK_BUDGET = 500
SHRINK_SECONDS = 60

_T = {}
PARSE_TEXTS = ["x + y", "f x", "%x::nat. x + y", "!x::nat. x = y", "x", "f (f x)", "x + y + y", "y + x"]


def setup():
    from logic import basic, context
    from kernel import theory, term, term_ord, type as hol_type
    from syntax import parser  # installs Term(str)
    basic.load_theory('nat')
    _T['thy'] = theory.thy
    _T['ctx'] = context.Context(vars={'x': 'nat', 'y': 'nat', 'f': 'nat => nat'})
    # reference self-test
    a = ref.from_jterm(["abs", "x", BOOL, ["abs", "y", BOOL, ["b", 1]]])
    b = ref.from_jterm(["abs", "u", BOOL, ["abs", "v", BOOL, ["b", 1]]])
    c = ref.from_jterm(["abs", "x", BOOL, ["abs", "y", BOOL, ["b", 0]]])
    if not ref.alpha_eq(a, b) or ref.alpha_eq(a, c):
        raise SelfTestError('reference alpha-equivalence is wrong')
    # capture-avoidance of the reference: (%y. x)[x := y]  must not capture
    lam = ref.from_jterm(["abs", "y", BOOL, ["v", "x", BOOL]])
    r = ref.subst(lam, {('var', 'x', ref.BOOL): ('var', 'y', ref.BOOL)})
    if ref.canon(r) != ('lam', ref.BOOL, ('var', 'y', ref.BOOL)):
        raise SelfTestError('reference substitution wrong')
    red = ref.from_jterm(["app", ["abs", "x", BOOL, ["abs", "y", BOOL, ["b", 1]]], ["v", "y", BOOL]])
    if ref.canon(ref.beta_norm(red)) != ('lam', ref.BOOL, ('var', 'y', ref.BOOL)):
        raise SelfTestError('reference beta_norm wrong')


# ------------------------------------------------------------------ (a) pairs
def check_pair(case, H):
    from kernel.term import Term
    from kernel import term_ord
    s_j, t_j = case['s'], case['t']
    hs, ht = codec.term_dec(s_j), codec.term_dec(t_j)
    rs, rt = ref.from_jterm(s_j), ref.from_jterm(t_j)
    expected = ref.alpha_eq(rs, rt)
    via = case.get('via', '?')

    def viol(kind, detail):
        H.violation('eq:%s:%s' % (kind, 'equal-pair' if expected else 'unequal-pair'), case,
                    '%s; via=%s; s=%s; t=%s' % (detail, via, codec.jterm_str(s_j), codec.jterm_str(t_j)))
    variants_s = [('direct', hs), ('copy', _copy.copy(hs)), ('Term', Term(hs))]
    variants_t = [('direct', ht), ('copy', _copy.copy(ht)), ('Term', Term(ht))]
    for ns, a in variants_s:
        for nt, b in variants_t:
            r1, r2 = (a == b), (b == a)
            if r1 != expected or r2 != expected:
                viol('wrong-verdict:%s/%s' % (ns, nt), '== gives %s/%s, reference says %s' % (r1, r2, expected))
                return
            if expected and hash(a) != hash(b):
                viol('hash-differs:%s/%s' % (ns, nt), 'equal terms with different hashes')
                return
    c1, c2 = term_ord.fast_compare(hs, ht), term_ord.fast_compare(ht, hs)
    if (c1 == 0) != expected:
        viol('fast_compare-zero', 'fast_compare=%s but reference equality=%s' % (c1, expected))
    elif c1 != -c2:
        viol('fast_compare-antisymmetry', 'cmp(s,t)=%s cmp(t,s)=%s' % (c1, c2))
    has_binder = 'abs' in harness.canon(s_j)
    H.case(case, has_binder or via.startswith('mut'), ['pair:' + via.split(':')[0], 'pair:equal' if expected else 'pair:unequal'])


def check_tpair(case, H):
    from kernel import term_ord
    S, T = codec.type_dec(case['S']), codec.type_dec(case['T'])
    expected = ref.from_jtype(case['S']) == ref.from_jtype(case['T'])
    if (S == T) != expected or (T == S) != expected:
        H.violation('type-eq:wrong-verdict', case, '%s == %s gives %s, reference %s' % (S, T, S == T, expected))
    elif expected and hash(S) != hash(T):
        H.violation('type-eq:hash-differs', case, '%s' % S)
    else:
        c1, c2 = term_ord.fast_compare_typ(S, T), term_ord.fast_compare_typ(T, S)
        if (c1 == 0) != expected or c1 != -c2:
            H.violation('type-eq:fast_compare_typ', case, 'cmp=%s/%s expected equal=%s' % (c1, c2, expected))
    H.case(case, case['S'][0] == 'tc' and len(case['S']) > 2, 'tpair:equal' if expected else 'tpair:unequal')


def check_triple(case, H):
    from kernel import term_ord
    js = case['ts']
    hs = [codec.term_dec(j) for j in js]
    rs = [ref.canon(ref.from_jterm(j)) for j in js]
    cmp = term_ord.fast_compare
    for i in range(3):
        for j in range(3):
            for k in range(3):
                if cmp(hs[i], hs[j]) <= 0 and cmp(hs[j], hs[k]) <= 0 and cmp(hs[i], hs[k]) > 0:
                    H.violation('order:not-transitive', case, 'indices %d %d %d' % (i, j, k))
                    H.case(case, True, 'triple')
                    return
    try:
        out = term_ord.sorted_terms(hs)
    except Exception as e:
        H.violation('order:sorted_terms-raises', case, repr(e))
        H.case(case, True, 'triple')
        return
    rout = [ref.canon(ref.from_term(t)) for t in out]
    if sorted(map(repr, set(rs))) != sorted(map(repr, rout)):
        H.violation('order:sorted_terms-not-a-duplicate-free-permutation', case,
                    'in=%d distinct, out=%d' % (len(set(rs)), len(rout)))
    else:
        for a, b in zip(out, out[1:]):
            if cmp(a, b) >= 0:
                H.violation('order:sorted_terms-not-sorted', case, '%s !< %s' % (a, b))
                break
    H.case(case, len(set(rs)) >= 2, 'triple')


# ------------------------------------------------------------------ (c) operations
def term_dec_shared(j, cache):
    """Decode with maximal physical sharing: structurally identical JSON sub-terms become ONE holpy object
    (also when they sit at different binder depths)."""
    from kernel.term import Comb, Abs
    import json as _json
    key = _json.dumps(j)
    if key in cache:
        return cache[key]
    if j[0] == 'app':
        t = Comb(term_dec_shared(j[1], cache), term_dec_shared(j[2], cache))
    elif j[0] == 'abs':
        t = Abs(j[1], codec.type_dec(j[2]), term_dec_shared(j[3], cache))
    else:
        t = codec.term_dec(j)
    cache[key] = t
    return t


def _names_in(j, acc_free, acc_bind):
    tag = j[0]
    if tag in ('v', 'sv'):
        acc_free.add(j[1])
    elif tag == 'app':
        _names_in(j[1], acc_free, acc_bind)
        _names_in(j[2], acc_free, acc_bind)
    elif tag == 'abs':
        acc_bind.add(j[1])
        _names_in(j[3], acc_free, acc_bind)


def _has_loose(j, depth=0):
    tag = j[0]
    if tag == 'b':
        return j[1] >= depth
    if tag == 'app':
        return _has_loose(j[1], depth) or _has_loose(j[2], depth)
    if tag == 'abs':
        return _has_loose(j[3], depth + 1)
    return False


def _same_denotation(r1, r2, rng):
    """None if not evaluable; else (True, None) or (False, info)."""
    fv = set()
    tv = set()
    for r in (r1, r2):
        ref.free_vars(r, fv)
        ref.all_type_vars(r, tv)
    fv = sorted(fv)
    tv = sorted(tv)
    if any(v[0] == 'bv' for v in fv) or ref.is_open(r1) or ref.is_open(r2):
        return None
    import itertools
    checked = False
    for sizes in itertools.product((1, 2), repeat=len(tv)):
        M = model.Model(dict(zip(tv, sizes)))
        try:
            doms = [M.dom(v[2]) for v in fv]
            total = 1
            for d in doms:
                total *= len(d)
            if total <= 3000:
                assigns = list(itertools.product(*doms))
            else:
                assigns = [tuple(rng.choice(d) for d in doms) for _ in range(300)]
            for vals in assigns:
                env = dict(zip(fv, vals))
                if M.eval(r1, env) != M.eval(r2, env):
                    return False, {'sizes': sizes, 'assign': [repr(v) for v in vals]}
            checked = True
        except model.Unsupported:
            continue
    return (True, None) if checked else None


def check_op(case, H, share=False):
    from kernel.term import Inst, Lambda, TermException, TypeCheckException, Term
    from kernel.type import TyInst
    op = case.get('op')
    rng = random.Random(harness.digest(case))
    tj = case['t']
    _cache = {}
    _plain_dec = codec.term_dec

    def _dec(j):
        return term_dec_shared(j, _cache) if share else _plain_dec(j)
    ht = _dec(tj)
    rt = ref.from_jterm(tj)
    before = ref.canon(ref.from_term(ht))
    klass = ['op:' + op]
    capture = False
    free_n, bind_n = set(), set()
    _names_in(tj, free_n, bind_n)
    expected = None
    result = None
    extra_type_check = None
    try:
        if op == 'subst_type':
            ty = {str(k): v for k, v in case['tyinst'].items()}
            result = ht.subst_type(TyInst(**{k: codec.type_dec(v) for k, v in ty.items()}))
            sigma = {('stv', k): ref.from_jtype(v) for k, v in ty.items()}
            expected = ref.subst_type_term(rt, sigma)
        elif op == 'subst':
            inst_j = case['inst']
            for v in list(inst_j.get('inst', {}).values()) + list(inst_j.get('var_inst', {}).values()):
                if _has_loose(v):
                    raise CaseInvalid('open instantiating term')
                f2, b2 = set(), set()
                _names_in(v, f2, b2)
                if f2 & bind_n:
                    capture = True
            inst = Inst(**{str(k): codec.term_dec(v) for k, v in inst_j.get('inst', {}).items()})
            for k, v in inst_j.get('tyinst', {}).items():
                inst.tyinst[str(k)] = codec.type_dec(v)
            for k, v in inst_j.get('var_inst', {}).items():
                inst.var_inst[str(k)] = codec.term_dec(v)
            for k, v in inst_j.get('abs_name_inst', {}).items():
                inst.abs_name_inst[str(k)] = str(v)
            # reference: complete the type instantiation by matching, then instantiate by name
            sigma = {('stv', k): ref.from_jtype(v) for k, v in inst_j.get('tyinst', {}).items()}
            consistent = True
            r_inst = {k: ref.from_jterm(v) for k, v in inst_j.get('inst', {}).items()}
            r_vinst = {k: ref.from_jterm(v) for k, v in inst_j.get('var_inst', {}).items()}
            for v in sorted(ref.free_vars(rt)):
                if v[0] == 'svar' and v[1] in r_inst:
                    try:
                        if not ref.type_match(v[2], ref.typeof(r_inst[v[1]]), sigma):
                            consistent = False
                    except ref.RefError:
                        consistent = False
            rt2 = ref.subst_type_term(rt, sigma)
            for v in sorted(ref.free_vars(rt2)):
                if v[0] == 'var' and v[1] in r_vinst:
                    try:
                        if ref.typeof(r_vinst[v[1]]) != v[2]:
                            consistent = False
                    except ref.RefError:
                        consistent = False
            if not consistent:
                raise CaseInvalid('type-inconsistent instantiation (out of domain)')
            result = ht.subst(inst)
            expected = ref.subst_by_name(rt2, r_inst, r_vinst)
        elif op == 'lambda':
            xj = case['x']
            if xj[0] not in ('v', 'sv'):
                raise CaseInvalid('x')
            hx = codec.term_dec(xj)
            rx = ref.from_jterm(xj)
            if xj[1] in bind_n:
                capture = True
            clash = any(v[0] == rx[0] and v[1] == rx[1] and v[2] != rx[2] for v in ref.free_vars(rt))
            try:
                result = Lambda(hx, ht)
            except TermException:
                if clash:
                    H.case(case, False, klass + ['op:lambda:refused-type-clash'])
                    return
                raise
            uid = next(ref._uid)
            bv = ('bv', uid, rx[2])
            # holpy abstracts by NAME and kind and refuses a same-name variable of another type
            expected = ('lam', uid, rx[2], ref.subst(rt, {rx: bv}), xj[1])
            if clash:
                H.violation('op:lambda:type-clash-not-refused', case, 'Lambda returned %s' % ref.show(ref.from_term(result)))
                return
        elif op in ('subst_bound', 'beta_conv'):
            aj = case['a']
            ha = _dec(aj)
            ra = ref.from_jterm(aj)
            if tj[0] != 'abs':
                raise CaseInvalid('subst_bound needs an abstraction')
            f2, b2 = set(), set()
            _names_in(aj, f2, b2)
            inner_binders = set()
            _names_in(tj[3], set(), inner_binders)
            capture = bool(f2 & inner_binders) or _has_loose(aj)
            if _has_loose(aj):
                klass.append('op:loose-argument')
            if op == 'subst_bound':
                result = ht.subst_bound(ha)
            else:
                from kernel.term import Comb
                result = Comb(ht, ha).beta_conv()
            expected = ref.subst(rt[3], {('bv', rt[1], rt[2]): ra})
        elif op == 'beta_norm':
            result = ht.beta_norm()
            expected = ref.beta_norm(rt)
            capture = ref.canon(expected) != ref.canon(rt)
        elif op == 'incr_boundvars':
            inc = case['inc']
            if not isinstance(inc, int) or isinstance(inc, bool) or inc < 0 or inc > 5:
                raise CaseInvalid('inc')
            result = ht.incr_boundvars(inc)

            def lift(r):
                if r[0] == 'loose':
                    return ('loose', r[1] + inc)
                if r[0] == 'app':
                    return ('app', lift(r[1]), lift(r[2]))
                if r[0] == 'lam':
                    return ('lam', r[1], r[2], lift(r[3]), r[4])
                return r
            expected = lift(rt)
            capture = _has_loose(tj)
        else:
            raise CaseInvalid('op')
    except CaseInvalid:
        raise
    except (TermException, TypeCheckException) as e:
        # the operation refused: allowed (the property speaks about results)
        H.case(case, False, klass + ['op:refused'])
        return
    except ref.RefError as e:
        H.inconc('reference-failed:%s' % op)
        return
    rres = ref.from_term(result)
    if ref.canon(rres) != ref.canon(expected):
        feat = 'loose' if 'op:loose-argument' in klass else ('capture' if capture else 'plain')
        if share:
            feat += '+shared-subterms'
        H.violation('op:%s:differs-from-reference:%s' % (op, feat), case,
                    'got %s expected %s' % (ref.show(rres), ref.show(expected)))
        H.case(case, True, klass)
        return
    if ref.canon(ref.from_term(ht)) != before:
        H.violation('op:%s:mutates-its-input' % op, case, '')
    # typing
    if not ref.is_open(rt) and ref.well_typed(rt):
        open_arg = op in ('subst_bound', 'beta_conv') and _has_loose(case['a'])
        if not open_arg and op != 'subst':
            try:
                t_in = ref.typeof(rt)
                t_out = ref.typeof(rres)
                if op == 'subst_type':
                    t_in = ref.type_subst(t_in, sigma)
                elif op == 'lambda':
                    t_in = ref.tfun(expected[2], t_in)
                elif op in ('subst_bound', 'beta_conv'):
                    t_in = t_in[2][1]
                if t_in != t_out:
                    H.violation('op:%s:type-not-preserved' % op, case, '%s vs %s' % (ref.show_type(t_in), ref.show_type(t_out)))
            except ref.RefError as e:
                H.violation('op:%s:result-ill-typed' % op, case, str(e))
        # denotation
        if op == 'beta_norm':
            d = _same_denotation(rt, rres, rng)
            if d is not None and d[0] is False:
                H.violation('op:beta_norm:denotation-changed', case, repr(d[1]))
        elif op in ('subst_bound', 'beta_conv') and not open_arg:
            redex = ('app', rt, ref.from_jterm(case['a']))
            if ref.well_typed(redex):
                d = _same_denotation(redex, rres, rng)
                if d is not None and d[0] is False:
                    H.violation('op:%s:denotation-changed' % op, case, repr(d[1]))
    if not share:
        H.case(case, capture, klass + (['op:capture-opportunity'] if capture else []) + (['op:dup-subterms'] if case.get('dup') else []))


# ------------------------------------------------------------------ (b) histories
def check_hist(case, H):
    from kernel.term import Term, Var, Comb, Const, Bound, Abs, TermException
    from kernel.type import TyInst
    from kernel import theory
    from logic import context
    ops = case['ops']
    if not isinstance(ops, list) or len(ops) > 80:
        raise CaseInvalid('ops')
    theory.thy = _T['thy']
    bundle = []      # [holpy term or None, reference snapshot]
    keep = []        # burst objects kept alive
    saw_parse = saw_drop = saw_alloc = False
    interesting = False

    def compare_newest():
        nonlocal interesting
        if not bundle or bundle[-1][0] is None:
            return True
        a, ra = bundle[-1]
        for b, rb in bundle[:-1]:
            if b is None:
                continue
            exp = ref.canon(ra) == ref.canon(rb)
            got1, got2 = (a == b), (b == a)
            if got1 != exp or got2 != exp:
                H.violation('hist:wrong-verdict:%s' % ('false-equal' if not exp else 'false-unequal'), case,
                            '%s == %s gives %s/%s, reference %s (after %d ops)' % (ref.show(ra), ref.show(rb), got1, got2, exp,
                                                                                  len(bundle)))
                return False
            if exp and hash(a) != hash(b):
                H.violation('hist:hash-differs', case, '%s' % ref.show(ra))
                return False
            if saw_parse and saw_drop and saw_alloc:
                interesting = True
        return True

    prev_ctxt = context.ctxt
    context.ctxt = _T['ctx']
    try:
        for o in ops:
            if not isinstance(o, list) or not o:
                raise CaseInvalid('op')
            name = o[0]
            if name == 'mk':
                t = codec.term_dec(o[1])
                bundle.append([t, ref.from_jterm(o[1])])
                saw_alloc = saw_alloc or saw_drop or saw_parse
            elif name == 'parse':
                if o[1] not in PARSE_TEXTS:
                    raise CaseInvalid('text')
                t = Term(o[1])
                bundle.append([t, ref.from_term(t)])
                saw_parse = True
            elif name in ('Term', 'copy'):
                i = o[1]
                if not isinstance(i, int) or not (0 <= i < len(bundle)) or bundle[i][0] is None:
                    continue
                t = Term(bundle[i][0]) if name == 'Term' else _copy.copy(bundle[i][0])
                bundle.append([t, bundle[i][1]])
                saw_parse = saw_parse or name == 'Term'
            elif name == 'drop':
                i = o[1]
                if isinstance(i, int) and 0 <= i < len(bundle):
                    bundle[i][0] = None
                    saw_drop = True
            elif name == 'gc':
                gc.collect()
                saw_drop = True
            elif name == 'burst':
                k = o[1]
                if not isinstance(k, int) or not (0 <= k <= 64):
                    raise CaseInvalid('burst')
                kind = o[2] if len(o) > 2 else 'var'
                for n in range(k):
                    if kind == 'var':
                        t = Var('w%d' % n, _T['nat'] if 'nat' in _T else codec.type_dec(["tc", "nat"]))
                        r = ('var', 'w%d' % n, ('tc', 'nat', ()))
                    elif kind == 'comb':
                        t = Comb(Var('g', codec.type_dec(fun(BOOL, BOOL))), Var('w%d' % n, codec.type_dec(BOOL)))
                        r = ref.from_term(t)
                    else:
                        t = Bound(n)
                        r = ('loose', n)
                    bundle.append([t, r])
                    saw_alloc = saw_alloc or saw_drop or saw_parse
                    if not compare_newest():
                        H.case(case, True, 'hist')
                        return
                    if len(bundle) > 40:
                        bundle.pop(0)
                continue
            elif name in ('inplace', 'inplace_mk'):
                if name == 'inplace_mk':
                    bundle.append([codec.term_dec(o[1]), ref.from_jterm(o[1])])
                    i = len(bundle) - 1
                else:
                    i = o[1]
                if not isinstance(i, int) or not (0 <= i < len(bundle)) or bundle[i][0] is None:
                    continue
                t = _copy.copy(bundle[i][0])
                hash(t)
                ty = {str(k): v for k, v in o[2].items()}
                t.subst_type_inplace(TyInst(**{k: codec.type_dec(v) for k, v in ty.items()}))
                r = ref.subst_type_term(bundle[i][1], {('stv', k): ref.from_jtype(v) for k, v in ty.items()})
                fresh = bundle[i][0].subst_type(TyInst(**{k: codec.type_dec(v) for k, v in ty.items()}))
                bundle.append([fresh, r])
                bundle.append([t, r])
            elif name == 'subst_type':
                i = o[1]
                if not isinstance(i, int) or not (0 <= i < len(bundle)) or bundle[i][0] is None:
                    continue
                ty = {str(k): v for k, v in o[2].items()}
                t = bundle[i][0].subst_type(TyInst(**{k: codec.type_dec(v) for k, v in ty.items()}))
                bundle.append([t, ref.subst_type_term(bundle[i][1], {('stv', k): ref.from_jtype(v) for k, v in ty.items()})])
            elif name == 'beta_norm':
                i = o[1]
                if not isinstance(i, int) or not (0 <= i < len(bundle)) or bundle[i][0] is None:
                    continue
                try:
                    bundle.append([bundle[i][0].beta_norm(), ref.beta_norm(bundle[i][1])])
                except (TermException, ref.RefError, RecursionError):
                    continue
            else:
                raise CaseInvalid('op name')
            if not compare_newest():
                H.case(case, True, 'hist')
                return
            if len(bundle) > 40:
                bundle.pop(0)
    finally:
        context.ctxt = prev_ctxt
        del bundle[:]
        del keep[:]
    H.case(case, interesting, ['hist', 'hist:parse-drop-alloc' if interesting else 'hist:plain'])


def run_case(case, H):
    if not isinstance(case, dict):
        raise CaseInvalid('case')
    k = case.get('kind')
    try:
        with time_limit(30):
            if k == 'pair':
                check_pair(case, H)
            elif k == 'tpair':
                check_tpair(case, H)
            elif k == 'triple':
                check_triple(case, H)
            elif k == 'op':
                check_op(case, H, share=False)
                if case.get('op') in ('subst_bound', 'beta_conv', 'beta_norm', 'incr_boundvars', 'subst_type', 'lambda'):
                    check_op(case, H, share=True)
            elif k == 'hist':
                check_hist(case, H)
            else:
                raise CaseInvalid('kind')
    except Timeout:
        H.inconc('timeout')
    except RecursionError:
        H.inconc('recursion')
    except (KeyError, IndexError, TypeError) as e:
        # malformed (shrunk) case
        raise CaseInvalid(repr(e))


# ------------------------------------------------------------------ generation
def _paths(j, p=()):
    yield p, j
    if j[0] == 'app':
        yield from _paths(j[1], p + (1,))
        yield from _paths(j[2], p + (2,))
    elif j[0] == 'abs':
        yield from _paths(j[3], p + (3,))


def _replace(j, p, new):
    if not p:
        return new
    j = list(j)
    j[p[0]] = _replace(j[p[0]], p[1:], new)
    return j


def pair_strategy(opts):
    from hypothesis import strategies as st

    @st.composite
    def pairs(draw):
        T = draw(gen.types(opts))
        s = draw(gen.terms(opts, T, (), draw(st.integers(1, 4))))
        via = draw(st.sampled_from(['same', 'rename', 'rename', 'mut', 'mut', 'mut', 'other']))
        t = s
        if via == 'rename':
            def ren(j):
                if j[0] == 'abs':
                    return ['abs', draw(st.sampled_from(opts.names + ['u', 'v'])), j[2], ren(j[3])]
                if j[0] == 'app':
                    return ['app', ren(j[1]), ren(j[2])]
                return j
            t = ren(s)
        elif via == 'mut':
            nodes = list(_paths(s))
            p, node = draw(st.sampled_from(nodes))
            tag = node[0]
            kind = 'none'
            if tag in ('v', 'sv', 'c'):
                kind = draw(st.sampled_from(['type', 'name', 'tag']))
                if kind == 'type':
                    new = [tag, node[1], draw(gen.types(opts))]
                elif kind == 'name':
                    new = [tag, draw(st.sampled_from(opts.names)), node[2]]
                else:
                    new = [draw(st.sampled_from(['v', 'sv', 'c'])), node[1], node[2]]
            elif tag == 'b':
                kind = 'index'
                new = ['b', max(0, node[1] + draw(st.sampled_from([-1, 1])))]
            elif tag == 'abs':
                kind = 'binder-type'
                new = ['abs', node[1], draw(gen.types(opts)), node[3]]
            else:
                kind = 'swap'
                new = ['app', node[2], node[1]] if draw(st.booleans()) else ['app', node[1], node[1]]
            t = _replace(s, p, new)
            via = 'mut:' + kind
        elif via == 'other':
            t = draw(gen.terms(opts, T, (), draw(st.integers(1, 3))))
        return {'kind': 'pair', 's': s, 't': t, 'via': via}
    return pairs()


def op_strategy(opts, opts_loose):
    from hypothesis import strategies as st

    @st.composite
    def ops(draw):
        op = draw(st.sampled_from(['subst_type', 'subst', 'subst', 'lambda', 'subst_bound', 'subst_bound', 'beta_conv',
                                   'beta_norm', 'beta_norm', 'incr_boundvars']))
        T = draw(gen.types(opts))
        fuel = draw(st.integers(1, 4))
        if op == 'subst_type':
            t = draw(gen.terms(opts, T, (), fuel))
            names = draw(st.lists(st.sampled_from(['a', 'b']), min_size=1, max_size=2, unique=True))
            return {'kind': 'op', 'op': op, 't': t, 'tyinst': {n: draw(gen.types(opts)) for n in names}}
        if op == 'subst':
            t = draw(gen.terms(opts, T, (), fuel))
            atoms = gen.jterm_atoms(t)
            svs = [a for a in atoms if a[0] == 'sv']
            vs = [a for a in atoms if a[0] == 'v']
            import json
            sig = {}
            tyinst = {}
            if draw(st.booleans()):
                for n in draw(st.lists(st.sampled_from(['a', 'b']), min_size=1, max_size=2, unique=True)):
                    sig[('stv', n)] = draw(gen.types(opts))
                if draw(st.booleans()):
                    tyinst = {k[1]: v for k, v in sig.items()}     # explicit; otherwise inferred by matching
            inst = {}
            chosen = draw(st.lists(st.sampled_from(svs), max_size=3, unique_by=lambda a: a[1])) if svs else []
            names_used = set()
            for a in chosen:
                # all svars of this NAME must agree on the instantiated type; skip names used at two types
                if len({b[2] for b in svs if b[1] == a[1]}) > 1:
                    continue
                Tv = codec.jt_subst(json.loads(a[2]), sig)
                inst[a[1]] = draw(gen.terms(opts, Tv, (), draw(st.integers(0, 2))))
                names_used.add(a[1])
            if not tyinst:
                # implicit mode is only consistent when every chosen stvar is determined by an instantiated svar
                determined = set()
                for a in chosen:
                    if a[1] in inst:
                        for k in codec.jt_vars(json.loads(a[2])):
                            determined.add(k)
                sig2 = {k: v for k, v in sig.items() if k in determined}
                if sig2 != sig:
                    # re-draw the instances under the determined part only
                    sig = sig2
                    for a in chosen:
                        if a[1] in inst:
                            Tv = codec.jt_subst(json.loads(a[2]), sig)
                            inst[a[1]] = draw(gen.terms(opts, Tv, (), draw(st.integers(0, 2))))
            var_inst = {}
            if vs and draw(st.integers(0, 2)) == 0:
                a = draw(st.sampled_from(vs))
                if len({b[2] for b in vs if b[1] == a[1]}) == 1:
                    var_inst[a[1]] = draw(gen.terms(opts, codec.jt_subst(json.loads(a[2]), sig), (), 1))
            abs_name_inst = {}
            if draw(st.integers(0, 3)) == 0:
                abs_name_inst[draw(st.sampled_from(opts.names))] = draw(st.sampled_from(opts.names))
            d = {'inst': inst}
            if tyinst:
                d['tyinst'] = tyinst
            if var_inst:
                d['var_inst'] = var_inst
            if abs_name_inst:
                d['abs_name_inst'] = abs_name_inst
            return {'kind': 'op', 'op': op, 't': t, 'inst': d}
        if op == 'lambda':
            t = draw(gen.terms(opts, T, (), fuel))
            atoms = [a for a in gen.jterm_atoms(t)]
            import json
            if atoms and draw(st.integers(0, 3)) != 0:
                a = draw(st.sampled_from(atoms))
                x = [a[0], a[1], json.loads(a[2])]
                if draw(st.integers(0, 5)) == 0:
                    x = [x[0], x[1], draw(gen.types(opts))]
            else:
                x = [draw(st.sampled_from(['v', 'sv'])), draw(st.sampled_from(opts.names)), draw(gen.types(opts))]
            return {'kind': 'op', 'op': op, 't': t, 'x': x}
        if op in ('subst_bound', 'beta_conv', 'incr_boundvars', 'beta_norm') and draw(st.integers(0, 3)) == 0:
            # one open sub-term s occurring at two binder depths (all binders of one type, so it stays well-typed)
            Ab = gen.A
            R = draw(st.sampled_from([gen.A, BOOL]))
            sT = draw(st.sampled_from([gen.A, BOOL, fun(gen.A, gen.A)]))
            sub = draw(gen.terms(opts_loose, sT, (Ab, Ab, Ab), draw(st.integers(1, 2))))
            inner = sub
            for nm in draw(st.sampled_from([['u'], ['u', 'v']])):
                inner = ['abs', nm, Ab, inner]
            innerT = sT
            for _ in range(len(inner_names(inner, sub))):
                innerT = fun(Ab, innerT)
            hT = fun(sT, innerT, R)
            targ = ['app', ['app', ['v', 'h', hT], sub], inner]        # open: refers to enclosing binders
            if op == 'incr_boundvars':
                return {'kind': 'op', 'op': op, 't': targ, 'inc': draw(st.integers(1, 2)), 'dup': True}
            if op == 'beta_norm':
                # (%x. %w. k x w) targ  under two binders, closed by lambdas
                kT = fun(R, Ab, R)
                red = ['app', ['abs', 'x', R, ['abs', 'w', Ab, ['app', ['app', ['v', 'k', kT], ['b', 1]], ['b', 0]]]], targ]
                return {'kind': 'op', 'op': op, 't': ['abs', 'a', Ab, ['abs', 'c', Ab, ['abs', 'e', Ab, red]]], 'dup': True}
            kT = fun(R, Ab, R)
            body = ['abs', 'w', Ab, ['app', ['app', ['v', 'k', kT], ['b', 1]], ['b', 0]]]
            return {'kind': 'op', 'op': op, 't': ['abs', 'x', R, body], 'a': targ, 'dup': True}
        if op in ('subst_bound', 'beta_conv'):
            aT = draw(st.sampled_from(gen.small_types(opts)))
            body = draw(gen.terms(opts_loose if draw(st.booleans()) else opts, T, (aT,), fuel))
            nm = draw(st.sampled_from(opts.names))
            loose = draw(st.integers(0, 2)) == 0
            a = draw(gen.terms(opts_loose if loose else opts, aT, (), draw(st.integers(0, 2))))
            return {'kind': 'op', 'op': op, 't': ['abs', nm, aT, body], 'a': a}
        if op == 'beta_norm':
            t = draw(gen.terms(opts, T, (), fuel))
            return {'kind': 'op', 'op': op, 't': t}
        t = draw(gen.terms(opts_loose, T, (), fuel))
        return {'kind': 'op', 'op': 'incr_boundvars', 't': t, 'inc': draw(st.integers(0, 3))}
    return ops()


def inner_names(inner, sub):
    names = []
    t = inner
    while t is not sub and t[0] == 'abs':
        names.append(t[1])
        t = t[3]
    return names


def hist_strategy(opts):
    from hypothesis import strategies as st
    small = gen.terms(opts, BOOL, (), 1)
    idx = st.integers(0, 12)
    op = st.one_of(
        st.tuples(st.just('mk'), small).map(list),
        st.tuples(st.just('mk'), small).map(list),
        st.tuples(st.just('parse'), st.sampled_from(PARSE_TEXTS)).map(list),
        st.tuples(st.just('parse'), st.sampled_from(PARSE_TEXTS)).map(list),
        st.tuples(st.just('Term'), idx).map(list),
        st.tuples(st.just('copy'), idx).map(list),
        st.tuples(st.just('drop'), idx).map(list),
        st.just(['gc']),
        st.tuples(st.just('burst'), st.integers(1, 24), st.sampled_from(['var', 'comb', 'bound'])).map(list),
        st.tuples(st.just('inplace'), idx, st.fixed_dictionaries({'a': gen.types(opts)})).map(list),
        st.tuples(st.just('inplace_mk'), gen.terms(opts, fun(gen.SA, BOOL), (), 2), st.fixed_dictionaries({'a': gen.types(opts)})).map(list),
        st.tuples(st.just('subst_type'), idx, st.fixed_dictionaries({'a': gen.types(opts)})).map(list),
        st.tuples(st.just('beta_norm'), idx).map(list),
    )
    return st.lists(op, min_size=3, max_size=40).map(lambda ops: {'kind': 'hist', 'ops': ops})


def shards(tier):
    mul = 1 if tier == 'quick' else 20
    out = []
    for kind, n, k in (('pair', 8000, 16), ('tpair', 1500, 2), ('triple', 1500, 3), ('op', 8000, 20), ('hist', 1200, 8)):
        for i, c in enumerate(harness.split(n * mul, k * (4 if tier != 'quick' else 1))):
            out.append({'kind': kind, 'n': c, 'i': i})
    return out


def run_shard(desc, seed, tier, H):
    from hypothesis import strategies as st
    opts = gen.Opts(svars=True, stvars=True, max_order=1)
    opts_loose = gen.Opts(svars=True, stvars=True, loose=True, max_order=1)
    kind = desc['kind']
    if kind == 'pair':
        strat = pair_strategy(opts_loose if desc['i'] % 2 else opts)
    elif kind == 'tpair':
        ty = gen.types(gen.Opts(stvars=True, max_order=2))
        strat = st.one_of(st.tuples(ty, ty), ty.map(lambda t: (t, t))).map(lambda p: {'kind': 'tpair', 'S': p[0], 'T': p[1]})
    elif kind == 'triple':
        tm = gen.types(opts).flatmap(lambda T: gen.terms(opts_loose, T, (), 2))
        strat = st.lists(tm, min_size=3, max_size=3).map(lambda ts: {'kind': 'triple', 'ts': ts})
    elif kind == 'op':
        strat = op_strategy(opts, opts_loose)
    else:
        strat = hist_strategy(opts)

    def body(case):
        try:
            run_case(case, H)
        except CaseInvalid:
            H.note('generated-out-of-domain:' + case.get('op', case['kind']))
    harness.hyp_run(strat, body, desc['n'], seed)
