"""C11 — definitional theory items are conservative and survive save / load / edit.

Case (JSON):  {"theory": name, "limit": [ty, name] | null, "item": <the JSON dict given to items.parse_item>,
               "family": label (optional, only used for the class histogram)}
The item is parsed in the state of theory `theory` just before the item (ty, name) (limit null: the whole theory).
"""
import contextlib
import copy
import io
import json

from vlib import harness, codec, ref, gen
from vlib import c11_lib as L
from vlib.harness import CaseInvalid, SelfTestError, time_limit, Timeout
from vlib.codec import BOOL, fun

ID = 'C11'
RULE = ("(i) Library: items of the 43 library files (quick: every non-thm item and a seed-dependent quarter of the thm "
        "items; thorough: all), each parsed by items.parse_item in the theory state just before it. (ii) Generated items "
        "of every kind over the states of logic_base / nat / list / real, written as the text/JSON the editor sends by "
        "an own printer from type-directed generated terms: def (valid + adversarial family: self reference at the "
        "same type / an instance / a generalisation, right side with a type variable absent from the constant's type, "
        "extra free or schematic variables, repeated / constant / compound / schematic left arguments, existing names, "
        "overloaded names at declared / undeclared / non-matching / type-variable instances, non-equations, wrong "
        "head, ill-typed), thm / thm.ax (undeclared variables, existing names, attributes, stored proofs), def.ind "
        "(constructor patterns over nat / list / bool, recursive calls, extra variables, patterns typed only by an "
        "annotation), def.pred (recursive introduction rules), type.ind (recursive, polymorphic, function-typed "
        "constructor arguments, existing type / constructor names), def.ax (overloaded flag, existing names, unknown "
        "types), type.ax, header. Accepted = parse_item leaves error None, get_extension returns and "
        "Theory.unchecked_extend accepts the extension (what app/ide.check_modify does). Oracles: (a) for accepted def "
        "items the structural judge of the statement on the theorem actually added (equation; head = the declared "
        "constant; arguments distinct Vars; free variables and type variables of the right side among those of the "
        "left side / constant type; no occurrence of the name at a unifiable type; name new, or overloaded and not "
        "overlapping a declared instance), where possible with a finite-standard-model witness that no interpretation "
        "of the constant exists; a definition the judge refuses is reported once and not examined further; (b) own type "
        "checker over an own model of the extended signature for every extension of every accepted item; (c) "
        "parse_item(export_json()) and parse_edit(get_display()) [unicode, no highlight, line_length 80 as the web "
        "client and None as server.monitor] in the pre-item state must give an item equal field by field (terms up to "
        "alpha, by vlib.ref) and equal by the item's own __eq__; the ASCII edit form must re-parse; __eq__ must notice "
        "a change of any single field. Non-trivial: an accepted item whose extension contains >= 1 theorem, or a "
        "rejected adversarial item; distinct by canonical JSON.")
ASSUMPTIONS = [
    "the library items before the item under test are trusted as the environment (their extensions are replayed "
    "through Theory.unchecked_extend for the code under test and through an own signature model for the oracle)",
    "generated datatype descriptions are self-consistent (as many argument names as argument types, result type = the "
    "datatype) because parse_edit and export_json only ever produce such descriptions",
    "conservativity is judged for items of type def only; def.ind / def.pred / *.ax items are treated as axiomatic "
    "(well-typedness and round trips only)",
    "a change of export_json that keeps the text re-parsable to an equal item (e.g. ASCII instead of unicode "
    "operators) is not a violation of the statement and is not flagged",
    "round trips are asserted only for items whose terms survive syntax.printer -> syntax.parser with all variables "
    "declared (term-level printing is the subject of C07); other accepted items are counted inconclusive",
    "statements of thm / thm.ax items contain no schematic variables; def.ind / def.pred items have >= 1 rule and "
    "type.ind items >= 1 constructor (the edit form cannot express the empty list)",
]
SHRINK_BUDGET = 60
SHRINK_SECONDS = 20

GEN_THEORIES = ['logic_base', 'nat', 'list', 'real']
NAT = ["tc", "nat"]
REAL = ["tc", "real"]
A = ["tv", "a"]
B = ["tv", "b"]
G = ["tv", "g"]

_S = {}          # code under test + caches, filled by setup()
_ENV = {}


@contextlib.contextmanager
def quiet():
    """The parser prints 'When parsing: ...' on every error."""
    with contextlib.redirect_stdout(io.StringIO()):
        yield


# ------------------------------------------------------------------------------------------------ setup
def setup():
    from kernel import theory, extension
    from kernel.theory import TheoryException
    from logic import basic
    from server import items
    from syntax.settings import global_setting
    E = extension.Extension
    if (E.TCONST, E.CONSTANT, E.THEOREM, E.ATTRIBUTE, E.OVERLOAD) != (0, 1, 2, 3, 4):
        raise SelfTestError('extension kinds renumbered')
    _S.update(theory=theory, basic=basic, items=items, global_setting=global_setting, TheoryException=TheoryException)
    with quiet():
        basic.load_metadata()
        order = [n for _, n in sorted((c['order'], n) for n, c in basic.theory_cache['master'].items())]
        for n in order:
            basic.load_theory_cache(n)
    _S['order'] = order
    _S['raw'] = {n: basic.load_json_data(n)['content'] for n in order}
    _S['ext'] = {}
    for n in order:
        content = basic.theory_cache['master'][n]['content']
        if len(content) != len(_S['raw'][n]):
            raise SelfTestError('cache of %s out of step with the file' % n)
        _S['ext'][n] = [it.get_extension() if it.error is None else None for it in content]
    _S['dep_sig'] = {}
    _S['full'] = {}
    for n in GEN_THEORIES:
        _ENV[n] = build_env(n)
    self_test()
    import gc
    gc.collect()
    gc.freeze()     # the loaded library is shared copy-on-write with the worker processes


def dep_sig(name):
    """Own signature after the imports of `name` (before its first item)."""
    if name not in _S['dep_sig']:
        basic = _S['basic']
        sig = L.Sig()
        for dep in basic.get_import_order(basic.theory_cache['master'][name]['imports']):
            for exts in _S['ext'][dep]:
                if exts is not None:
                    sig.apply(exts)
        _S['dep_sig'][name] = sig
    return _S['dep_sig'][name].copy()


def state_for(name, limit):
    """(Theory object, own signature) of theory `name` just before the item `limit` (None: after the last item).
    The Theory object is never mutated by callers (they work on copies)."""
    basic, theory = _S['basic'], _S['theory']
    if name not in _S['raw']:
        raise CaseInvalid('unknown theory %r' % (name,))
    if limit is None and name in _S['full']:
        return _S['full'][name]
    if limit is not None:
        if not (isinstance(limit, (list, tuple)) and len(limit) == 2 and all(isinstance(x, str) for x in limit)):
            raise CaseInvalid('limit')
        limit = (limit[0], limit[1])
    try:
        with quiet():
            basic.load_theory(name, limit=limit)
    except _S['TheoryException']:
        raise CaseInvalid('limit %r not in %s' % (limit, name))
    thy = theory.thy
    sig = dep_sig(name)
    content = basic.theory_cache['master'][name]['content']
    for item, exts in zip(content, _S['ext'][name]):
        if limit and item.ty == limit[0] and item.name == limit[1]:
            break
        if exts is not None:
            sig.apply(exts)
    if limit is None:
        _S['full'][name] = (thy, sig)
    return thy, sig


# ------------------------------------------------------------------------------------------------ the check of one item
REQUIRED = {
    'def.ax': {'name': str, 'type': str},
    'thm.ax': {'name': str, 'vars': dict, 'prop': (str, list)},
    'thm': {'name': str, 'vars': dict, 'prop': (str, list)},
    'def': {'name': str, 'type': str, 'prop': (str, list)},
    'def.ind': {'name': str, 'type': str, 'rules': list},
    'def.pred': {'name': str, 'type': str, 'rules': list},
    'type.ax': {'name': str, 'args': list},
    'type.ind': {'name': str, 'args': list, 'constrs': list},
    'header': {'name': str, 'depth': int},
}
ADVERSARIAL_PREFIX = 'adv:'


def validate_item(raw):
    if not isinstance(raw, dict) or raw.get('ty') not in REQUIRED:
        raise CaseInvalid('item')
    for k, T in REQUIRED[raw['ty']].items():
        if k not in raw or not isinstance(raw[k], T) or isinstance(raw[k], bool):
            raise CaseInvalid('item field %s' % k)
    ty = raw['ty']
    if ty in ('thm', 'thm.ax'):
        if not all(isinstance(k, str) and isinstance(v, str) for k, v in raw['vars'].items()):
            raise CaseInvalid('vars')
        if 'attributes' in raw and not (isinstance(raw['attributes'], list) and all(isinstance(a, str) for a in raw['attributes'])):
            raise CaseInvalid('attributes')
    if ty in ('thm', 'thm.ax', 'def') and isinstance(raw['prop'], list) and not all(isinstance(s, str) for s in raw['prop']):
        raise CaseInvalid('prop')
    if ty == 'def' and 'attributes' in raw and not (isinstance(raw['attributes'], list) and all(isinstance(a, str) for a in raw['attributes'])):
        raise CaseInvalid('attributes')
    if ty in ('def.ind', 'def.pred'):
        if not raw['rules']:
            raise CaseInvalid('no rules')
        for r in raw['rules']:
            if not (isinstance(r, dict) and isinstance(r.get('prop'), (str, list))):
                raise CaseInvalid('rule')
            if isinstance(r['prop'], list) and not all(isinstance(s, str) for s in r['prop']):
                raise CaseInvalid('rule')
            if ty == 'def.pred' and not isinstance(r.get('name'), str):
                raise CaseInvalid('rule name')
    if ty in ('type.ax', 'type.ind') and not all(isinstance(a, str) for a in raw['args']):
        raise CaseInvalid('args')
    if ty == 'type.ind':
        if not raw['constrs']:
            raise CaseInvalid('no constructors')
        for c in raw['constrs']:
            if not (isinstance(c, dict) and isinstance(c.get('name'), str) and isinstance(c.get('type'), str)
                    and isinstance(c.get('args'), list) and all(isinstance(a, str) for a in c['args'])):
                raise CaseInvalid('constr')


def _errname(e):
    return type(e).__name__


def _run(thy, fn, *args):
    """Run code under test with the global theory set to `thy`; returns ('ok', value) | ('raised', exception) |
    ('timeout', None)."""
    theory = _S['theory']
    theory.thy = thy
    try:
        with quiet(), time_limit(30):
            return 'ok', fn(*args)
    except Timeout:
        return 'timeout', None
    except RecursionError as e:
        return 'timeout', e
    except Exception as e:   # code under test has no documented exception set
        return 'raised', e


def check_item(case, pre_thy, pre_sig, H):
    """Parse case['item'] in (a copy of) pre_thy; run the oracles; record through H."""
    items, global_setting = _S['items'], _S['global_setting']
    raw = case['item']
    ty = raw['ty']
    family = case.get('family') or ('library' if case.get('limit') else 'none')
    adversarial = family.startswith(ADVERSARIAL_PREFIX)
    klass = ['ty:' + ty, 'family:%s:%s' % (ty, family)]

    reported = set()

    def V(sig, detail):
        if sig not in reported:      # once per case (the edit form is exercised with two line lengths)
            reported.add(sig)
            H.violation(sig, case, detail)

    def done(outcome, nontrivial):
        H.case(case, nontrivial, klass + ['outcome:%s:%s' % (ty, outcome)], sample=len(harness.canon(case)) < 1500)

    # ---- parse ------------------------------------------------------------------------------------
    cur = copy.copy(pre_thy)
    st, item = _run(cur, items.parse_item, copy.deepcopy(raw))
    if st == 'timeout':
        H.inconc('timeout:parse_item')
        return
    if st == 'raised':
        return done('rejected:raised:' + _errname(item), adversarial)
    if item.error is not None:
        return done('rejected:' + _errname(item.error), adversarial)
    st, exts = _run(cur, item.get_extension)
    if st == 'timeout':
        H.inconc('timeout:get_extension')
        return
    if st == 'raised':
        H.note('get_extension-raised:%s:%s' % (ty, _errname(exts)))
        return done('rejected:get_extension-raised:' + _errname(exts), adversarial)
    post = copy.copy(cur)
    st, r = _run(post, post.unchecked_extend, exts)
    if st == 'timeout':
        H.inconc('timeout:extend')
        return
    if st == 'raised':
        return done('rejected-by-extend:' + _errname(r), adversarial)
    n_thm = sum(1 for e in exts if getattr(e, 'ty', None) == L.THEOREM)

    # ---- (a) conservativity of definitions ------------------------------------------------------------
    if ty == 'def':
        cs = [e for e in exts if e.ty == L.CONSTANT]
        ts = [e for e in exts if e.ty == L.THEOREM]
        if len(cs) != 1 or len(ts) != 1:
            V('def:extension-shape', 'a definition must add one constant and one theorem, got %s' % (exts,))
        else:
            try:
                declT = ref.from_type(cs[0].T)
                prop = ref.from_term(ts[0].th.prop)
                hyps = list(ts[0].th.hyps)
            except Exception as e:
                V('def:extension-unreadable', repr(e))
                declT = None
            if declT is not None:
                verdict = L.judge_def(cs[0].name, declT, prop, pre_sig)
                if hyps:
                    verdict.append(('has-hypotheses', 'the defining theorem has hypotheses'))
                klass.append('judge:' + ('definitional' if not verdict else 'not-definitional'))
                witness = L.exhibit_inconsistency(cs[0].name, declT, prop) if verdict else None
                for cond, detail in verdict:
                    V('def:accepted-non-conservative:' + cond,
                                'accepted: %s :: %s with %s; %s%s' % (cs[0].name, ref.show_type(declT), ref.show(prop)[:400],
                                                                     detail, '; ' + witness if witness else ''))
                if witness:
                    H.note('inconsistency-exhibited-by-finite-models')
                if verdict:
                    # the item should not have been accepted at all: what its extension and its printed forms look
                    # like are consequences of the same missing side condition, not further defects
                    return done('accepted-not-definitional', True)

    # ---- (b) well-typedness of the extension over the extended signature --------------------------------
    try:
        problems, _ = L.check_extensions(exts, pre_sig)
    except RecursionError:
        problems = []
        H.inconc('recursion:typing')
    seen = set()
    for kind, detail in problems:
        if kind not in seen:
            seen.add(kind)
            V('ext:%s:%s' % (ty, kind), detail)

    # ---- (c) round trips ------------------------------------------------------------------------------------
    def fresh_pre():
        return copy.copy(pre_thy)

    why = term_level_failure(item, pre_thy, post)
    if why:
        # printing a term and parsing it back with every variable declared already fails: that is the subject of
        # C07 (syntax.printer / syntax.parser), not of the item layer
        H.inconc('term-level print/parse does not round-trip (C07 domain): ' + why)
        check_eq_fields(item, ty, case, H)
        return done('accepted', n_thm >= 1)

    fails = []     # (form, kind, detail)

    def compare(form, item2, how):
        if item2.error is not None:
            fails.append((form, 'reparse-error:%s' % _errname(item2.error), '%s: %s' % (how, str(item2.error)[:300])))
            return
        diff = L.diff_items(item, item2)
        try:
            eq = bool(item == item2)
        except Exception as e:
            fails.append((form, 'eq-raises:%s' % _errname(e), '%s: %r' % (how, e)))
            return
        if diff:
            fails.append((form, 'differs:%s' % diff[0],
                          '%s: fields %s differ (item.__eq__ says %s): %r vs %r' % (
                              how, diff, 'equal' if eq else 'different', _show(getattr(item, diff[0], None)),
                              _show(getattr(item2, diff[0], None)))))
        elif not eq:
            fails.append((form, 'eq-says-different',
                          '%s: all fields agree (terms up to alpha) but item.__eq__ returns False' % how))

    def copy_proof(item2):
        if ty == 'thm':   # as server.monitor.check_theory does
            item2.proof, item2.steps, item2.num_gaps = item.proof, item.steps, item.num_gaps

    # file form
    st, j = _run(post, item.export_json)
    if st == 'ok' and case.get('limit') and j != raw:
        # informational: saving an unchanged library item would rewrite its file entry (not a violation of the statement)
        H.note('library-file-entry-not-a-fixpoint-of-export_json:' + ty)
    if st == 'raised':
        V('roundtrip-json:%s:export-raises:%s' % (ty, _errname(j)), repr(j))
    elif st == 'ok':
        try:
            j2 = json.loads(json.dumps(j))
        except Exception as e:
            j2 = None
            V('roundtrip-json:%s:not-serialisable' % ty, repr(e))
        if j2 is not None:
            st, item2 = _run(fresh_pre(), items.parse_item, j2)
            if st == 'raised':
                V('roundtrip-json:%s:parse-raises:%s' % (ty, _errname(item2)), '%r on %r' % (item2, j2))
            elif st == 'ok':
                compare('json', item2, 'parse_item(export_json())')
    # editor form: unicode, no highlight; line_length 80 is what the web client asks for, None what server.monitor uses
    edit_raised = False
    for ll in (80, None):
        def display():
            with global_setting(unicode=True, highlight=False, line_length=ll):
                return item.get_display()
        st, disp = _run(post, display)
        how = 'parse_edit(get_display()) [unicode, line_length=%s]' % ll
        if st == 'raised':
            V('roundtrip-edit:%s:display-raises:%s' % (ty, _errname(disp)), '%s: %r' % (how, disp))
            continue
        if st != 'ok':
            continue
        st, item2 = _run(fresh_pre(), items.parse_edit, copy.deepcopy(disp))
        if st == 'raised':
            edit_raised = True
            V('roundtrip-edit:%s:parse-raises:%s' % (ty, _errname(item2)),
                        '%s in the pre-item state (app/ide.check_modify loads the theory up to the item): %r on %r' % (
                            how, getattr(item2, 'str', item2), disp))
            if ty == 'type.ind':
                # server.monitor compares in a state that already contains the type name (a side effect of
                # Datatype.parse); continue with that comparison so that later differences are not hidden
                thy2 = fresh_pre()
                thy2.get_data('type_sig')[raw['name']] = len(raw['args'])
                st, item2 = _run(thy2, items.parse_edit, copy.deepcopy(disp))
                if st == 'raised':
                    V('roundtrip-edit:%s:parse-raises-with-type-declared:%s' % (ty, _errname(item2)),
                                '%s: %r' % (how, getattr(item2, 'str', item2)))
                elif st == 'ok':
                    copy_proof(item2)
                    compare('edit', item2, how + ' with the type name declared')
        elif st == 'ok':
            copy_proof(item2)
            compare('edit', item2, how)

    # one defect of the shared printer shows in both forms: report it once
    kinds = {}
    for form, kind, detail in fails:
        kinds.setdefault(kind, {}).setdefault(form, detail)
    for kind, forms in kinds.items():
        form = '+'.join(sorted(forms))
        V('roundtrip-%s:%s:%s' % (form, ty, kind), ' || '.join(forms[f] for f in sorted(forms)))

    # ASCII edit form must at least re-parse (skipped when the unicode edit form already fails to re-parse)
    def display_ascii():
        with global_setting(unicode=False, highlight=False, line_length=None):
            return item.get_display()
    edit_failed = edit_raised or any(form == 'edit' and kind.startswith('reparse-error') for form, kind, _ in fails)
    if ty != 'type.ind' and not edit_failed:
        st, disp = _run(post, display_ascii)
        if st == 'raised':
            V('reparse-ascii:%s:display-raises:%s' % (ty, _errname(disp)), repr(disp))
        elif st == 'ok':
            st, item2 = _run(fresh_pre(), items.parse_edit, copy.deepcopy(disp))
            if st == 'raised':
                V('reparse-ascii:%s:parse-raises:%s' % (ty, _errname(item2)), '%r on %r' % (item2, disp))
            elif st == 'ok' and item2.error is not None:
                V('reparse-ascii:%s:%s' % (ty, _errname(item2.error)),
                            'ASCII edit form does not re-parse: %s on %r' % (str(item2.error)[:300], disp))

    check_eq_fields(item, ty, case, H)
    done('accepted', n_thm >= 1)


def check_eq_fields(item, ty, case, H):
    """Item equality must see every field."""
    for field in L.item_fields(item):
        try:
            other = L.perturb_field(item, field)
            if other is None:
                continue
            if item == other:
                H.violation('eq:ignores-field:%s:%s' % (ty, field), case,
                            'an item that differs only in field %r (%s vs %s) compares equal' % (
                                field, _show(getattr(item, field)), _show(getattr(other, field))))
        except Exception as e:
            H.violation('eq:raises:%s:%s' % (ty, _errname(e)), case, 'field %s: %r' % (field, e))


def item_terms(item):
    from kernel.term import Term
    out = []
    prop = getattr(item, 'prop', None)
    if isinstance(prop, Term):
        out.append(prop)
    for r in getattr(item, 'rules', None) or []:
        if isinstance(r, dict) and isinstance(r.get('prop'), Term):
            out.append(r['prop'])
    return out


def term_level_failure(item, pre_thy, post):
    """Domain filter (not an oracle): every term of the item must survive print -> parse when all its variables
    are declared in the context and the defined constant is known.  Returns a short reason or None."""
    from logic import context
    from syntax import parser, printer
    global_setting = _S['global_setting']
    defs = None
    if item.ty in ('def', 'def.ind', 'def.pred'):
        defs = {item.name: item.type}
    for t in item_terms(item):
        want = ref.canon(ref.from_term(t))
        vs = {v.name: v.T for v in t.get_vars()}
        svs = {v.name: v.T for v in t.get_svars()}
        for ll in (None, 80):
            def go():
                _S['theory'].thy = post
                with global_setting(unicode=True, highlight=False, line_length=ll):
                    text = printer.print_term(t)
                _S['theory'].thy = copy.copy(pre_thy)
                with context.fresh_context(vars=vs, svars=svs, defs=defs):
                    return parser.parse_term(text)
            st, t2 = _run(post, go)
            if st != 'ok':
                return 'raises' if st == 'raised' else 'timeout'
            if ref.canon(ref.from_term(t2)) != want:
                return 'differs'
    return None


def _show(x):
    try:
        with quiet():
            return str(x)[:200]
    except Exception:
        return '<%s>' % type(x).__name__


def run_case(case, H):
    if not isinstance(case, dict) or not isinstance(case.get('theory'), str):
        raise CaseInvalid('case')
    validate_item(case.get('item'))
    pre_thy, pre_sig = state_for(case['theory'], case.get('limit'))
    check_item(case, pre_thy, pre_sig, H)


# ------------------------------------------------------------------------------------------------ generation environment
KEEP = {
    'logic_base': {'true', 'false', 'neg', 'conj', 'disj', 'implies', 'equals', 'all', 'exists', 'IF', 'Some'},
    'nat': {'true', 'false', 'neg', 'conj', 'disj', 'implies', 'equals', 'all', 'exists', 'IF',
            'zero', 'one', 'Suc', 'plus', 'times', 'less_eq', 'less'},
    'list': {'true', 'false', 'neg', 'conj', 'implies', 'equals', 'all', 'exists', 'IF',
             'zero', 'Suc', 'plus', 'nil', 'cons', 'append', 'length', 'rev', 'member', 'empty_set'},
    'real': {'true', 'false', 'neg', 'conj', 'implies', 'equals', 'all', 'IF',
             'zero', 'one', 'plus', 'times', 'less_eq', 'less', 'of_nat', 'Suc'},
}
ATOMS = {
    'logic_base': [BOOL, A, B],
    'nat': [BOOL, NAT, A],
    'list': [BOOL, NAT, A, ["tc", "list", A]],
    'real': [BOOL, NAT, REAL],
}
VAR_POOL = ['x', 'y', 'z', 'u', 'v', 'w', 'r', 's', 't', 'k', 'x1', 'y1', 'z1', 'u1', 'v1', 'w1']
CONST_POOL = ['c', 'foo', 'cst', 'my_def', 'd0']
TYPE_POOL = ['tree', 'foo', 'ty0']
CTOR_POOL = ['Leaf', 'Node', 'Mk', 'C0', 'C1']


class Env:
    pass


def build_env(name):
    thy, sig = state_for(name, None)
    e = Env()
    e.name = name
    e.thy, e.sig = thy, sig
    e.atoms = ATOMS[name]
    consts = []
    for nm in sorted(KEEP[name]):
        if nm not in sig.consts:
            raise SelfTestError('constant %s not in theory %s' % (nm, name))
        if nm in sig.overloaded:
            for inst in sig.instances.get(nm, []):
                j = ref.to_jtype(inst)
                if _atoms_only(j, e.atoms):
                    consts.append((nm, j))
        else:
            consts.append((nm, ref.to_jtype(sig.consts[nm])))
    e.consts = consts
    e.vars = [v for v in VAR_POOL if v not in sig.consts]
    e.fresh_consts = [c for c in CONST_POOL if c not in sig.consts]
    e.fresh_types = [t for t in TYPE_POOL if t not in sig.types]
    e.fresh_ctors = [c for c in CTOR_POOL if c not in sig.consts]
    e.existing_consts = [c for c in ('true', 'conj', 'neg', 'Suc', 'nil', 'sqrt', 'IF') if c in sig.consts and c not in sig.overloaded]
    e.existing_types = [t for t in ('bool', 'nat', 'list', 'real') if t in sig.types]
    e.existing_thms = [t for t in ('conjI', 'conjD1', 'disjI1', 'nat_induct', 'add_comm') if t in sig.theorems]
    e.overloaded = [n for n in ('plus', 'times', 'zero', 'less_eq', 'of_nat') if n in sig.overloaded]
    e.has_nat = 'nat' in sig.types
    e.has_list = 'list' in sig.types
    if len(e.vars) < 12 or len(e.fresh_consts) < 3 or not e.fresh_types or len(e.fresh_ctors) < 3:
        raise SelfTestError('name pools clash with theory %s' % name)
    # the own signature model must agree with the theory it mirrors
    ts, cs = thy.get_data('type_sig'), thy.get_data('term_sig')
    if dict(ts) != sig.types or set(cs) != set(sig.consts):
        raise SelfTestError('own signature model differs from theory %s' % name)
    for nm, T in cs.items():
        if ref.from_type(T) != sig.consts[nm]:
            raise SelfTestError('own signature model differs from theory %s at %s' % (name, nm))
    return e


def _atoms_only(T, atoms):
    args, res = codec.jt_strip(T)
    return all(x in atoms for x in args + [res])


def annotator(env, defname=None, declT=None):
    """Which constant occurrences need '(name::type)' so that the parser recovers exactly the intended term."""
    def annotate(nm, T):
        if nm == defname and nm not in env.sig.consts:
            return T != declT
        g = env.sig.consts.get(nm)
        if g is None:
            return True
        return bool(ref.type_vars(g, set()))
    return annotate


def japp(f, *args):
    for a in args:
        f = ["app", f, a]
    return f


def _name_index(s):
    return sum(ord(ch) for ch in s)


def split_lines(draw, st, text):
    """The file form stores long terms as a list of lines (joined with ' ' by parse_term)."""
    if draw(st.integers(0, 4)) != 0:
        return text
    idx = [i for i, ch in enumerate(text) if ch == ' ']
    if not idx:
        return text
    i = draw(st.sampled_from(idx))
    return [text[:i], text[i + 1:]]


def gen_body(draw, st, env, R, params, fuel, bound=()):
    """A JSON term of type R whose free variables are among params [(name, T)]; other variables the generator
    introduces are replaced by parameters of the same type or by closed terms."""
    opts = gen.Opts(sig=env.consts, redex=draw(st.booleans()), atom_types=env.atoms, names=['x', 'y', 'z'])
    t = draw(gen.terms(opts, R, bound, fuel))

    def f(leaf):
        cands = [p for p in params if p[1] == leaf[2]]
        if cands:
            return ['v', cands[_name_index(leaf[1]) % len(cands)][0], leaf[2]]
        return L.inhabitant(leaf[2])
    return L.jsubst_vars(t, f)


# ------------------------------------------------------------------------------------------------ def
DEF_FAMILIES = ['valid', 'valid', 'valid', 'adv:self-same', 'adv:self-same', 'adv:self-instance', 'adv:self-general',
                'adv:rhs-tyvar', 'adv:rhs-tyvar', 'adv:rhs-extra-var', 'adv:rhs-extra-svar', 'adv:lhs-repeat',
                'adv:lhs-const', 'adv:lhs-compound', 'adv:lhs-svar', 'adv:name-exists', 'adv:overload-declared',
                'overload-undeclared', 'adv:overload-nomatch', 'adv:overload-tyvar', 'adv:overload-self',
                'adv:overload-self-instance', 'adv:overload-self-instance', 'adv:overload-self-general',
                'adv:overload-self-unifiable',
                'adv:not-equation', 'adv:wrong-head', 'adv:ill-typed']


def def_strategy(env, families):
    from hypothesis import strategies as st

    @st.composite
    def cases(draw):
        family = draw(st.sampled_from(families))
        if family.split(':')[-1].startswith('overload') and not env.overloaded:
            family = 'valid'
        if family == 'adv:name-exists' and not env.existing_consts:
            family = 'valid'
        uni = draw(st.booleans())
        name = draw(st.sampled_from(env.fresh_consts))
        fam = family.split(':')[-1]
        sig = env.sig

        # ---- base definition  c p1 .. pn = rhs ----------------------------------------------------------
        if fam in ('overload-declared', 'overload-undeclared', 'overload-tyvar', 'overload-self', 'overload-self-instance',
                   'overload-self-general', 'overload-self-unifiable'):
            name = draw(st.sampled_from(env.overloaded))
            general = ref.to_jtype(sig.consts[name])
            if fam == 'overload-declared':
                insts = [ref.to_jtype(i) for i in sig.instances.get(name, [])]
                insts = [i for i in insts if _atoms_only(i, env.atoms)] or insts
                declT = draw(st.sampled_from(insts))
            else:
                if fam == 'overload-tyvar':
                    target = B
                elif fam == 'overload-self-unifiable':
                    target = fun(A, BOOL)
                elif fam in ('overload-self-instance', 'overload-self-general'):
                    # a declared type that is still polymorphic, at an instance no library item declares
                    target = draw(st.sampled_from([fun(A, BOOL), fun(BOOL, A)] + ([["tc", "list", A]] if env.has_list else [])))
                else:
                    target = draw(st.sampled_from([BOOL, fun(BOOL, BOOL)] + ([["tc", "list", A]] if env.has_list else [])))
                declT = L.jsubst_type(general, {k: target for k in codec.jt_vars(general)})
            ptypes, R = codec.jt_strip(declT)
            params = [[env.vars[i], T] for i, T in enumerate(ptypes)]
            rhs = gen_body(draw, st, env, R, params, draw(st.integers(0, 2)))
        else:
            R = draw(st.sampled_from(env.atoms + [BOOL, BOOL]))
            opts = gen.Opts(sig=env.consts, redex=draw(st.booleans()), atom_types=env.atoms, names=['x', 'y', 'z'])
            rhs = draw(gen.terms(opts, R, (), draw(st.integers(0, 3))))
            mapping, params = {}, []
            for tag, nm, Ts in gen.jterm_atoms(rhs)[:4]:
                mapping[(nm, Ts)] = env.vars[len(params)]
                params.append([env.vars[len(params)], json.loads(Ts)])

            def f(leaf):
                key = (leaf[1], json.dumps(leaf[2]))
                if key in mapping:
                    return ['v', mapping[key], leaf[2]]
                return L.inhabitant(leaf[2])
            rhs = L.jsubst_vars(rhs, f)
            if draw(st.integers(0, 2)) == 0:
                params.append([env.vars[len(params)], draw(st.sampled_from(env.atoms))])
            params = list(draw(st.permutations(params)))
            declT = fun(*([p[1] for p in params] + [R]))
        args = [['v', p[0], p[1]] for p in params]
        fresh_var = env.vars[len(params)]

        def rebuild():
            return fun(*([gen.jterm_type(a) if a[0] != 'sv' else a[2] for a in args] + [R]))

        def wrap(rhs, occ, occT):
            modes = ['redex']
            if occT == BOOL and R == BOOL:
                modes += ['neg', 'neg', 'conj']
            m = draw(st.sampled_from(modes))
            if m == 'neg':
                return japp(["c", "neg", fun(BOOL, BOOL)], occ)
            if m == 'conj':
                return japp(["c", "conj", fun(BOOL, BOOL, BOOL)], rhs, occ)
            return ["app", ["abs", "r", occT, rhs], occ]

        lhs_head = name
        prop_override = None
        # ---- variants ----------------------------------------------------------------------------------------
        if fam in ('self-same', 'overload-self'):
            rhs = wrap(rhs, japp(["c", name, declT], *args), R)
        elif fam == 'overload-self-unifiable':
            # occurrence at a type that unifies with the declared type although neither is an instance of the other
            general = ref.to_jtype(sig.consts[name])
            occT = L.jsubst_type(general, {k: fun(BOOL, A) for k in codec.jt_vars(general)})
            pts, occR = codec.jt_strip(occT)
            rhs = wrap(rhs, japp(["c", name, occT], *[L.inhabitant(T) for T in pts]), occR)
        elif fam in ('overload-self-instance', 'overload-self-general'):
            # the overloaded constant occurs on the right at a strict instance of the declared type
            # (resp. the declared type is the strict instance and the occurrence is at the polymorphic type)
            target = draw(st.sampled_from([BOOL] + ([NAT] if env.has_nat else [])))
            instT = L.jsubst_type(declT, {('tv', 'a'): target})
            if fam == 'overload-self-general':
                polyT, declT = declT, instT
                args = [['v', a[1], L.jsubst_type(a[2], {('tv', 'a'): target})] for a in args]
                rhs = L.jsubst_vars(rhs, lambda leaf: L.inhabitant(leaf[2]))
                R = L.jsubst_type(R, {('tv', 'a'): target})
                occT = polyT
            else:
                occT = instT
            pts, occR = codec.jt_strip(occT)
            rhs = wrap(rhs, japp(["c", name, occT], *[L.inhabitant(T) for T in pts]), occR)
        elif fam == 'self-instance':
            if not codec.jt_vars(declT):
                args.append(['v', fresh_var, A])
                declT = rebuild()
            tv = codec.jt_vars(declT)[0]
            target = draw(st.sampled_from([BOOL] + ([NAT] if env.has_nat else [])))
            occT = L.jsubst_type(declT, {tv: target})
            pts = [L.jsubst_type(a[2], {tv: target}) for a in args]
            occ = japp(["c", name, occT], *[L.inhabitant(T) for T in pts])
            rhs = wrap(rhs, occ, L.jsubst_type(R, {tv: target}))
        elif fam == 'self-general':
            idx = [i for i, a in enumerate(args) if not codec.jt_vars(a[2])]
            if not idx:
                args.append(['v', fresh_var, BOOL])
                declT = rebuild()
                idx = [len(args) - 1]
            i = draw(st.sampled_from(idx))
            pts = [a[2] for a in args]
            pts[i] = G
            occT = fun(*(pts + [R]))
            rhs = wrap(rhs, japp(["c", name, occT], *[L.inhabitant(T) for T in pts]), R)
        elif fam == 'rhs-tyvar':
            if R == BOOL and draw(st.booleans()):
                eq = japp(["c", "equals", fun(G, G, BOOL)], ["b", 1], ["b", 0])
                allT = fun(fun(G, BOOL), BOOL)
                collapse = japp(["c", "all", allT], ["abs", "p", G, japp(["c", "all", allT], ["abs", "q", G, eq])])
                rhs = collapse if draw(st.booleans()) else japp(["c", "conj", fun(BOOL, BOOL, BOOL)], rhs, collapse)
            else:
                rhs = ["app", ["abs", "r", G, rhs], L.inhabitant(G)]
        elif fam in ('rhs-extra-var', 'rhs-extra-svar'):
            Ty = draw(st.sampled_from(env.atoms))
            rhs = ["app", ["abs", "r", Ty, rhs], ['sv' if fam.endswith('svar') else 'v', fresh_var, Ty]]
        elif fam == 'lhs-repeat':
            if not args:
                args.append(['v', fresh_var, BOOL])
            src = draw(st.sampled_from(args))
            args.insert(draw(st.integers(0, len(args))), list(src))
            declT = rebuild()
        elif fam == 'lhs-const':
            pool = [["c", "true", BOOL], ["c", "false", BOOL]] + ([["c", "zero", NAT]] if env.has_nat else [])
            args.insert(draw(st.integers(0, len(args))), draw(st.sampled_from(pool)))
            declT = rebuild()
        elif fam == 'lhs-compound':
            pool = [japp(["c", "neg", fun(BOOL, BOOL)], ['v', fresh_var, BOOL]), L.inhabitant(A),
                    ["abs", "p", BOOL, ["b", 0]]]
            if env.has_nat:
                pool.append(japp(["c", "Suc", fun(NAT, NAT)], ['v', fresh_var, NAT]))
            args.insert(draw(st.integers(0, len(args))), draw(st.sampled_from(pool)))
            declT = rebuild()
        elif fam == 'lhs-svar':
            if not args:
                args.append(['v', fresh_var, BOOL])
                declT = rebuild()
            i = draw(st.integers(0, len(args) - 1))
            nm = args[i][1]
            args[i] = ['sv', nm, args[i][2]]
            if draw(st.booleans()):
                rhs = L.jsubst_vars(rhs, lambda leaf: ['sv', leaf[1], leaf[2]] if leaf[1] == nm else leaf)
            else:
                rhs = L.jsubst_vars(rhs, lambda leaf: L.inhabitant(leaf[2]) if leaf[1] == nm else leaf)
        elif fam == 'name-exists':
            name = draw(st.sampled_from(env.existing_consts))
            lhs_head = name
        elif fam == 'overload-nomatch':
            name = draw(st.sampled_from(env.overloaded))
            lhs_head = name
        elif fam == 'wrong-head':
            lhs_head = draw(st.sampled_from([env.vars[-1], 'neg', env.fresh_consts[-1] if env.fresh_consts[-1] != name else env.fresh_consts[0]]))
        elif fam == 'ill-typed':
            if draw(st.booleans()):
                args.append(['v', fresh_var, BOOL])     # one argument too many for the declared type
            else:
                rhs = L.inhabitant(fun(R, R))
        ann = annotator(env, name, declT)
        lhs = ' '.join([lhs_head] + [L.jterm_text(a, ann, (), uni) for a in args])
        rtxt = L.jterm_text(rhs, ann, (), uni)
        if R == BOOL and draw(st.booleans()):
            eqs = ' ⟷ ' if uni else ' <--> '
        else:
            eqs = ' = '
        prop = lhs + eqs + rtxt
        if fam == 'not-equation':
            how = draw(st.sampled_from(['neg', 'imp', 'rhs']))
            if how == 'neg':
                prop = ('¬' if uni else '~') + '(' + prop + ')'
            elif how == 'imp':
                prop = '(' + prop + ')' + (' ⟶ ' if uni else ' --> ') + 'true'
            else:
                prop = lhs
        item = {'ty': 'def', 'name': name, 'type': L.jt_text(declT, uni), 'prop': split_lines(draw, st, prop)}
        if draw(st.integers(0, 3)) == 0:
            item['attributes'] = draw(st.sampled_from([['hint_rewrite'], ['hint_rewrite', 'hint_backward'], []]))
        return {'theory': env.name, 'limit': None, 'item': item, 'family': family}
    return cases()


# ------------------------------------------------------------------------------------------------ thm / thm.ax
def thm_strategy(env):
    from hypothesis import strategies as st

    @st.composite
    def cases(draw):
        family = draw(st.sampled_from(['valid', 'valid', 'valid', 'valid', 'adv:undeclared-var', 'adv:name-exists']))
        ty = draw(st.sampled_from(['thm', 'thm.ax']))
        uni = draw(st.booleans())
        opts = gen.Opts(sig=env.consts, redex=draw(st.booleans()), atom_types=env.atoms, names=['x', 'y', 'z', 'f'],
                        svars=(family == 'svar'))
        prop = draw(gen.terms(opts, BOOL, (), draw(st.integers(1, 4))))
        mapping, vs = {}, {}
        for tag, nm, Ts in gen.jterm_atoms(prop):
            if (nm, Ts) not in mapping:
                mapping[(nm, Ts)] = env.vars[len(mapping) % len(env.vars)] if len(mapping) < len(env.vars) else 'q%d' % len(mapping)
                if tag == 'v':
                    vs[mapping[(nm, Ts)]] = L.jt_text(json.loads(Ts), uni)
        prop = L.jsubst_vars(prop, lambda leaf: [leaf[0], mapping[(leaf[1], json.dumps(leaf[2]))], leaf[2]])
        name = 'c11_thm_%d' % draw(st.integers(0, 3))
        if family == 'adv:name-exists' and env.existing_thms:
            name = draw(st.sampled_from(env.existing_thms))
        if family == 'adv:undeclared-var' and vs:
            del vs[draw(st.sampled_from(sorted(vs)))]
        item = {'ty': ty, 'name': name, 'vars': vs,
                'prop': split_lines(draw, st, L.jterm_text(prop, annotator(env), (), uni))}
        if draw(st.integers(0, 2)) == 0:
            item['attributes'] = draw(st.sampled_from([['hint_rewrite'], ['hint_backward', 'hint_resolve'], ['hint_forward']]))
        if ty == 'thm':
            k = draw(st.integers(0, 3))
            if k == 1:
                item['num_gaps'] = draw(st.integers(0, 2))
                item['steps'] = [{'goal_id': '0', 'method_name': 'introduction', 'names': 'x'}]
            elif k == 2:
                item['proof'] = [{'id': '0', 'rule': 'sorry', 'args': '', 'prevs': [], 'th': '⊢ true'}]
                item['num_gaps'] = 1
        return {'theory': env.name, 'limit': None, 'item': item, 'family': family}
    return cases()


# ------------------------------------------------------------------------------------------------ def.ind
def fun_strategy(env):
    from hypothesis import strategies as st
    LA = ["tc", "list", A]

    @st.composite
    def cases(draw):
        family = draw(st.sampled_from(['valid', 'valid', 'valid', 'recursive', 'recursive', 'adv:extra-var',
                                       'adv:wrong-head', 'adv:not-equation', 'missing-case', 'var-pattern']))
        uni = draw(st.booleans())
        kinds = ['bool'] + (['nat', 'nat'] if env.has_nat else []) + (['list', 'list'] if env.has_list and LA in env.atoms else [])
        kind = draw(st.sampled_from(kinds))
        name = draw(st.sampled_from(env.fresh_consts))
        if kind == 'nat':
            P = NAT
            ctors = [(["c", "zero", NAT], []), (["c", "Suc", fun(NAT, NAT)], [['n', NAT]])]
        elif kind == 'list':
            P = LA
            ctors = [(["c", "nil", LA], []), (["c", "cons", fun(A, LA, LA)], [['a0', A], ['as', LA]])]
        else:
            P = BOOL
            ctors = [(["c", "true", BOOL], []), (["c", "false", BOOL], [])]
        R = draw(st.sampled_from(env.atoms))
        extra = [['y', draw(st.sampled_from(env.atoms))]] if draw(st.booleans()) else []
        declT = fun(*([P] + [p[1] for p in extra] + [R]))
        ann = annotator(env, name, declT)
        rules = []
        if family == 'missing-case':
            ctors = ctors[:1]
        for ctor, cargs in ctors:
            params = cargs + extra
            rec_args = [a for a in cargs if a[1] == P]
            if family == 'recursive' and rec_args:
                body = gen_body(draw, st, env, R, params, draw(st.integers(0, 2)), bound=(R,))
                call = japp(["c", name, declT], ['v', rec_args[0][0], P], *[['v', p[0], p[1]] for p in extra])
                rhs = ["app", ["abs", "r", R, body], call]
            else:
                rhs = gen_body(draw, st, env, R, params, draw(st.integers(0, 2)))
            if family == 'adv:extra-var':
                rhs = ["app", ["abs", "r", BOOL, rhs], ['v', 'w9', BOOL]]
            pat = japp(ctor, *[['v', a[0], a[1]] for a in cargs])
            pat_txt = L.jterm_text(pat, ann, (), uni)
            if family == 'var-pattern' and not cargs:
                # a pattern whose variables are typed only through an annotation: f ((g::bool => P) q) = ...
                pat_txt = '((g9::%s) q9)' % L.jt_text(fun(BOOL, P), uni)
            head = name
            if family == 'adv:wrong-head':
                head = 'neg' if draw(st.booleans()) else 'h9'
            lhs = ' '.join([head, pat_txt] + [p[0] for p in extra])
            prop = lhs + ' = ' + L.jterm_text(rhs, ann, (), uni)
            if family == 'adv:not-equation':
                prop = '(' + prop + ') --> true'
            rules.append({'prop': prop})
        item = {'ty': 'def.ind', 'name': name, 'type': L.jt_text(declT, uni), 'rules': rules}
        return {'theory': env.name, 'limit': None, 'item': item, 'family': family}
    return cases()


# ------------------------------------------------------------------------------------------------ def.pred
def pred_strategy(env):
    from hypothesis import strategies as st

    @st.composite
    def cases(draw):
        family = draw(st.sampled_from(['valid', 'valid', 'valid', 'recursive', 'recursive', 'adv:wrong-head']))
        uni = draw(st.booleans())
        name = draw(st.sampled_from(env.fresh_consts))
        Ts = draw(st.lists(st.sampled_from(env.atoms), min_size=1, max_size=2))
        declT = fun(*(Ts + [BOOL]))
        ann = annotator(env, name, declT)
        opts = gen.Opts(sig=env.consts, redex=False, atom_types=env.atoms, names=['x', 'y', 'z'])
        rules = []
        for i in range(0 if family == 'no-rules' else draw(st.integers(1, 3))):
            def papp():
                return japp(["c", name, declT], *[draw(gen.terms(opts, T, (), draw(st.integers(0, 1)))) for T in Ts])
            concl = papp()
            if family == 'adv:wrong-head':
                concl = draw(gen.terms(opts, BOOL, (), 1))
            assums = []
            for _ in range(draw(st.integers(0, 2))):
                if family == 'recursive' and draw(st.booleans()):
                    assums.append(papp())
                else:
                    assums.append(draw(gen.terms(opts, BOOL, (), draw(st.integers(0, 2)))))
            prop = concl
            for a in reversed(assums):
                prop = japp(["c", "implies", fun(BOOL, BOOL, BOOL)], a, prop)
            mapping = {}
            for tag, nm, Ts_ in gen.jterm_atoms(prop):
                mapping.setdefault((nm, Ts_), env.vars[len(mapping) % len(env.vars)] if len(mapping) < len(env.vars) else 'q%d' % len(mapping))
            prop = L.jsubst_vars(prop, lambda leaf: [leaf[0], mapping[(leaf[1], json.dumps(leaf[2]))], leaf[2]])
            rules.append({'name': '%s_intro%d' % (name, i + 1),
                          'prop': L.jterm_text(prop, ann, (), uni, annotate_vars=True)})
        item = {'ty': 'def.pred', 'name': name, 'type': L.jt_text(declT, uni), 'rules': rules}
        return {'theory': env.name, 'limit': None, 'item': item, 'family': family}
    return cases()


# ------------------------------------------------------------------------------------------------ type.ind
def datatype_strategy(env):
    from hypothesis import strategies as st

    @st.composite
    def cases(draw):
        family = draw(st.sampled_from(['valid', 'valid', 'valid', 'valid', 'adv:type-exists', 'adv:ctor-exists']))
        uni = draw(st.booleans())
        name = draw(st.sampled_from(env.fresh_types))
        targs = draw(st.sampled_from([[], ['a'], ['a'], ['a', 'b']]))
        if family == 'adv:type-exists':
            name = draw(st.sampled_from(env.existing_types))
        T = ["tc", name] + [["tv", a] for a in targs]
        arg_types = [BOOL, T, T] + [["tv", a] for a in targs] * 2 + ([NAT] if env.has_nat else [])
        if env.has_list:
            arg_types.append(["tc", "list", T])
        arg_types.append(fun(BOOL, T))
        if targs:
            arg_types.append(fun(["tv", targs[0]], BOOL))
        cnames = list(draw(st.permutations(env.fresh_ctors)))[:draw(st.integers(1, 3))]
        if family == 'adv:ctor-exists' and env.existing_consts:
            cnames[0] = draw(st.sampled_from(env.existing_consts))
        constrs = []
        for cn in cnames:
            k = draw(st.integers(0, 3))
            anames = list(draw(st.permutations(['x', 'y', 'l', 'r', 'n', 'P'])))[:k]
            atypes = [draw(st.sampled_from(arg_types)) for _ in range(k)]
            constrs.append({'name': cn, 'args': anames, 'type': L.jt_text(fun(*(atypes + [T])), uni)})
        item = {'ty': 'type.ind', 'name': name, 'args': targs, 'constrs': constrs}
        return {'theory': env.name, 'limit': None, 'item': item, 'family': family}
    return cases()


# ------------------------------------------------------------------------------------------------ def.ax / type.ax / header
def misc_strategy(env):
    from hypothesis import strategies as st

    @st.composite
    def cases(draw):
        kind = draw(st.sampled_from(['def.ax', 'def.ax', 'def.ax', 'type.ax', 'header']))
        uni = draw(st.booleans())
        if kind == 'header':
            item = {'ty': 'header', 'depth': draw(st.integers(0, 3)),
                    'name': draw(st.sampled_from(['Section', 'Basic facts', 'Über ∀', '']))}
            return {'theory': env.name, 'limit': None, 'item': item, 'family': 'valid'}
        if kind == 'type.ax':
            family = draw(st.sampled_from(['valid', 'valid', 'adv:type-exists']))
            name = draw(st.sampled_from(env.existing_types if family != 'valid' else env.fresh_types))
            item = {'ty': 'type.ax', 'name': name, 'args': draw(st.sampled_from([[], ['a'], ['a', 'b']]))}
            return {'theory': env.name, 'limit': None, 'item': item, 'family': family}
        family = draw(st.sampled_from(['valid', 'valid', 'overloaded', 'adv:name-exists', 'overload-instance', 'adv:unknown-type']))
        name = draw(st.sampled_from(env.fresh_consts))
        T = draw(gen.types(gen.Opts(atom_types=env.atoms)))
        item = {'ty': 'def.ax', 'name': name, 'type': L.jt_text(T, uni)}
        if family == 'overloaded':
            item['overloaded'] = True
        elif family == 'adv:name-exists' and env.existing_consts:
            item['name'] = draw(st.sampled_from(env.existing_consts))
            if draw(st.booleans()):
                item['overloaded'] = True
        elif family == 'overload-instance' and env.overloaded:
            item['name'] = nm = draw(st.sampled_from(env.overloaded))
            general = ref.to_jtype(env.sig.consts[nm])
            target = draw(st.sampled_from([BOOL, fun(BOOL, BOOL), B, NAT if env.has_nat else BOOL]))
            if draw(st.integers(0, 3)) != 0:
                item['type'] = L.jt_text(L.jsubst_type(general, {k: target for k in codec.jt_vars(general)}), uni)
        elif family == 'adv:unknown-type':
            item['type'] = draw(st.sampled_from(["'a nosuchtype", "bool bool", "(bool, bool) fun => nat nat", "=> bool"]))
        return {'theory': env.name, 'limit': None, 'item': item, 'family': family}
    return cases()


STRATEGIES = {
    'def-valid': lambda env: def_strategy(env, ['valid', 'overload-undeclared', 'valid']),
    'def-adv': lambda env: def_strategy(env, DEF_FAMILIES),
    'thm': thm_strategy,
    'fun': fun_strategy,
    'pred': pred_strategy,
    'datatype': datatype_strategy,
    'misc': misc_strategy,
}


# ------------------------------------------------------------------------------------------------ exploration
QUICK_GEN = {'def-valid': 500, 'def-adv': 1300, 'thm': 450, 'fun': 250, 'pred': 250, 'datatype': 200, 'misc': 200}
LIB_CHUNK = 130


def _d(name, T, prop):
    return {'ty': 'def', 'name': name, 'type': T, 'prop': prop}


# the classical cases, always run (hand-written; the generated families vary them)
FIXED = [
    ('logic_base', 'adv:self-same', _d('c', 'bool', 'c = (~c)')),
    ('logic_base', 'adv:self-same', _d('c', 'bool => bool', 'c x = (~(c x))')),
    ('logic_base', 'adv:self-instance', _d('c', "'a => bool", 'c x = (~((c::bool => bool) true))')),
    ('logic_base', 'adv:self-general', _d('c', 'bool => bool', "c x = (~((c::'a => bool) (SOME y::'a. true)))")),
    ('logic_base', 'adv:rhs-tyvar', _d('c', 'bool', "c = (!x::'a. !y. x = y)")),
    ('logic_base', 'adv:lhs-const', _d('c', 'bool => bool', 'c true = false')),
    ('logic_base', 'adv:lhs-compound', _d('c', 'bool => bool', 'c (~x) = x')),
    ('logic_base', 'adv:lhs-svar', _d('c', 'bool => bool', 'c ?x = ?x')),
    ('logic_base', 'adv:lhs-repeat', _d('c', 'bool => bool => bool', 'c x x = x')),
    ('logic_base', 'adv:rhs-extra-var', _d('c', 'bool => bool', 'c x = y')),
    ('logic_base', 'adv:rhs-extra-svar', _d('c', 'bool', 'c = ?y')),
    ('logic_base', 'adv:name-exists', _d('true', 'bool', 'true = false')),
    ('logic_base', 'adv:not-equation', _d('c', 'bool', 'c')),
    ('logic_base', 'adv:wrong-head', _d('c', 'bool', 'd = c')),
    ('nat', 'adv:overload-declared', _d('zero', 'nat', 'zero = (1::nat)')),
    ('nat', 'adv:overload-declared', _d('plus', 'nat => nat => nat', 'plus m n = (0::nat)')),
    ('nat', 'adv:overload-nomatch', _d('plus', 'nat => bool', 'plus m = true')),
    ('nat', 'adv:overload-tyvar', _d('plus', "'b => 'b => 'b", 'plus x y = x')),
    ('nat', 'overload-undeclared', _d('plus', 'bool => bool => bool', 'plus x y = (x | y)')),
    ('nat', 'adv:overload-self', _d('plus', 'bool => bool => bool', 'plus x y = (~(plus x y))')),
    ('logic_base', 'valid', _d('c', "'a => 'a => bool", 'c x y = (x = y)')),
    ('logic_base', 'valid', _d('c', '(bool => bool) => bool', 'c f = (f true & f false)')),
    ('nat', 'valid', _d('c', 'nat => nat', 'c n = n + 1')),
    ('logic_base', 'adv:type-exists', {'ty': 'type.ind', 'name': 'bool', 'args': ['a'],
                                       'constrs': [{'name': 'C0', 'args': ['l'], 'type': "'a => 'a bool"}]}),
    ('logic_base', 'valid', {'ty': 'type.ind', 'name': 'tree', 'args': ['a'],
                             'constrs': [{'name': 'Leaf', 'args': [], 'type': "'a tree"},
                                         {'name': 'Node', 'args': ['l', 'x', 'r'],
                                          'type': "'a tree => 'a => 'a tree => 'a tree"}]}),
    ('nat', 'annotated-variable', {'ty': 'def.pred', 'name': 'p', 'type': 'nat => bool',
                                   'rules': [{'name': 'p_intro', 'prop': "(f::'a => nat) x = n --> p n"}]}),
    ('nat', 'valid', {'ty': 'def.pred', 'name': 'ev', 'type': 'nat => bool',
                      'rules': [{'name': 'ev_0', 'prop': 'ev 0'}, {'name': 'ev_SS', 'prop': 'ev n --> ev (Suc (Suc n))'}]}),
    ('nat', 'valid', {'ty': 'def.ind', 'name': 'dbl', 'type': 'nat => nat',
                      'rules': [{'prop': 'dbl 0 = 0'}, {'prop': 'dbl (Suc n) = Suc (Suc (dbl n))'}]}),
    ('logic_base', 'valid', {'ty': 'thm.ax', 'name': 'c11_ax', 'vars': {'A': 'bool', 'B': 'bool'}, 'prop': 'A & B --> B & A',
                             'attributes': ['hint_backward']}),
]


def shards(tier):
    out = [{'kind': 'fixed'}]
    for n in _S['order']:
        size = len(_S['raw'][n])
        for lo in range(0, size, LIB_CHUNK):
            out.append({'kind': 'lib', 'theory': n, 'lo': lo, 'hi': min(size, lo + LIB_CHUNK)})
    mult = 1 if tier == 'quick' else 33
    for fam, n in QUICK_GEN.items():
        total = n * mult
        per = 100 if tier == 'quick' else 1000
        k = max(len(GEN_THEORIES), (total + per - 1) // per)
        for i, c in enumerate(harness.split(total, k)):
            out.append({'kind': 'gen', 'family': fam, 'theory': GEN_THEORIES[i % len(GEN_THEORIES)], 'n': c, 'i': i})
    # big shards first so that the pool stays busy
    out.sort(key=lambda d: -(d.get('n', 0) * 3 + (d.get('hi', 0) - d.get('lo', 0))))
    return out


def lib_selected(tier, seed, name, index, raw):
    if tier != 'quick' or raw['ty'] != 'thm':
        return True
    return harness.digest('%d/%s/%d' % (seed // 1000, name, index)) % 4 == 0


def run_shard(desc, seed, tier, H):
    if desc['kind'] == 'fixed':
        for thy, family, item in FIXED:
            run_case({'theory': thy, 'limit': None, 'item': item, 'family': family}, H)
        return
    if desc['kind'] == 'lib':
        basic, theory = _S['basic'], _S['theory']
        name = desc['theory']
        with quiet():
            basic.load_theory(name, limit='start')
        cur = theory.thy
        sig = dep_sig(name)
        for i, raw in enumerate(_S['raw'][name]):
            if i >= desc['hi']:
                break
            if i >= desc['lo'] and lib_selected(tier, seed, name, i, raw):
                case = {'theory': name, 'limit': [raw['ty'], raw['name']], 'item': raw}
                validate_item(raw)
                check_item(case, cur, sig, H)
            exts = _S['ext'][name][i]
            if exts is not None:
                theory.thy = cur
                cur.unchecked_extend(exts)
                sig.apply(exts)
        if tier != 'quick':
            H.mark_exhaustive('every item of library theory %s' % name)
        return
    env = _ENV[desc['theory']]

    def body(case):
        try:
            run_case(case, H)
        except CaseInvalid:
            H.note('generated-invalid')
    harness.hyp_run(STRATEGIES[desc['family']](env), body, desc['n'], seed)


# ------------------------------------------------------------------------------------------------ self-test
def self_test():
    a = ('tv', 'a')
    b = ('tv', 'b')
    nat = ('tc', 'nat', ())
    bb = ref.tfun(BOOL_R, BOOL_R)
    sig = L.Sig()
    sig.consts['neg'] = bb
    sig.types['nat'] = 0
    sig.consts['plus'] = ref.tfun(a, ref.tfun(a, a))
    sig.overloaded.add('plus')
    sig.instances['plus'] = [ref.tfun(nat, ref.tfun(nat, nat))]

    def eq(l, r, T):
        return ('app', ('app', ('const', 'equals', ref.tfun(T, ref.tfun(T, BOOL_R))), l), r)
    c0 = ('const', 'c', BOOL_R)
    x = ('var', 'x', BOOL_R)
    cf = ('const', 'c', bb)
    neg = ('const', 'neg', bb)
    uid = 900000001
    collapse = ('app', ('const', 'all', ref.tfun(ref.tfun(b, BOOL_R), BOOL_R)),
                ('lam', uid, b, eq(('bv', uid, b), ('bv', uid, b), b), 'p'))
    good = [('c', bb, eq(('app', cf, x), ('app', neg, x), BOOL_R)),
            ('c', BOOL_R, eq(c0, ('const', 'true', BOOL_R), BOOL_R)),
            ('plus', ref.tfun(BOOL_R, ref.tfun(BOOL_R, BOOL_R)),
             eq(('app', ('app', ('const', 'plus', ref.tfun(BOOL_R, ref.tfun(BOOL_R, BOOL_R))), x), ('var', 'y', BOOL_R)), x, BOOL_R))]
    sig.consts['true'] = BOOL_R
    for nm, T, prop in good:
        if L.judge_def(nm, T, prop, sig):
            raise SelfTestError('judge rejects a good definition: %s %s' % (nm, L.judge_def(nm, T, prop, sig)))
    ca = ('const', 'c', ref.tfun(a, BOOL_R))
    bad = [
        ('self-reference', 'c', BOOL_R, eq(c0, ('app', neg, c0), BOOL_R)),
        ('self-reference', 'c', ref.tfun(a, BOOL_R), eq(('app', ca, ('var', 'z', a)), ('app', neg, ('app', cf, x)), BOOL_R)),
        ('rhs-type-variable', 'c', BOOL_R, eq(c0, collapse, BOOL_R)),
        ('rhs-free-variable:var', 'c', BOOL_R, eq(c0, x, BOOL_R)),
        ('rhs-free-variable:svar', 'c', BOOL_R, eq(c0, ('svar', 'x', BOOL_R), BOOL_R)),
        ('lhs-args-repeated', 'c', ref.tfun(BOOL_R, bb), eq(('app', ('app', ('const', 'c', ref.tfun(BOOL_R, bb)), x), x), x, BOOL_R)),
        ('lhs-arg-not-variable', 'c', bb, eq(('app', cf, ('const', 'true', BOOL_R)), ('const', 'true', BOOL_R), BOOL_R)),
        ('lhs-arg-not-variable', 'c', bb, eq(('app', cf, ('svar', 'x', BOOL_R)), ('const', 'true', BOOL_R), BOOL_R)),
        ('lhs-head', 'c', BOOL_R, eq(x, c0, BOOL_R)),
        ('not-an-equation', 'c', BOOL_R, ('app', neg, c0)),
        ('redefines-existing-constant', 'true', BOOL_R, eq(('const', 'true', BOOL_R), ('app', neg, x), BOOL_R)),
        ('redefines-declared-instance', 'plus', ref.tfun(nat, ref.tfun(nat, nat)),
         eq(('app', ('app', ('const', 'plus', ref.tfun(nat, ref.tfun(nat, nat))), ('var', 'm', nat)), ('var', 'n', nat)), ('var', 'm', nat), nat)),
    ]
    for want, nm, T, prop in bad:
        got = [c for c, _ in L.judge_def(nm, T, prop, sig)]
        if want not in got:
            raise SelfTestError('judge misses %s (got %s)' % (want, got))
    if not L.unifiable(ref.tfun(a, BOOL_R), bb) or L.unifiable(ref.tfun(a, a), ref.tfun(BOOL_R, nat)):
        raise SelfTestError('unifiable')
    if L.unifiable(ref.tfun(a, a), ref.tfun(b, ref.tfun(b, b))):
        raise SelfTestError('unifiable: occurs check')
    # typing oracle
    if L.check_term_typed(eq(x, x, BOOL_R), sig):
        raise SelfTestError('type checker rejects x = x')
    for want, t in [('ill-typed', ('app', neg, ('var', 'n', nat))), ('not-of-type-bool', ('var', 'n', nat)),
                    ('unknown-constant', ('const', 'nosuch', BOOL_R)),
                    ('constant-not-instance-of-signature', ('app', ('const', 'neg', ref.tfun(nat, BOOL_R)), ('var', 'n', nat))),
                    ('ill-formed-type', ('var', 'p', ('tc', 'nat', (BOOL_R,)))), ('open-term', ('loose', 0))]:
        got = [k for k, _ in L.check_term_typed(t, sig)]
        if want not in got:
            raise SelfTestError('type checker misses %s (got %s)' % (want, got))
    # end to end on library items: one good definition, the nat datatype; and a corrupted extension
    from kernel import extension
    from kernel.term import Var, Const, Eq
    from kernel.thm import Thm
    from kernel.type import TConst, TFun, BoolType
    H = harness.Ctx(ID)
    run_case({'theory': 'nat', 'limit': ['def.ind', 'times'], 'item': _raw('nat', 'def.ind', 'times')}, H)
    run_case({'theory': 'logic_base', 'limit': ['def', 'exists1'], 'item': _raw('logic_base', 'def', 'exists1')}, H)
    if H.evaluations != 2:       # violations found here are the code's business (the library shards report them)
        raise SelfTestError('pipeline did not evaluate the library items nat.times / logic_base.exists1')
    _, nat_sig = state_for('nat', None)
    natT = TConst('nat')
    probs, _ = L.check_extensions([extension.Constant('c11_k', TFun(natT, BoolType)),
                                   extension.Theorem('c11_bad', Thm(Eq(Const('c11_k', TFun(natT, BoolType)), Var('x', natT))))], nat_sig)
    if 'theorem-ill-typed' not in [k for k, _ in probs]:
        raise SelfTestError('extension checker misses an ill-typed theorem: %s' % probs)
    probs, _ = L.check_extensions([extension.Constant('c11_k', TConst('nat', BoolType))], nat_sig)
    if 'constant-type-ill-formed' not in [k for k, _ in probs]:
        raise SelfTestError('extension checker misses an ill-formed constant type')
    # item comparison
    items = _S['items']
    thy, _ = state_for('logic_base', None)
    st1, it1 = _run(copy.copy(thy), items.parse_item, {'ty': 'thm.ax', 'name': 't', 'vars': {'A': 'bool'}, 'prop': 'A --> A'})
    st2, it2 = _run(copy.copy(thy), items.parse_item, {'ty': 'thm.ax', 'name': 't', 'vars': {'A': 'bool'}, 'prop': 'A --> A & A'})
    if L.diff_items(it1, it1) or L.diff_items(it1, it2) != ['prop']:
        raise SelfTestError('diff_items')
    if L.diff_items(it1, L.perturb_field(it1, 'attributes')) != ['attributes']:
        raise SelfTestError('perturb_field')


BOOL_R = ref.BOOL


def _raw(theory, ty, name):
    for r in _S['raw'][theory]:
        if r['ty'] == ty and r.get('name') == name:
            return r
    raise SelfTestError('library item %s %s not found in %s' % (ty, name, theory))
