"""C02 — only well-founded, fully justified, gap-free proofs are accepted.

Cases (JSON):
  {"kind": "proof", "no_gaps": bool, "items": [ITEM...]}
  {"kind": "ext", "stated": THM, "items": [ITEM...] | null}
  ITEM = {"id": [ints], "rule": str, "args": ARGS, "prevs": [[ints]...], "th": THM|null, "sub": [ITEM...]|null}
  ARGS by rule: assume/implies_intr/reflexive -> term; theorem -> name; verif_* macros -> THM or null; else null
"""
import itertools

from vlib import harness, codec, ref, model
from vlib.harness import CaseInvalid, SelfTestError, time_limit, Timeout
from vlib.codec import BOOL, fun

ID = 'C02'
RULE = ("Kernel Proof objects built directly over theory logic_base. (i) Enumerated small shapes: every proof of <=3 "
        "top-level items (optionally one nested block of <=2 items) drawn from a vocabulary of steps over atoms A, B "
        "(assume, implies_intr, implies_elim, sorry, empty rule with/without a stated sequent, subproof), with every "
        "item's identifier taken from {its position, another position, a later position, a deeper id} and every "
        "citation list from the positions present; stated sequents in {none, exact, weaker, stronger, different}. "
        "(ii) 'identifier games': locally valid symmetric steps with stated sequents whose identifiers are honest / duplicates of honest ones / shifted / nested / negative and whose citations point anywhere (earlier, later, itself, into a block, negative); random larger shapes from Hypothesis (depth <=3, <=12 items) adding symmetric/reflexive/theorem steps and "
        "harness-registered macros whose expansions contain a placeholder at depth 1-2. (iii) Extension pairs (stated "
        "theorem, proof) for Theory.checked_extend. Oracle A: a reference judge that resolves citations by position, "
        "requires the target to have been verified earlier in the same walk and to be visible (not in a closed block), "
        "recomputes each step, compares stated sequents by 'same conclusion, hypotheses subset' and collects "
        "placeholders at every depth; checker accepts => judge accepts with the same final sequent and the same gap "
        "multiset, and no placeholder when gaps are disallowed. Oracle B: the final sequent of a proof accepted with "
        "gaps disallowed must be valid in finite models. Oracle C: a theorem installed by checked_extend and not "
        "reported as an axiom must have a judge-accepted gap-free proof of the stated theorem. Non-trivial: a citation "
        "whose identifier differs from its position, a nested block, a placeholder, a macro step, or a non-matching "
        "extension pair; distinct by canonical JSON.")
ASSUMPTIONS = [
    "the judge recomputes single steps with the kernel's own rule functions (their soundness is C01's business)",
    "compute_only mode (documented as skipping stated lines) is not exercised",
    "macro steps use harness-registered macros (verif_gap, verif_gap2, verif_id) so the depth of the placeholder is known",
]
SHRINK_BUDGET = 500

_T = {}
A = ["v", "A", BOOL]
B = ["v", "B", BOOL]


def imp(a, b):
    return ["app", ["app", ["c", "implies", fun(BOOL, BOOL, BOOL)], a], b]


def thm_j(prop, hyps=()):
    return {"hyps": list(hyps), "prop": prop}


def setup():
    from logic import basic
    from kernel import theory
    from kernel.macro import Macro
    from kernel.proofterm import ProofTerm
    from kernel.thm import Thm
    basic.load_theory('logic_base')
    _T['thy'] = theory.thy

    if 'verif_gap' not in theory.global_macros:
        @theory.register_macro('verif_gap')
        class GapMacro(Macro):
            """Expansion is a placeholder for the sequent given as argument (depth 1)."""
            def __init__(self):
                self.level = 1
                self.sig = Thm
                self.limit = None

            def eval(self, args, prevs):
                return args

            def get_proof_term(self, args, prevs):
                return ProofTerm.sorry(args)

        @theory.register_macro('verif_gap2')
        class Gap2Macro(Macro):
            """Expansion invokes verif_gap (placeholder at depth 2)."""
            def __init__(self):
                self.level = 1
                self.sig = Thm
                self.limit = None

            def eval(self, args, prevs):
                return args

            def get_proof_term(self, args, prevs):
                return ProofTerm('verif_gap', args, [])

        @theory.register_macro('verif_id')
        class IdMacro(Macro):
            """Gap-free macro: from A |- ... returns the first premise unchanged through A --> A."""
            def __init__(self):
                self.level = 1
                self.sig = None
                self.limit = None

            def get_proof_term(self, args, prevs):
                pt = prevs[0]
                return ProofTerm.assume(pt.prop).implies_intr(pt.prop).implies_elim(pt)

    # judge self-test
    ok_items = [item([0], 'assume', A), item([1], 'implies_intr', A, [[0]])]
    v = judge(ok_items, True)
    if v[0] != 'accept':
        raise SelfTestError('judge rejects a valid proof: %r' % (v,))
    circ = [item([2], 'symmetric', None, [[1]]), item([3], 'symmetric', None, [[0]])]
    if judge(circ, True)[0] != 'reject':
        raise SelfTestError('judge accepts a circular proof')
    gap = [item([0], 'sorry', None, [], thm_j(A))]
    if judge(gap, False) [0] != 'accept' or len(judge(gap, False)[2]) != 1:
        raise SelfTestError('judge gap accounting')


def item(id, rule, args=None, prevs=(), th=None, sub=None):
    return {"id": list(id), "rule": rule, "args": args, "prevs": [list(p) for p in prevs], "th": th, "sub": sub}


# ------------------------------------------------------------------ decoding
TERM_RULES = ('assume', 'implies_intr', 'reflexive')
RULES = ('assume', 'implies_intr', 'implies_elim', 'symmetric', 'reflexive', 'sorry', '', 'subproof', 'theorem',
         'verif_gap', 'verif_gap2', 'verif_id', 'equal_elim', 'transitive')


def dec_args(rule, a):
    if rule in TERM_RULES:
        return codec.term_dec(a)
    if rule == 'theorem':
        if not isinstance(a, str):
            raise CaseInvalid('theorem')
        return a
    if rule in ('verif_gap', 'verif_gap2'):
        return codec.thm_dec(a)
    return None


def build(items):
    from kernel.proof import Proof, ProofItem, ItemID
    prf = Proof()
    for it in items:
        try:
            rule = it['rule']
            if rule not in RULES:
                raise CaseInvalid('rule')
            id_ = tuple(it['id'])
            prevs = [tuple(p) for p in it.get('prevs', [])]
            if not id_ or not all(isinstance(x, int) and not isinstance(x, bool) and -50 < x < 50 for x in id_):
                raise CaseInvalid('id')
            for p in prevs:
                if not p or not all(isinstance(x, int) and not isinstance(x, bool) and -50 < x < 50 for x in p):
                    raise CaseInvalid('prev')
        except CaseInvalid:
            raise
        except Exception:
            raise CaseInvalid('item')
        pi = ProofItem(id_, rule, args=dec_args(rule, it.get('args')), prevs=prevs,
                       th=codec.thm_dec(it['th']) if it.get('th') is not None else None)
        if rule == 'subproof':
            if not it.get('sub'):
                raise CaseInvalid('empty subproof')
            pi.subproof = build(it['sub'])
        elif it.get('sub'):
            raise CaseInvalid('sub on non-subproof')
        if rule == 'sorry' and it.get('th') is None:
            raise CaseInvalid('sorry without statement')
        prf.items.append(pi)
    return prf


# ------------------------------------------------------------------ reference judge
def _key(th):
    return (ref.canon(ref.from_term(th.prop)), frozenset(ref.canon(ref.from_term(h)) for h in th.hyps))


def _proves(res, stated):
    kr, ks = _key(res), _key(stated)
    return kr[0] == ks[0] and kr[1] <= ks[1]


class Reject(Exception):
    pass


def judge(items, no_gaps):
    """Returns ('accept', final_thm, [placeholder thms]) or ('reject', reason, None)."""
    from kernel.thm import Thm, primitive_deriv
    from kernel import theory
    from kernel.proofterm import ProofTerm
    theory.thy = _T['thy']
    verified = {}          # position path -> Thm
    placeholders = []
    cited = set()

    def visible(p, q):
        # q visible from p (positions): q's parent is a prefix of p, and q precedes p's ancestor at that level
        l = len(q)
        if any(x < 0 for x in q):
            return False          # a negative number is not a position
        return l <= len(p) and q[:l - 1] == p[:l - 1] and q[l - 1] < p[l - 1]

    def check_th(th):
        for t in list(th.hyps) + [th.prop]:
            if not ref.well_typed(ref.from_term(t), ref.BOOL):
                raise Reject('ill-typed sequent')

    def run_rule(rule, args, prev_ths, pos):
        if rule == 'theorem':
            try:
                return theory.thy.get_theorem(args)
            except Exception:
                raise Reject('theorem not found')
        if rule in primitive_deriv:
            fn, _ = primitive_deriv[rule]
            try:
                return fn(*prev_ths) if args is None else fn(args, *prev_ths)
            except Exception as e:
                raise Reject('rule fails: %s' % type(e).__name__)
        if rule in ('verif_gap', 'verif_gap2', 'verif_id'):
            macro = theory.global_macros[rule]
            try:
                pts = [ProofTerm.atom(None, th) for th in prev_ths]
                pt = macro.get_proof_term(args, pts)
            except Exception as e:
                raise Reject('macro fails: %s' % type(e).__name__)
            return walk_pt(pt)
        raise Reject('unknown rule %r' % rule)

    def walk_pt(pt):
        """Judge a proof term (macro expansion): placeholders at any depth are collected."""
        if pt.rule == 'atom':
            return pt.th
        if pt.rule == 'sorry':
            if no_gaps:
                raise Reject('placeholder inside an expansion')
            placeholders.append(pt.th)
            return pt.th
        prev_ths = [walk_pt(p) for p in pt.prevs]
        res = run_rule(pt.rule, pt.args, prev_ths, None)
        check_th(res)
        return res

    def walk(its, prefix):
        last = None
        for i, it in enumerate(its):
            pos = prefix + (i,)
            rule = it['rule']
            last = pos
            if rule == '':
                if it.get('th') is not None:
                    # a statement without any justification
                    verified[pos] = ('unjustified', codec.thm_dec(it['th']))
                continue
            if rule == 'sorry':
                th = codec.thm_dec(it['th'])
                if no_gaps:
                    raise Reject('placeholder with gaps disallowed')
                placeholders.append(th)
                verified[pos] = th
                continue
            if rule == 'subproof':
                sub_last = walk(it['sub'], pos)
                res = verified.get(sub_last)
                if res is None:
                    raise Reject('block does not end in a verified line')
                if isinstance(res, tuple):
                    raise Reject('block ends in an unjustified statement')
            else:
                prev_ths = []
                for q in it.get('prevs', []):
                    q = tuple(q)
                    if not visible(pos, q):
                        raise Reject('citation %s not visible from %s' % (q, pos))
                    t = verified.get(q)
                    if t is None:
                        raise Reject('citation of a line that has not been verified')
                    if isinstance(t, tuple):
                        raise Reject('citation of an unjustified statement')
                    prev_ths.append(t)
                res = run_rule(rule, dec_args(rule, it.get('args')), prev_ths, pos)
            if it.get('th') is not None:
                stated = codec.thm_dec(it['th'])
                if not _proves(res, stated):
                    raise Reject('stated sequent is not implied by the step')
                res = stated
            check_th(res)
            verified[pos] = res
        return last

    try:
        last = walk(items, ())
        final = verified.get(last)
        if final is None:
            raise Reject('last line not verified')
        if isinstance(final, tuple):
            raise Reject('last line is an unjustified statement')
    except Reject as e:
        return 'reject', str(e), None
    except CaseInvalid:
        raise
    return 'accept', final, placeholders


# ------------------------------------------------------------------ features for signatures
def features(items):
    f = set()

    def rec(its, prefix):
        for i, it in enumerate(its):
            pos = prefix + (i,)
            if tuple(it['id']) != pos:
                f.add('id-ne-position')
            if it['rule'] == '' and it.get('th') is not None:
                f.add('empty-rule-with-statement')
            if it['rule'] == 'sorry':
                f.add('sorry')
            if it['rule'].startswith('verif_gap'):
                f.add('macro-gap')
            if it['rule'] == 'subproof':
                f.add('block')
                rec(it['sub'], pos)
    rec(items, ())
    return f


def primary(feats):
    for k in ('empty-rule-with-statement', 'id-ne-position', 'macro-gap', 'sorry', 'block'):
        if k in feats:
            return k
    return 'plain'


# ------------------------------------------------------------------ checks
def check_proof_case(case, H):
    from kernel import theory
    from kernel.theory import CheckProofException
    from kernel.report import ProofReport
    items = case['items']
    no_gaps = bool(case.get('no_gaps'))
    if not isinstance(items, list) or not items:
        raise CaseInvalid('items')
    theory.thy = _T['thy']
    prf = build(items)
    feats = features(items)
    rpt = ProofReport()
    try:
        res = theory.thy.check_proof(prf, rpt, no_gaps=no_gaps)
        accepted = True
    except CheckProofException:
        accepted = False
    except (AssertionError, AttributeError, IndexError, TypeError, KeyError, ValueError):
        accepted = False       # refusal by crashing on malformed input: not an acceptance
    verdict = judge(items, no_gaps)
    nontrivial = bool(feats)
    klass = ['proof:' + ('accepted' if accepted else 'rejected'), 'judge:' + verdict[0]] + ['f:' + x for x in sorted(feats)]
    if accepted:
        if res is None:
            # the checker returned no sequent at all (last line empty): nothing was claimed
            H.case(case, nontrivial, klass + ['proof:no-result'])
            return
        if verdict[0] == 'reject':
            H.violation('check_proof:accepts-unjustified:%s' % primary(feats), case,
                        'checker returned %s (no_gaps=%s) but the reference judge rejects: %s' % (res, no_gaps, verdict[1]))
        else:
            _, final, holes = verdict
            if _key(res) != _key(final):
                H.violation('check_proof:final-sequent-differs:%s' % primary(feats), case, '%s vs judge %s' % (res, final))
            else:
                got = sorted(repr(_key(g)) for g in rpt.gaps)
                exp = sorted(repr(_key(g)) for g in holes)
                if got != exp:
                    H.violation('check_proof:gap-report-differs:%s' % primary(feats), case,
                                'reported %d gaps, placeholders present %d' % (len(got), len(exp)))
                elif no_gaps and holes:
                    H.violation('check_proof:gap-tolerated:%s' % primary(feats), case, '%d placeholders' % len(holes))
        # oracle B: validity of the final sequent of a gap-free acceptance
        if no_gaps:
            try:
                st, info = model.refute([ref.from_term(h) for h in res.hyps], ref.from_term(res.prop), k=2)
            except Exception:
                st, info = 'unknown', None
            if st == 'refuted':
                H.violation('check_proof:accepts-invalid-sequent:%s' % primary(feats), case,
                            'gap-free acceptance of %s, false in %s' % (res, info))
    H.case(case, nontrivial, klass)


def check_ext_case(case, H):
    import copy
    from kernel import theory, extension
    from kernel.theory import CheckProofException
    stated = codec.thm_dec(case['stated'])
    items = case.get('items')
    thy = copy.copy(_T['thy'])
    theory.thy = thy
    try:
        prf = build(items) if items else None
        name = 'verif_thm'
        ext = extension.Theorem(name, stated, prf)
        raised = None
        rpt = None
        try:
            rpt = thy.checked_extend([ext])
        except CheckProofException as e:
            raised = e
        except (AssertionError, AttributeError, IndexError, TypeError, KeyError, ValueError) as e:
            raised = e
        installed = thy.has_theorem(name)
        as_axiom = rpt is not None and any(n == name for n, _ in rpt.get_axioms())
        theory.thy = _T['thy']
        if items:
            verdict = judge(items, True)
            proves = verdict[0] == 'accept' and _proves(verdict[1], stated)
            kind = 'match' if proves else ('gap-or-invalid' if verdict[0] == 'reject' else 'other-statement')
        else:
            proves = False
            kind = 'no-proof'
        klass = ['ext:' + kind, 'ext:installed' if installed else 'ext:refused']
        if raised is not None and installed:
            H.violation('checked_extend:installed-after-error', case, repr(raised))
        elif installed and not as_axiom and not proves:
            H.violation('checked_extend:admits-unproved:%s' % kind, case,
                        'theorem %s installed as proved; judge: %s' % (stated, verdict[:2] if items else 'no proof'))
        H.case(case, kind != 'match', klass)
    finally:
        theory.thy = _T['thy']


def run_case(case, H):
    if not isinstance(case, dict):
        raise CaseInvalid('case')
    try:
        with time_limit(30):
            if case.get('kind') == 'proof':
                check_proof_case(case, H)
            elif case.get('kind') == 'ext':
                check_ext_case(case, H)
            else:
                raise CaseInvalid('kind')
    except Timeout:
        H.inconc('timeout')
    except (KeyError, TypeError) as e:
        raise CaseInvalid(repr(e))


# ------------------------------------------------------------------ enumeration of small shapes
STEP_VOCAB = [
    ('assume', A), ('assume', B), ('assume', imp(A, B)),
    ('implies_intr', A), ('implies_intr', B),
    ('implies_elim', None), ('sorry', None), ('', None), ('', 'stated'),
]
SORRY_THS = [thm_j(B, [A]), thm_j(imp(A, B)), thm_j(B)]


def natural_results(items):
    """Position -> Thm computed by the judge when the line is derivable (used to derive stated-sequent variants)."""
    out = {}
    from kernel.thm import Thm

    def rec(its, prefix, acc):
        for i, it in enumerate(its):
            pos = prefix + (i,)
            trial = acc + [dict(it, th=None)] if it['rule'] not in ('sorry',) else acc + [it]
            acc = acc + [it]
    return out


def enum_shapes(part, parts, H, limit=None):
    """Enumerate top-level proofs of 1..3 items (ids / prevs / stated variants)."""
    count = 0
    idx = 0
    positions3 = [(0,), (1,), (2,), (3,)]
    neg = [(-1,)]
    for n in (1, 2, 3):
        pos = [(i,) for i in range(n)]
        id_choices = []
        for i in range(n):
            ch = [(i,)]
            ch += [p for p in positions3 if p != (i,)][:3]
            id_choices.append(ch)
        for rules in itertools.product(range(len(STEP_VOCAB)), repeat=n):
            # prune: the first step cannot cite anything useful unless ids lie; keep everything but cap arity
            prev_opts = []
            for i, r in enumerate(rules):
                name = STEP_VOCAB[r][0]
                cands = [p for p in positions3[:n]] + neg
                if name in ('implies_intr',):
                    po = [[p] for p in cands]
                elif name == 'implies_elim':
                    po = [[p, q] for p in cands for q in cands]
                else:
                    po = [[]]
                prev_opts.append(po)
            for ids in itertools.product(*id_choices):
                # at most one lying identifier per proof keeps the space tractable and is where the defects live
                if sum(1 for i, d in enumerate(ids) if d != (i,)) > 2:
                    continue
                for prevs in itertools.product(*prev_opts):
                    for sorry_th in range(len(SORRY_THS)):
                        if sorry_th > 0 and not any(STEP_VOCAB[r][0] == 'sorry' or STEP_VOCAB[r][1] == 'stated' for r in rules):
                            continue
                        for no_gaps in (True, False):
                            idx += 1
                            if idx % parts != part:
                                continue
                            items = []
                            for i, r in enumerate(rules):
                                name, arg = STEP_VOCAB[r]
                                th = None
                                a = arg
                                if name == 'sorry' or arg == 'stated':
                                    th = SORRY_THS[sorry_th]
                                    a = None
                                items.append(item(ids[i], name, a, prevs[i], th))
                            case = {'kind': 'proof', 'no_gaps': no_gaps, 'items': items}
                            run_case(case, H)
                            count += 1
                            if limit and count >= limit:
                                return count, False
    return count, True


# ------------------------------------------------------------------ random shapes
def proof_strategy():
    from hypothesis import strategies as st
    atoms = [A, B, ["v", "C", BOOL]]
    prop = st.recursive(st.sampled_from(atoms), lambda c: st.builds(imp, c, c), max_leaves=3)
    xs = [["v", "x", ["tv", "a"]], ["v", "y", ["tv", "a"]]]

    @st.composite
    def proofs(draw):
        lying = draw(st.integers(0, 2))            # how many identifiers may lie
        counter = {'lie': lying}

        def block(prefix, depth, visible_pos):
            n = draw(st.integers(1, 4 if depth else 6))
            its = []
            local = list(visible_pos)
            for i in range(n):
                pos = prefix + (i,)
                ident = pos
                if counter['lie'] > 0 and draw(st.integers(0, 3)) == 0:
                    counter['lie'] -= 1
                    ident = prefix + (draw(st.integers(0, 7)),) if draw(st.booleans()) else (draw(st.integers(0, 7)),)
                allpos = local + [prefix + (j,) for j in range(i + 1, n)] + [prefix + (i,)] + [(-1,), prefix + (-1,)]
                good = local

                def pick(k):
                    src = good if (good and draw(st.integers(0, 4)) != 0) else allpos
                    return [list(draw(st.sampled_from(src))) for _ in range(k)]
                kind = draw(st.sampled_from(['assume', 'assume', 'implies_intr', 'implies_elim', 'sorry', 'empty',
                                             'empty_stated', 'reflexive', 'symmetric', 'theorem', 'gap', 'gap2', 'idm',
                                             'block' if depth < 2 else 'assume']))
                stated = None
                if draw(st.integers(0, 3)) == 0:
                    stated = thm_j(draw(prop), draw(st.lists(prop, max_size=2)))
                if kind == 'assume':
                    its.append(item(ident, 'assume', draw(prop), [], stated))
                elif kind == 'implies_intr':
                    its.append(item(ident, 'implies_intr', draw(prop), pick(1), stated))
                elif kind == 'implies_elim':
                    its.append(item(ident, 'implies_elim', None, pick(2), stated))
                elif kind == 'sorry':
                    its.append(item(ident, 'sorry', None, [], thm_j(draw(prop), draw(st.lists(prop, max_size=1)))))
                elif kind == 'empty':
                    its.append(item(ident, '', None, [], None))
                elif kind == 'empty_stated':
                    its.append(item(ident, '', None, [], thm_j(draw(prop))))
                elif kind == 'reflexive':
                    its.append(item(ident, 'reflexive', draw(st.sampled_from(xs)), [], stated))
                elif kind == 'symmetric':
                    its.append(item(ident, 'symmetric', None, pick(1), stated))
                elif kind == 'theorem':
                    its.append(item(ident, 'theorem', draw(st.sampled_from(['trivial', 'conjI', 'nosuch'])), [], None))
                elif kind in ('gap', 'gap2'):
                    its.append(item(ident, 'verif_gap' if kind == 'gap' else 'verif_gap2',
                                    thm_j(draw(prop), draw(st.lists(prop, max_size=1))), [], None))
                elif kind == 'idm':
                    its.append(item(ident, 'verif_id', None, pick(1), stated))
                else:
                    sub = block(pos, depth + 1, local)
                    its.append(item(ident, 'subproof', None, [], stated, sub))
                local = local + [pos]
            return its
        items = block((), 0, [])
        return {'kind': 'proof', 'no_gaps': draw(st.booleans()), 'items': items}
    return proofs()


def fitted_proof_strategy():
    """Mostly-valid proofs (so that acceptance is frequent), then perturbed in one place."""
    from hypothesis import strategies as st
    atoms = [A, B, ["v", "C", BOOL]]

    @st.composite
    def proofs(draw):
        p, q = draw(st.sampled_from(atoms)), draw(st.sampled_from(atoms))
        template = draw(st.sampled_from(['mp', 'intro', 'block', 'gapblock', 'chain']))
        if template == 'mp':
            its = [item([0], 'assume', imp(p, q)), item([1], 'assume', p), item([2], 'implies_elim', None, [[0], [1]]),
                   item([3], 'implies_intr', p, [[2]]), item([4], 'implies_intr', imp(p, q), [[3]])]
        elif template == 'intro':
            its = [item([0], 'assume', p), item([1], 'implies_intr', p, [[0]]), item([2], 'implies_intr', q, [[1]])]
        elif template == 'block':
            its = [item([0], 'assume', p),
                   item([1], 'subproof', None, [], None, [item([1, 0], 'assume', q), item([1, 1], 'implies_intr', q, [[1, 0]])]),
                   item([2], 'implies_intr', p, [[1]])]
        elif template == 'gapblock':
            its = [item([0], 'subproof', None, [], None,
                        [item([0, 0], 'sorry', None, [], thm_j(q, [p])), item([0, 1], 'implies_intr', p, [[0, 0]])]),
                   item([1], 'verif_id', None, [[0]])]
        else:
            its = [item([0], 'assume', p), item([1], 'verif_id', None, [[0]]), item([2], 'implies_intr', p, [[1]]),
                   item([3], 'verif_gap2', thm_j(p)), item([4], 'implies_elim', None, [[2], [3]])]
        # one perturbation
        pert = draw(st.sampled_from(['none', 'id', 'prev', 'stated-weaker', 'stated-stronger', 'stated-other', 'swap',
                                     'empty-stated', 'into-block']))
        flat = []

        def rec(lst):
            for it in lst:
                flat.append(it)
                if it['sub']:
                    rec(it['sub'])
        rec(its)
        tgt = draw(st.sampled_from(flat))
        if pert == 'id':
            tgt['id'] = [draw(st.integers(0, 6))] if draw(st.booleans()) else tgt['id'][:-1] + [draw(st.integers(0, 6))]
        elif pert == 'prev' and tgt['prevs']:
            k = draw(st.integers(0, len(tgt['prevs']) - 1))
            tgt['prevs'][k] = draw(st.sampled_from([[0], [1], [2], [3], [4], [5], [0, 0], [1, 0], [1, 1], [0, 1], [-1], [-2], [1, -1]]))
        elif pert.startswith('stated') and tgt['rule'] not in ('sorry', ''):
            v = judge(its, False)
            # natural result of the target line: recompute by judging the prefix ending there (top-level lines only)
            try:
                pos = its.index(tgt)
                vv = judge(its[:pos + 1], False)
                nat = vv[1] if vv[0] == 'accept' else None
            except ValueError:
                nat = None
            if nat is not None:
                propj = codec.term_enc(nat.prop)
                hypsj = [codec.term_enc(h) for h in nat.hyps]
                if pert == 'stated-weaker':
                    tgt['th'] = thm_j(propj, hypsj + [["v", "D", BOOL]])
                elif pert == 'stated-stronger' and hypsj:
                    tgt['th'] = thm_j(propj, hypsj[1:])
                else:
                    tgt['th'] = thm_j(draw(st.sampled_from(atoms)), hypsj)
        elif pert == 'swap' and len(its) >= 2:
            i = draw(st.integers(0, len(its) - 2))
            its[i], its[i + 1] = its[i + 1], its[i]
            if draw(st.booleans()):
                its[i]['id'], its[i + 1]['id'] = its[i + 1]['id'], its[i]['id']
        elif pert == 'empty-stated':
            tgt['rule'] = ''
            tgt['args'] = None
            tgt['prevs'] = []
            tgt['sub'] = None
            tgt['th'] = thm_j(draw(st.sampled_from(atoms)))
        elif pert == 'into-block':
            its.append(item([len(its)], 'verif_id', None, [[draw(st.integers(0, 2)), draw(st.integers(0, 1))]]))
        return {'kind': 'proof', 'no_gaps': draw(st.booleans()), 'items': its}
    return proofs()


def idgames_strategy():
    """Locally valid steps with stated sequents, adversarial identifiers and citations: every line states x = y or
    y = x and is justified by `symmetric` from some line (earlier, later, itself, negative, inside a block); the
    identifiers are honest, duplicates of honest ones, shifted, nested or negative.  Well-foundedness is all that
    stands between such a proof and acceptance."""
    from hypothesis import strategies as st
    Ta = ["tv", "a"]
    x, y = ["v", "x", Ta], ["v", "y", Ta]
    eqT = fun(Ta, Ta, BOOL)

    def eq(a, b):
        return ["app", ["app", ["c", "equals", eqT], a], b]
    claims = [thm_j(eq(x, y)), thm_j(eq(y, x))]

    @st.composite
    def proofs(draw):
        # an honest, valid chain: line 0 assumes x = y; every other line flips an EARLIER line of opposite polarity;
        # then exactly one line is made adversarial (identifier and/or citation), keeping its step locally valid.
        n = draw(st.integers(3, 5))
        # blocks at up to two top-level positions (two blocks: a line of the later one may cite into the earlier one)
        nb = draw(st.sampled_from([0, 0, 0, 1, 1, 2]))
        blocks = sorted(draw(st.lists(st.integers(1, n - 1), min_size=nb, max_size=nb, unique=True))) if nb else []
        pos = []
        for i in range(n):
            pos.append((i,))
            if i in blocks:
                pos += [(i, 0), (i, 1)]
        lines = [p for p in pos if not (len(p) == 1 and p[0] in blocks)]
        hyp = [eq(x, y)]
        pol = {lines[0]: 0}
        cite = {}

        def vis(p, q):
            l = len(q)
            return l <= len(p) and q[:l - 1] == p[:l - 1] and q[l - 1] < p[l - 1]
        for p in lines[1:]:
            cands = [q for q in lines if q in pol and vis(p, q)]
            q = draw(st.sampled_from(cands)) if cands else lines[0]
            cite[p] = q
            pol[p] = 1 - pol[q]
        j = draw(st.sampled_from(lines[1:]))
        sibling = len(blocks) == 2 and draw(st.booleans())
        if sibling:
            j = (blocks[1], draw(st.integers(0, 1)))        # a line of the later block ...
        others = [q for q in lines if q != j and pol[q] != pol[j]]
        mode = draw(st.sampled_from(['dup', 'dup', 'shift', 'nest', 'neg', 'honest']))
        if mode == 'honest':
            ident = j
        elif mode == 'dup':
            ident = draw(st.sampled_from([q for q in pos if q != j]))
        elif mode == 'shift':
            ident = j[:-1] + (j[-1] + draw(st.sampled_from([1, 2, -1])),)
        elif mode == 'nest':
            ident = draw(st.sampled_from(pos)) + (draw(st.integers(0, 1)),)
        else:
            ident = j[:-1] + (-1,)
        jq = draw(st.sampled_from(others + [(-1,)])) if (others and draw(st.integers(0, 4)) != 0) else draw(st.sampled_from(lines + [(-1,), (n,)]))
        if sibling:
            inside = [q for q in others if len(q) == 2 and q[0] == blocks[0]]
            if inside:
                jq = draw(st.sampled_from(inside))           # ... cites into the earlier, closed block
                mode = draw(st.sampled_from(['honest', 'honest', mode]))
                ident = j if mode == 'honest' else ident
        drop_hyp = draw(st.booleans())

        def mk(p):
            if p == lines[0]:
                return item(list(p), 'assume', eq(x, y), [], None)
            th = thm_j(claims[pol[p]]['prop'], hyp)
            if p == j:
                return item(list(ident), 'symmetric', None, [list(jq)], thm_j(claims[pol[p]]['prop'], [] if drop_hyp else hyp))
            return item(list(p), 'symmetric', None, [list(cite[p])], th)
        its = []
        for i in range(n):
            if i in blocks:
                blk = item([i], 'subproof', None, [], None, [mk((i, 0)), mk((i, 1))])
                its.append(blk)
            else:
                its.append(mk((i,)))
        return {'kind': 'proof', 'no_gaps': draw(st.integers(0, 3)) != 0, 'items': its}
    return proofs()


def ext_strategy():
    from hypothesis import strategies as st
    atoms = [A, B]

    @st.composite
    def exts(draw):
        p, q = draw(st.sampled_from(atoms)), draw(st.sampled_from(atoms))
        goal = imp(p, imp(q, p))
        good = [item([0], 'assume', p), item([1], 'implies_intr', q, [[0]]), item([2], 'implies_intr', p, [[1]])]
        mode = draw(st.sampled_from(['match', 'other', 'weaker', 'gap', 'macro-gap', 'invalid', 'none', 'hyps']))
        stated = thm_j(goal)
        items = good
        if mode == 'other':
            stated = thm_j(imp(q, p))
        elif mode == 'weaker':
            stated = thm_j(goal, [q])
        elif mode == 'gap':
            items = [item([0], 'sorry', None, [], thm_j(goal))]
        elif mode == 'macro-gap':
            items = [item([0], draw(st.sampled_from(['verif_gap', 'verif_gap2'])), thm_j(goal))]
        elif mode == 'invalid':
            items = [item([0], 'assume', p), item([1], 'implies_elim', None, [[0], [0]])]
        elif mode == 'none':
            items = None
        elif mode == 'hyps':
            items = [item([0], 'assume', goal)]      # proves goal |- goal, not |- goal
        return {'kind': 'ext', 'stated': stated, 'items': items}
    return exts()


def shards(tier):
    out = []
    parts = 16 if tier == 'quick' else 32
    for i in range(parts):
        out.append({'kind': 'enum', 'part': i, 'parts': parts, 'limit': 1400 if tier == 'quick' else None})
    nr, nf, ne = (2400, 2400, 400) if tier == 'quick' else (100000, 100000, 8000)
    for i, c in enumerate(harness.split(nr, 8)):
        out.append({'kind': 'random', 'n': c, 'i': i})
    for i, c in enumerate(harness.split(nf, 8)):
        out.append({'kind': 'fitted', 'n': c, 'i': i})
    for i, c in enumerate(harness.split(ne, 2)):
        out.append({'kind': 'ext', 'n': c, 'i': i})
    for i, c in enumerate(harness.split(nf, 8)):
        out.append({'kind': 'idgames', 'n': c, 'i': i})
    return out


def run_shard(desc, seed, tier, H):
    k = desc['kind']
    if k == 'enum':
        count, complete = enum_shapes(desc['part'], desc['parts'], H, desc.get('limit'))
        if complete:
            H.mark_exhaustive('top-level proofs of <=3 steps over the small vocabulary, all id/citation/statement choices')
        return

    def body(case):
        try:
            run_case(case, H)
        except CaseInvalid:
            H.note('generated-invalid')
    strat = {'random': proof_strategy, 'fitted': fitted_proof_strategy, 'ext': ext_strategy, 'idgames': idgames_strategy}[k]()
    harness.hyp_run(strat, body, desc['n'], seed)
