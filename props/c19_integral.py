"""C19 -- every integration-calculator step preserves the value of the expression.

Cases (JSON):
  {"kind": "step", "file": F, "item": i, "path": "proof.lhs", "step": k, "seeds": [s1, s2, ...]}
        recorded step k of the calculation at `path` inside item i of integral/examples/F.json; the parameter draws
        are a deterministic function of the seeds (optional "draws": [{var: "p/q"}, ...] overrides them)
  {"kind": "rule", "rule": R, "e": "<printed expression>", "params": {...}, "conds": [...], "seeds": [...]}
        generated expression + generated rule parameters
  {"kind": "deriv" | "normalize" | "bounds" | "roundtrip", ...}     see the run_* functions below
"""
import contextlib
import copy
import io
import json
import os
import re
from fractions import Fraction

from vlib import harness
from vlib import c19_lib as L
from vlib.c19_lib import Inconc
from vlib.harness import time_limit, Timeout, CaseInvalid, SelfTestError

ID = 'C19'
RULE = ("(1) every recorded step of every calculation in integral/examples/*.json (files sorted, case-insensitive "
        "duplicates dropped): the step's rule is re-executed on the recorded previous expression in the recorded "
        "context and the numeric value before/after is compared at parameter draws that satisfy the context's "
        "conditions (integer draws for induction variables, factorial/binomial arguments, exponents of negative "
        "constants and summation bounds); equations: if the equation before holds numerically the one after must; "
        "antiderivatives / Skolem constants: increments over three points must agree. (2) Hypothesis-generated "
        "expressions with generated parameters for Simplify, FullSimplify, Linearity, Substitution (monotone and "
        "not), SubstitutionInverse, IntegrationByParts, SplitRegion (inside/outside, singular/regular), "
        "ExpandPolynomial, Equation (equal and unequal targets, sums of integrals over equal / different intervals), "
        "ApplyIdentity, ElimInfInterval, LHopital, DerivativeSimplify, SimplifyPower, ReduceLimit (at +oo, -oo and finite "
        "points), DerivIntExchange (both directions, constant / parameter-dependent / infinite bounds, also under OnSubterm). "
        "Integrals are generated with ascending and (one in four or five) with descending constant bounds, the form "
        "SplitRegion returns for a point outside the interval; Substitution also with g that is monotone on the interval but "
        "needs a non-principal branch of its inverse (even powers on negative intervals, sin/cos/tan away from 0); constants "
        "under log/exp with irrational exponents; interval bounds of powers whose base and exponent both range over "
        "intervals. (3) deriv vs mpmath.diff, normalize value-preserving and "
        "idempotent, Interval/get_bounds_for_expr enclosing sampled values, parse_expr(str(e)) == e. Oracle: "
        "independent Expr->mpmath evaluator (vlib/c19_lib.py). A violation needs both sides finite with small "
        "quadrature error, disagreement beyond 1e-6*(1+|v|) at 30 and 50 digits and with a second quadrature "
        "configuration, at >= 2 independent parameter draws (1 when there is no free parameter). Non-trivial: the rule "
        "changed the expression and both sides evaluated conclusively at >= 1 draw; distinct by canonical JSON.")
ASSUMPTIONS = [
    "real-number semantics: a sub-expression that is not real (sqrt/log/non-integer power of a negative number) or not "
    "finite makes the draw inconclusive, never a violation",
    "improper integrals, limits and infinite sums are only compared when the numerics visibly converge (quadrature error "
    "<= 1e-10 relative, limit sequence settled, two nsum accelerations agree); conditionally convergent / oscillatory "
    "cases are inconclusive",
    "convergence side conditions (exchange of limit / sum / integral / derivative) are only probed numerically",
    "variables that occur in factorial/binom arguments, as exponent of a negative constant, as summation bound or as "
    "induction variable are drawn from the integers, all others from the rationals",
    "an exception raised by a rule is a rejection and allowed",
    "recorded steps: the draw seeds are a deterministic function (blake2b) of VERIF_SEED and the step's address, the "
    "domain itself is enumerated",
]
SHRINK_SECONDS = 10
SHRINK_BUDGET = 30


@contextlib.contextmanager
def cpu_limit(seconds):
    """Like harness.time_limit, but counts CPU time of this process (results do not depend on machine load);
    always used inside a (much longer) wall-clock harness.time_limit as a backstop."""
    import signal

    def handler(signum, frame):
        raise Timeout()
    old = signal.signal(signal.SIGVTALRM, handler)
    signal.setitimer(signal.ITIMER_VIRTUAL, seconds, 0.2)      # re-fires: a Timeout swallowed in a gc callback is retried
    try:
        yield
    finally:
        signal.setitimer(signal.ITIMER_VIRTUAL, 0)
        signal.signal(signal.SIGVTALRM, old)

compstate = rules = parser = expr = context = conditions = poly = interval = limits = None
mp = mpf = None
EX_DIR = None
_FILES = None          # sorted list of (name, book)
_file_cache = {}

TOL_DIGITS = 6


# ============================================================================================ setup
def setup():
    global compstate, rules, parser, expr, context, conditions, poly, interval, limits, mp, mpf, EX_DIR
    import warnings
    warnings.filterwarnings('ignore', category=SyntaxWarning)
    import mpmath
    mp, mpf = mpmath.mp, mpmath.mpf
    from integral import compstate as _cs, rules as _r, parser as _p, expr as _e, context as _c, \
        conditions as _cd, poly as _po, interval as _iv, limits as _li
    compstate, rules, parser, expr, context, conditions, poly, interval, limits = _cs, _r, _p, _e, _c, _cd, _po, _iv, _li
    EX_DIR = os.path.join(os.path.dirname(os.path.abspath(_e.__file__)), 'examples')
    if not L.check_tags(_e):
        raise SelfTestError('expression type tags of integral.expr differ from the copies in c19_lib')
    _self_test()
    file_list()


def _self_test():
    P = parser.parse_expr
    ev = L.Evaluator()
    good = [("INT x:[0,1]. x^2", '1/3'), ("INT x:[0,oo]. exp(-x)*x^2", '2'), ("INT x:[-1,2]. abs(x)", '5/2'),
            ("SUM(n,0,oo,(-1)^n/(2*n+1))", 'pi/4'), ("LIM {t->oo}. INT x:[0,t]. exp(-x)", '1'),
            ("[x*log(x)-x]_x=0,1", '-1'), ("LIM {x->0}. sin(x)/x", '1'), ("D x. sin(x)^2", '2*sin(x)*cos(x)'),
            ("INT x:[0,1]. 1/sqrt(1-x^2)", 'pi/2'), ("LIM {x -> oo}. (1+1/x)^x", 'exp(1)'),
            ("INT x:[1,-2]. (x^2)^(1/2)", '-5/2'), ("D x. INT t:[0,x]. x*t", '3*x^2/2'), ("LIM {x -> -oo}. x*exp(x)", '0'),
            ("INT x:[1,oo]. 1/x^(3/2)", '2')]
    for dps in (30, 50):
        with mp.workdps(dps):
            env = {'x': mpf(1) / 3}
            for s, t in good:
                a, b = ev.value(P(s), env), ev.value(P(t), env)
                if not L.close(a, b, mpf(10) ** (-12)):
                    raise SelfTestError('evaluator: %s gives %s, expected %s' % (s, a, t))
            for s in ("INT x:[-1,1]. 1/x", "INT x:[0,oo]. sin(x)/x", "sqrt(-2)", "log(0)", "LIM {x->0}. 1/x",
                      "INT x:[0,1]. 1/x", "LIM {x->oo}. sin(x)", "INT x:[1,oo]. log(1 + x^2)", "INT x:[0,oo]. 1",
                      "INT x:[-oo,0]. x/(1 - x)"):
                try:
                    v = ev.value(P(s), env)
                except Inconc:
                    continue
                raise SelfTestError('evaluator: %s should be inconclusive, got %s' % (s, v))
    # the comparison procedure itself: known-bad and known-good pairs
    cmpo = Comparator({}, [], {}, set())
    bad = cmpo.compare(P("INT x:[0,a]. x"), P("a^2/3"), seeds=[1, 2, 3])
    if bad.verdict != 'differ':
        raise SelfTestError('comparator accepts INT x:[0,a]. x = a^2/3: %s' % bad.verdict)
    ok = cmpo.compare(P("INT x:[0,a]. x"), P("a^2/2"), seeds=[1, 2, 3])
    if ok.verdict != 'same':
        raise SelfTestError('comparator rejects INT x:[0,a]. x = a^2/2: %s' % ok.verdict)
    ok = cmpo.compare(P("INT x. 2*x"), P("x^2 + 5 + SKOLEM_CONST(C)"), seeds=[1, 2, 3])
    if ok.verdict != 'same':
        raise SelfTestError('comparator rejects INT x. 2*x = x^2 + 5 + C: %s %s' % (ok.verdict, ok.reasons))
    bad = cmpo.compare(P("INT x. 2*x"), P("x^3 + SKOLEM_CONST(C)"), seeds=[1, 2, 3])
    if bad.verdict != 'differ':
        raise SelfTestError('comparator accepts INT x. 2*x = x^3 + C: %s' % bad.verdict)
    bad = cmpo.compare(P("x = x"), P("x = x + 1"), seeds=[1, 2, 3])
    if bad.verdict != 'differ':
        raise SelfTestError('comparator accepts x = x ==> x = x + 1')


# ============================================================================================ parameter draws
def _h(*parts):
    return harness.digest(json.dumps(parts, sort_keys=True, default=str))


def pick_value(seed, var, attempt, is_int, flip=None):
    r = _h('draw', seed, var, attempt)
    a, r = r % 100, r // 100
    b, r = r % 100, r // 100
    n = r % 1000
    if is_int:
        if a < 15:
            return Fraction(-1 - n % 3)
        return Fraction(n % 7)
    if b < 50:
        mag = Fraction(1 + n % 15, 16)                      # (0,1)
    elif b < 85:
        mag = 1 + Fraction(1 + n % 23, 8)                   # (1,4)
    else:
        mag = 4 + Fraction(1 + n % 41, 7)                   # (4,10)
    neg = a < 40
    if flip is not None and attempt < 6 and not is_int:
        # consecutive draws of one comparison alternate the sign of every variable (when the conditions allow it)
        group, j = flip
        neg = (_h('sign', group, var) + j) % 2 == 1
    return -mag if neg else mag


class DrawFailed(Exception):
    pass


def draw_env(seed, variables, conds, int_vars, ev, fixed=None, tries=300, flip=None):
    """Deterministic rejection sampling of rational values satisfying the conditions.
    Returns (env: name -> Fraction, ignored conditions)."""
    variables = sorted(set(variables))
    eqs, others = [], []
    for c in conds:
        (eqs if (c.ty == L.OP and c.op == '=') else others).append(c)
    ignored = []
    with mp.workdps(30):
        for attempt in range(tries):
            env = {}
            for v in variables:
                if fixed and v in fixed:
                    env[v] = Fraction(fixed[v])
                else:
                    env[v] = pick_value(seed, v, attempt, v in int_vars, flip)
            menv = {k: mpf(x.numerator) / x.denominator for k, x in env.items()}
            ok = True
            for c in eqs:
                lhs, rhs = c.args
                try:
                    if lhs.ty == L.VAR:
                        val = ev.value(rhs, menv)
                        tgt = str(lhs.name)
                    elif lhs.ty == L.OP and lhs.op == '-' and len(lhs.args) == 2 and lhs.args[0].ty == L.VAR and \
                            rhs.ty == L.CONST and rhs.val == 0:
                        val = ev.value(lhs.args[1], menv)
                        tgt = str(lhs.args[0].name)
                    else:
                        raise DrawFailed('equality condition %s' % c)
                except Inconc:
                    ok = False
                    break
                fr = _to_fraction(val)
                if fr is None:
                    raise DrawFailed('irrational equality condition %s' % c)
                env[tgt] = fr
                menv[tgt] = mpf(fr.numerator) / fr.denominator
            if not ok:
                continue
            ignored = []
            for c in others:
                try:
                    if not ev.truth(c, menv):
                        ok = False
                        break
                except Inconc:
                    ignored.append(str(c))
            if ok:
                return env, ignored
    raise DrawFailed('no admissible draw in %d tries' % tries)


def _to_fraction(v):
    for den in (1, 2, 3, 4, 5, 6, 7, 8, 16, 35, 48, 112, 240, 1680):
        x = v * den
        if mp.isint(x) or abs(x - mp.nint(x)) < mpf(10) ** (-25):
            return Fraction(int(mp.nint(x)), den)
    return None


def int_variables(exprs, extra=()):
    out = set(extra)
    for e in exprs:
        for t in L.subterms(e):
            if t.ty == L.FUN and str(t.func_name) in ('factorial', 'binom'):
                for a in t.args:
                    out |= L.free_vars(a)
            elif t.ty == L.OP and t.op == '^' and len(t.args) == 2:
                b = t.args[0]
                if b.ty == L.CONST and b.val < 0:
                    out |= L.free_vars(t.args[1])
                if b.ty == L.OP and len(b.args) == 1 and b.args[0].ty == L.CONST:
                    out |= L.free_vars(t.args[1])
            elif t.ty == L.SUMMATION:
                out |= L.free_vars(t.lower) | L.free_vars(t.upper)
    return out


# ============================================================================================ comparison of two expressions
class Result:
    def __init__(self):
        self.verdict = 'inconclusive'     # same | differ | inconclusive
        self.conclusive_draws = 0
        self.differ_draws = 0
        self.reasons = []
        self.detail = ''
        self.draws = []


class Comparator:
    """Compares the numeric value of two expressions under conditions.

    defs: user function definitions; conds: list of condition Exprs; substs: var -> Expr (performed substitutions);
    int_vars: variables drawn from the integers."""

    def __init__(self, defs, conds, substs, int_vars, root_var=None, limit_s=8.0):
        self.ev = L.Evaluator(defs)
        self.conds = list(conds)
        self.substs = dict(substs)
        self.int_vars = set(int_vars)
        self.root_var = root_var
        self.limit_s = limit_s
        self.vcache = {}
        self.all_vars = None       # optional: variables drawn jointly (keeps draws stable along a calculation)
        self.antider_vars = set()  # variables of indefinite integrals anywhere in the calculation

    # ---- one side, one configuration
    def _mode(self, a, b):
        eq_a = a.ty == L.OP and a.op in L.REL_OPS
        eq_b = b.ty == L.OP and b.op in L.REL_OPS
        if eq_a != eq_b:
            return None
        if eq_a and (a.op != '=' or b.op != '='):
            return None
        antider = any(L.contains_ty(t, (L.INDEFINITEINTEGRAL, L.SKOLEMFUNC)) for t in (a, b))
        return ('eq' if eq_a else 'val') + (':antider' if antider else '')

    def _moving(self, a, b):
        mv = set()
        for t in (a, b):
            for s in L.subterms(t):
                if s.ty == L.INDEFINITEINTEGRAL:
                    mv.add(str(s.var))
        if self.root_var:
            mv.add(self.root_var)
        # substituted variables follow the variables they were introduced for
        roots = set()
        for v in mv:
            roots |= self._roots(v)
        return roots

    def _roots(self, v, depth=0):
        if v in self.substs and depth < 6:
            out = set()
            cands = L.free_vars(self.substs[v]) - {v}
            pref = cands & (self.antider_vars | ({self.root_var} if self.root_var else set()))
            for w in (pref or cands):
                out |= self._roots(w, depth + 1)
            return out
        return {v}

    def _full_env(self, env_fr, shift=None):
        """mpf environment at the current precision, substituted variables derived."""
        env = {}
        for k, x in env_fr.items():
            if k in self.substs:
                continue
            v = mpf(x.numerator) / x.denominator
            if shift and k in shift:
                v = v + shift[k]
            env[k] = v
        pending = [k for k in self.substs]
        for _ in range(len(pending) + 1):
            rest = []
            for k in pending:
                need = L.free_vars(self.substs[k]) - {k}
                if all(n in env for n in need):
                    try:
                        env[k] = self.ev.value(self.substs[k], env)
                    except Inconc:
                        rest.append(k)
                else:
                    rest.append(k)
            if len(rest) == len(pending):
                break
            pending = rest
        for k in pending:          # could not be derived: fall back to the drawn value, if any
            if k in env_fr:
                x = env_fr[k]
                env[k] = mpf(x.numerator) / x.denominator
        return env

    def _value(self, e, env_fr, mode, moving, dps, variant):
        """A tuple of mpf characterising e at the draw: (v,) or the two increments in antiderivative mode;
        for equations the residual(s) and the magnitude of the lhs."""
        fv = L.free_vars(e)
        key = (str(e), mode, dps, variant, tuple(sorted((k, env_fr[k]) for k in env_fr)),
               tuple(sorted(moving)) if 'antider' in mode else ())
        hit = self.vcache.get(key)
        if hit is not None:
            if isinstance(hit, Inconc):
                raise hit
            return hit
        try:
            with mp.workdps(dps):
                self.ev.quad_variant = variant
                try:
                    with time_limit(5 * self.limit_s + 10), cpu_limit(self.limit_s):
                        res = self._value_nocache(e, env_fr, mode, moving)
                except Timeout:
                    raise Inconc('timeout')
                finally:
                    self.ev.quad_variant = 0
                    self.ev.depth = 0
        except Inconc as ex:
            self.vcache[key] = ex
            raise
        self.vcache[key] = res
        return res

    def _value_nocache(self, e, env_fr, mode, moving):
        is_eq = mode.startswith('eq')
        antider = mode.endswith('antider')
        sides = list(e.args) if is_eq else [e]
        if not antider:
            env = self._full_env(env_fr)
            vals = [self.ev.value(s, env) for s in sides]
            if is_eq:
                return (vals[0] - vals[1], abs(vals[0]) + abs(vals[1]))
            return (vals[0],)
        d = mpf(1) / 16
        envs = [self._full_env(env_fr, {m: d * i for m in moving}) for i in range(3)]
        for en in envs[1:]:
            for c in self.conds:
                try:
                    if not self.ev.truth(c, en):
                        raise Inconc('shifted-point-violates-condition')
                except Inconc as ex:
                    if ex.reason == 'shifted-point-violates-condition':
                        raise
        base = dict(envs[0])
        out = []
        mags = 0
        for s in sides:
            f = []
            for en in envs:
                en = dict(en)
                en['@base'] = base
                f.append(self.ev.value(s, en))
            out.append((f[1] - f[0], f[2] - f[0]))
            mags += abs(f[1] - f[0]) + abs(f[2] - f[0])
        if is_eq:
            return (out[0][0] - out[1][0], out[0][1] - out[1][1], mags)
        return out[0]

    # ---- the comparison
    def compare(self, a, b, seeds, explicit_draws=None, need=2, max_draws=6):
        res = Result()
        mode = self._mode(a, b)
        if mode is None:
            res.reasons.append('shape')
            return res
        moving = self._moving(a, b) if 'antider' in mode else set()
        fv = L.free_vars(a) | L.free_vars(b)
        for c in self.conds:
            fv |= L.free_vars(c)
        for k in list(fv):
            if k in self.substs:
                fv |= L.free_vars(self.substs[k])
        fv |= moving
        if self.all_vars:
            fv |= set(self.all_vars)
        free_params = bool(fv - set(self.ev.defs))
        if not free_params:
            need = 1
        tol = mpf(10) ** (-TOL_DIGITS)
        seeds = list(seeds)
        draws = []
        if explicit_draws:
            for d in explicit_draws:
                try:
                    draws.append(({str(k): Fraction(v) for k, v in d.items()}, []))
                except (ValueError, ZeroDivisionError, TypeError):
                    raise CaseInvalid('draw')
        todo = [('explicit', d) for d in draws] + [('seed', sd) for sd in seeds]
        extra = 0
        i = 0
        while i < len(todo):
            kind, d = todo[i]
            i += 1
            if kind == 'explicit':
                env_fr, ign = d
                for v in fv:
                    if v not in env_fr and v not in self.substs and v not in self.ev.defs:
                        env_fr[v] = pick_value(0, v, 0, v in self.int_vars)
            else:
                try:
                    env_fr, ign = draw_env(d, fv - set(self.ev.defs), self.conds, self.int_vars, self.ev,
                                           flip=(seeds[0], i))
                except DrawFailed as ex:
                    res.reasons.append('draw-failed')
                    res.detail = str(ex)
                    continue
            if ign:
                res.reasons.append('condition-not-evaluable')
            st = self._one_draw(a, b, env_fr, mode, moving, tol, res)
            if st == 'same':
                res.conclusive_draws += 1
            elif st == 'differ':
                res.conclusive_draws += 1
                res.differ_draws += 1
                if res.differ_draws >= need:
                    break
            if i == len(todo) and 0 < res.differ_draws < need and extra < max_draws - 2 and seeds:
                # one disagreeing draw so far: look at further, independent draws
                extra += 1
                todo.append(('seed', seeds[-1] + 7919 * extra))
        if res.differ_draws >= need:
            res.verdict = 'differ'
        elif res.differ_draws > 0:
            res.verdict = 'inconclusive'
            res.reasons.append('single-draw-disagreement')
        elif res.conclusive_draws > 0:
            res.verdict = 'same'
        return res

    def _one_draw(self, a, b, env_fr, mode, moving, tol, res):
        is_eq = mode.startswith('eq')

        def differs(va, vb):
            if is_eq:
                # premise: residual of a is ~0; conclusion: residual of b is ~0
                ra, rb = va[:-1], vb[:-1]
                if any(abs(x) > tol * (1 + va[-1]) for x in ra):
                    return None               # the premise does not hold numerically
                return any(abs(x) > tol * (1 + vb[-1]) for x in rb)
            return any(not L.close(x, y, tol) for x, y in zip(va, vb))
        try:
            va = self._value(a, env_fr, mode, moving, 30, 0)
            vb = self._value(b, env_fr, mode, moving, 30, 0)
        except Inconc as ex:
            res.reasons.append(ex.reason)
            return 'inconclusive'
        d = differs(va, vb)
        if d is None:
            res.reasons.append('premise-equation-does-not-hold-numerically')
            return 'inconclusive'
        if not d:
            return 'same'
        # confirm: 50 digits and an independent quadrature configuration, each side consistent with itself
        try:
            confirm = []
            for dps, variant in ((50, 0), (30, 1)):
                xa = self._value(a, env_fr, mode, moving, dps, variant)
                xb = self._value(b, env_fr, mode, moving, dps, variant)
                confirm.append((xa, xb))
        except Inconc as ex:
            res.reasons.append('confirm:' + ex.reason)
            return 'inconclusive'
        tight = mpf(10) ** (-9)
        for xa, xb in confirm:
            if is_eq:
                ok = all(abs(p - q) <= tight * (1 + va[-1] + vb[-1]) for p, q in zip(xa[:-1], va[:-1])) and \
                    all(abs(p - q) <= tight * (1 + va[-1] + vb[-1]) for p, q in zip(xb[:-1], vb[:-1]))
            else:
                ok = all(L.close(p, q, tight) for p, q in zip(xa, va)) and all(L.close(p, q, tight) for p, q in zip(xb, vb))
            if not ok:
                res.reasons.append('confirm:precisions-disagree')
                return 'inconclusive'
            if not differs(xa, xb):
                res.reasons.append('confirm:precisions-disagree')
                return 'inconclusive'
        res.draws.append({k: str(v) for k, v in sorted(env_fr.items())})
        res.detail = 'draw %s: before %s, after %s' % (
            {k: str(v) for k, v in sorted(env_fr.items())},
            [mp.nstr(x, 15) for x in va], [mp.nstr(x, 15) for x in vb])
        return 'differ'


# ---------------------------------------------------------------- descent to the rewritten sub-term
def descend(a, b):
    """Follow the spine on which a and b agree; returns (a', b', extra conditions, extra integer variables) for the
    single pair of sub-terms that differ.  Equal values of a' and b' at all admissible points imply equal values of
    a and b (the converse does not hold, so this is only ever used to conclude 'same')."""
    conds, ivars = [], set()
    while True:
        if a.ty != b.ty:
            break
        if a.ty in (L.OP, L.FUN):
            if (a.ty == L.OP and a.op != b.op) or (a.ty == L.FUN and str(a.func_name) != str(b.func_name)) or \
                    len(a.args) != len(b.args) or (a.ty == L.OP and a.op in L.REL_OPS):
                break
            diff = [i for i in range(len(a.args)) if str(a.args[i]) != str(b.args[i])]
            if len(diff) != 1:
                break
            a, b = a.args[diff[0]], b.args[diff[0]]
        elif a.ty == L.INTEGRAL:
            if a.var != b.var or str(a.lower) != str(b.lower) or str(a.upper) != str(b.upper):
                break
            if a.lower.ty != L.INF:
                conds.append(expr.Op('>', expr.Var(a.var), a.lower))
            if a.upper.ty != L.INF:
                conds.append(expr.Op('<', expr.Var(a.var), a.upper))
            a, b = a.body, b.body
        elif a.ty == L.SUMMATION:
            if a.index_var != b.index_var or str(a.lower) != str(b.lower) or str(a.upper) != str(b.upper):
                break
            conds.append(expr.Op('>=', expr.Var(a.index_var), a.lower))
            if a.upper.ty != L.INF:
                conds.append(expr.Op('<=', expr.Var(a.index_var), a.upper))
            ivars.add(str(a.index_var))
            a, b = a.body, b.body
        elif a.ty == L.LIMIT:
            if a.var != b.var or str(a.lim) != str(b.lim) or a.drt != b.drt:
                break
            if a.lim.ty == L.INF:
                conds.append(expr.Op('>' if str(a.lim) == 'oo' else '<', expr.Var(a.var), expr.Const(0)))
            a, b = a.body, b.body
        elif a.ty in (L.DERIV, L.INDEFINITEINTEGRAL):
            if a.var != b.var:
                break
            a, b = a.body, b.body
        else:
            break
    return a, b, conds, ivars


# ============================================================================================ recorded example files
def file_list():
    global _FILES
    if _FILES is not None:
        return _FILES
    names = sorted(f[:-5] for f in os.listdir(EX_DIR) if f.endswith('.json'))
    books, paths = {}, {}
    for n in names:
        try:
            with open(os.path.join(EX_DIR, n + '.json'), encoding='utf-8') as f:
                d = json.load(f)
        except Exception:
            continue
        if isinstance(d, dict) and isinstance(d.get('content'), list) and \
                any(isinstance(i, dict) and i.get('type') in ('header', 'axiom', 'problem', 'definition', 'table')
                    for i in d['content']):
            books[n] = d
            for it in d['content']:
                if 'path' in it:
                    paths.setdefault(it['path'], n)
    book_of_test = {}
    try:
        src = open(os.path.join(os.path.dirname(EX_DIR), 'tests', 'integral_test.py'), encoding='utf-8').read()
        for m in re.finditer(r'CompFile\(\s*["\'](\w+)["\']\s*,\s*["\'](\w+)["\']\s*\)', src):
            book_of_test.setdefault(m.group(2), m.group(1))
    except OSError:
        pass
    cands = [n for n in names if n not in books and n != 'index']
    by_lower = {}
    for n in cands:
        by_lower.setdefault(n.lower(), []).append(n)
    out = []
    for low in sorted(by_lower):
        group = sorted(by_lower[low])
        listed = [n for n in group if n in paths]
        n = listed[0] if listed else group[0]
        book = paths.get(n) or book_of_test.get(n) or ('interesting' if 'interesting' in books else None)
        if book is None or book not in books:
            continue
        out.append((n, book))
    _FILES = sorted(out)
    return _FILES


def quiet():
    return contextlib.redirect_stdout(io.StringIO())


def calcs_of(item, path=()):
    T = type(item).__name__
    if T == 'Calculation':
        yield '.'.join(path), item
    elif T == 'Goal':
        if item.proof is not None:
            yield from calcs_of(item.proof, path + ('proof',))
        for i, g in enumerate(item.sub_goals):
            yield from calcs_of(g, path + ('sub%d' % i,))
    elif T == 'CalculationProof':
        yield from calcs_of(item.lhs_calc, path + ('lhs',))
        yield from calcs_of(item.rhs_calc, path + ('rhs',))
    elif T == 'InductionProof':
        yield from calcs_of(item.base_case, path + ('base',))
        yield from calcs_of(item.induct_case, path + ('induct',))
    elif T == 'CaseProof':
        yield from calcs_of(item.case_1, path + ('case1',))
        yield from calcs_of(item.case_2, path + ('case2',))
    elif T == 'RewriteGoalProof':
        yield from calcs_of(item.begin, path + ('begin',))


def induct_vars_of(item, acc=None):
    acc = set() if acc is None else acc
    T = type(item).__name__
    if T == 'Goal':
        if item.proof is not None:
            induct_vars_of(item.proof, acc)
    elif T == 'InductionProof':
        acc.add(str(item.induct_var))
        induct_vars_of(item.base_case, acc)
        induct_vars_of(item.induct_case, acc)
    elif T == 'CaseProof':
        induct_vars_of(item.case_1, acc)
        induct_vars_of(item.case_2, acc)
    return acc


def defs_of_ctx(ctx):
    defs = {}
    for ident in ctx.get_definitions():
        lhs = ident.lhs
        if lhs.ty == L.FUN:
            if all(a.ty in (L.SYMBOL, L.VAR) for a in lhs.args):
                defs[str(lhs.func_name)] = ([str(a.name) for a in lhs.args], ident.rhs)
        elif lhs.ty in (L.SYMBOL, L.VAR):
            defs[str(lhs.name)] = ([], ident.rhs)
    return defs


class LoadedFile:
    def __init__(self, name, book):
        self.name, self.book = name, book
        self.items = {}          # index -> {'item':, 'calcs': {path: calc}, 'int_vars':, 'error':}
        with open(os.path.join(EX_DIR, name + '.json'), encoding='utf-8') as f:
            data = json.load(f)
        with quiet():
            self.file = compstate.CompFile(book, name)
        for i, it in enumerate(data.get('content', [])):
            rec = {'item': None, 'calcs': {}, 'error': None}
            try:
                with quiet():
                    item = compstate.parse_item(self.file, copy.deepcopy(it))
                self.file.add_item(item)
                rec['item'] = item
                for path, calc in calcs_of(item):
                    rec['calcs'][path] = calc
                rec['induct'] = induct_vars_of(item)
            except Exception as ex:       # a stored item the current code cannot even load: not a step
                rec['error'] = '%s: %s' % (type(ex).__name__, str(ex)[:100])
            self.items[i] = rec


def load_file(name):
    lf = _file_cache.get(name)
    if lf is None:
        book = dict(file_list()).get(name)
        if book is None:
            raise CaseInvalid('unknown example file %r' % (name,))
        lf = _file_cache[name] = LoadedFile(name, book)
    return lf


def inner_rule_name(rule):
    r = rule
    while hasattr(r, 'rule'):
        r = r.rule
    return type(r).__name__


def first_antider_var(exprs):
    for e in exprs:
        for t in L.subterms(e):
            if t.ty == L.INDEFINITEINTEGRAL:
                return str(t.var)
    return None


_cmp_cache = {}


def calc_comparator(lf, idx, path, limit_s):
    key = (lf.name, idx, path)
    hit = _cmp_cache.get(key)
    if hit is not None:
        return hit
    rec = lf.items[idx]
    calc = rec['calcs'][path]
    ctx = calc.ctx
    conds = list(ctx.get_conds().data)
    defs = defs_of_ctx(ctx)
    exprs = [calc.start] + [s.res for s in calc.steps]
    goal_exprs = []
    it = rec['item']
    if type(it).__name__ == 'Goal':
        goal_exprs.append(it.goal)
    for d in defs.values():
        goal_exprs.append(d[1])
    ivars = int_variables(exprs + goal_exprs + conds, rec.get('induct', ()))
    root = first_antider_var(goal_exprs[:1] + exprs)
    all_vars = set()
    for e in exprs + conds:
        all_vars |= L.free_vars(e)
    cmpo = Comparator(defs, conds, {}, ivars, root_var=root, limit_s=limit_s)
    cmpo.all_vars = all_vars - set(defs)
    for e in exprs + goal_exprs[:1]:
        for t in L.subterms(e):
            if t.ty == L.INDEFINITEINTEGRAL:
                cmpo.antider_vars.add(str(t.var))
    _cmp_cache[key] = cmpo
    return cmpo


def run_step_case(case, H, limit_s=6.0):
    try:
        name, idx, path, k = case['file'], int(case['item']), str(case['path']), int(case['step'])
        seeds = [int(s) for s in case.get('seeds', [1, 2])]
    except (KeyError, TypeError, ValueError):
        raise CaseInvalid('step case')
    lf = load_file(name)
    rec = lf.items.get(idx)
    if rec is None or rec['item'] is None or path not in rec['calcs']:
        raise CaseInvalid('no such calculation')
    calc = rec['calcs'][path]
    if not (0 <= k < len(calc.steps)):
        raise CaseInvalid('no such step')
    step = calc.steps[k]
    before = calc.start if k == 0 else calc.steps[k - 1].res
    ctx = context.Context(calc.ctx)
    substs = {}
    for s in calc.steps[:k]:
        sub = s.rule.get_substs()
        ctx.extend_substs(sub)
        substs.update({str(a): b for a, b in sub.items()})
    rname = inner_rule_name(step.rule)
    rule = copy.deepcopy(step.rule)
    try:
        with quiet(), time_limit(20):
            after = rule.eval(copy.deepcopy(before), ctx)
    except Timeout:
        H.inconc('rule-timeout')
        H.case(case, False, 'recorded:timeout:' + rname)
        return
    except Exception as ex:
        H.case(case, False, 'recorded:rejected:' + rname)
        H.note('recorded_rule_raised:' + type(ex).__name__)
        return
    if not hasattr(after, 'ty'):
        H.case(case, False, 'recorded:rejected:' + rname)
        return
    if after != step.res:
        H.note('recorded_result_drifted')
    # substitutions performed by this very step matter for the expression after it
    sub_here = {str(a): b for a, b in step.rule.get_substs().items()}
    cmpo = calc_comparator(lf, idx, path, limit_s)
    cmpo.limit_s = limit_s
    cmpo.substs = {}
    antider = any(L.contains_ty(t, (L.INDEFINITEINTEGRAL, L.SKOLEMFUNC)) for t in (before, after))
    if antider:
        allsub = dict(substs)
        allsub.update(sub_here)
        # only substitutions whose variable is free in one of the two expressions matter
        fv = L.free_vars(before) | L.free_vars(after)
        cmpo.substs = {v: g for v, g in allsub.items() if v in fv and v not in L.free_vars(g)}
    changed = str(after) != str(before)
    res = cmpo.compare(before, after, seeds, explicit_draws=case.get('draws'))
    for r in sorted(set(res.reasons)):
        H.inconc('recorded:' + r.split(':')[0] + (':' + r.split(':')[1] if r.startswith('confirm') and ':' in r else ''))
    if res.verdict == 'inconclusive' and changed and not antider:
        # the whole expression cannot be evaluated (oscillatory / principal-value integrals ...): compare the
        # rewritten sub-term pointwise instead; this can only ever establish 'same'
        a2, b2, extra, ivars2 = descend(before, after)
        if a2 is not before and not any(L.contains_ty(t, (L.INDEFINITEINTEGRAL, L.SKOLEMFUNC)) for t in (a2, b2)):
            sub = Comparator(cmpo.ev.defs, cmpo.conds + extra, {}, cmpo.int_vars | ivars2, limit_s=limit_s)
            r2 = sub.compare(a2, b2, seeds)
            if r2.verdict == 'same':
                res.verdict = 'same'
                H.note('recorded_same_by_rewritten_subterm')
    if res.verdict == 'differ':
        H.violation('recorded:value-changed:%s' % rname, dict(case, draws=res.draws),
                    '%s step %d of %s[%d].%s: rule %s maps\n  %s\nto\n  %s\n%s' % (
                        name, k, name, idx, path, step.rule, before, after, res.detail))
    klass = 'recorded:%s:%s' % (res.verdict if changed else 'unchanged', rname)
    H.case(case, nontrivial=(changed and res.verdict in ('same', 'differ')), klass=klass)


# ============================================================================================ generated rule applications
_base_ctx = {}


def base_context():
    """Context with the 'base' book (identities, function tables) loaded -- what every example file starts from."""
    if 'ctx' not in _base_ctx:
        ctx = context.Context()
        with quiet():
            ctx.load_book('base')
        _base_ctx['ctx'] = ctx
    return _base_ctx['ctx']


def P(s):
    try:
        with quiet():
            return parser.parse_expr(s)
    except Exception:
        raise CaseInvalid('unparsable: %r' % (s,))


RULE_BUILDERS = {
    'Simplify': lambda p: rules.Simplify(),
    'FullSimplify': lambda p: rules.FullSimplify(),
    'Linearity': lambda p: rules.Linearity(),
    'OnSubterm:Linearity': lambda p: rules.OnSubterm(rules.Linearity()),
    'Substitution': lambda p: rules.Substitution(str(p['var_name']), P(p['var_subst'])),
    'SubstitutionInverse': lambda p: rules.SubstitutionInverse(str(p['var_name']), P(p['var_subst'])),
    'IntegrationByParts': lambda p: rules.IntegrationByParts(P(p['u']), P(p['v'])),
    'SplitRegion': lambda p: rules.SplitRegion(P(p['c'])),
    'ExpandPolynomial': lambda p: rules.ExpandPolynomial(),
    'Equation': lambda p: rules.Equation(P(p['old_expr']) if p.get('old_expr') else None, P(p['new_expr'])),
    'ApplyIdentity': lambda p: rules.ApplyIdentity(P(p['source']), P(p['target'])),
    'ElimInfInterval': lambda p: rules.ElimInfInterval(P(p['a'])) if p.get('a') else rules.ElimInfInterval(),
    'LHopital': lambda p: rules.LHopital(),
    'DerivativeSimplify': lambda p: rules.DerivativeSimplify(),
    'OnSubterm:SimplifyPower': lambda p: rules.OnSubterm(rules.SimplifyPower()),
    'SimplifyPower': lambda p: rules.SimplifyPower(),
    'ReduceLimit': lambda p: rules.ReduceLimit(),
    'DefiniteIntegralIdentity': lambda p: rules.DefiniteIntegralIdentity(),
    'OnSubterm:ReduceLimit': lambda p: rules.OnSubterm(rules.ReduceLimit()),
    'OnSubterm:DerivativeSimplify': lambda p: rules.OnSubterm(rules.DerivativeSimplify()),
    'DerivIntExchange': lambda p: rules.DerivIntExchange(),
    'OnSubterm:DerivIntExchange': lambda p: rules.OnSubterm(rules.DerivIntExchange()),     # how app/integral.py applies it
}
ATTR_SEEDS = [11, 12, 13, 14, 15, 16, 17, 18]
FULLSIMP_COMPONENTS = ['Simplify', 'OnSubterm:SimplifyPower', 'OnSubterm:ReduceLimit', 'OnSubterm:Linearity',
                       'OnSubterm:DerivativeSimplify']


def minimal_failing_subterm(e, test, limit=40):
    """Smallest proper sub-term (by size, then text) on which `test` still fails; e itself if none does."""
    seen, cands = set(), []
    for t in L.subterms(e):
        k = str(t)
        if k not in seen and t.ty not in (L.VAR, L.CONST, L.INF):
            seen.add(k)
            cands.append(t)
    cands.sort(key=lambda t: (t.size(), str(t)))
    for t in cands[:limit]:
        if t.size() >= e.size():
            break
        try:
            if test(t):
                return t
        except (Inconc, CaseInvalid, Timeout):
            continue
        except Exception:
            continue
    return e


def head_feature(t):
    if t.ty == L.OP:
        if len(t.args) == 1:
            return 'uminus'
        if t.op == '^':
            b, x = t.args
            if b.ty == L.OP and b.op == '^':
                return 'power-of-power'
            if b.ty == L.OP and b.op == '/' and b.args[1].ty == L.OP and b.args[1].op == '^':
                return 'power-of-power'
            if x.ty == L.CONST and isinstance(x.val, int):
                return 'int-power'
            if x.ty == L.CONST:
                return 'rational-power'
            return 'symbolic-power'
        return 'op' + t.op
    if t.ty == L.FUN:
        return str(t.func_name)
    if t.ty == L.LIMIT:
        return 'limit-at-infinity' if t.lim.ty == L.INF else 'finite-limit'
    return {L.INTEGRAL: 'integral', L.SUMMATION: 'sum', L.DERIV: 'deriv', L.EVAL_AT: 'evalat',
            L.INDEFINITEINTEGRAL: 'indef-integral'}.get(t.ty, 'other')


def reversed_bounds(t):
    """The integral t has constant bounds with lower > upper (as SplitRegion with a point outside the interval, or a
    user, writes them): its value is minus the integral over the ordered interval."""
    if t.ty != L.INTEGRAL or L.free_vars(t.lower) or L.free_vars(t.upper):
        return False
    try:
        with mp.workdps(30):
            ev = L.Evaluator()
            return ev.value_or_inf(t.lower, {}) > ev.value_or_inf(t.upper, {})
    except Inconc:
        return False


def noninjective_part(g, var):
    """Which operation makes g non-injective as a function of var (the inverse has several branches)."""
    names = []
    for t in L.subterms(g):
        if t.ty == L.OP and t.op == '^' and len(t.args) == 2 and var in L.free_vars(t.args[0]) and t.args[1].ty == L.CONST:
            c = Fraction(t.args[1].val)
            if c.numerator % 2 == 0:
                return 'even-power'
        elif t.ty == L.FUN and str(t.func_name) in ('sin', 'cos', 'tan', 'cot', 'sec', 'csc', 'abs', 'cosh') and \
                any(var in L.free_vars(a) for a in t.args):
            names.append(str(t.func_name))
    return names[0] if names else 'other'


def _first(e, ty, pred=None):
    for t in L.subterms(e):
        if t.ty == ty and (pred is None or pred(t)):
            return t
    return None


def monotone_on(g, var, lo_e, hi_e, env_fr):
    """'monotone' / 'not-monotone' / 'unknown': is g (as a function of var) continuous and strictly monotone on the
    interval, judged from 96 sample points (independent numeric probe, only used to pick the signature)."""
    ev = L.Evaluator()
    try:
        with mp.workdps(30):
            env = {k: mpf(x.numerator) / x.denominator for k, x in env_fr.items()}
            a, b = ev.value_or_inf(lo_e, env), ev.value_or_inf(hi_e, env)
            if a > b:
                a, b = b, a
            if a == b:
                return 'unknown'
            vals = []
            n = 96
            for i in range(1, n):
                t = mpf(i) / n
                if mp.isfinite(a) and mp.isfinite(b):
                    x = a + (b - a) * t
                elif mp.isfinite(a):
                    x = a + t / (1 - t)
                elif mp.isfinite(b):
                    x = b - (1 - t) / t
                else:
                    x = (2 * t - 1) / (t * (1 - t))
                env[var] = x
                vals.append(ev.value(g, env))
            inc = all(p < q for p, q in zip(vals, vals[1:]))
            dec = all(p > q for p, q in zip(vals, vals[1:]))
            if not (inc or dec):
                return 'not-monotone'
            # a jump (pole) shows as one step that dwarfs the others
            steps = sorted(abs(q - p) for p, q in zip(vals, vals[1:]))
            return 'monotone'
    except Inconc:
        return 'not-monotone'     # undefined somewhere inside the interval
    except Exception:
        return 'unknown'


def _rule_changes_value(rname, params, t, ctx, conds):
    with quiet(), time_limit(10):
        aft = RULE_BUILDERS[rname](params).eval(copy.deepcopy(t), ctx)
    if not hasattr(aft, 'ty') or str(aft) == str(t):
        return False
    c = Comparator({}, conds or [], {}, int_variables([t, aft]), limit_s=2.0)
    return c.compare(t, aft, ATTR_SEEDS).verdict == 'differ'


def _ordered(t):
    """The same term with the bounds of every integral whose constant bounds are in descending order exchanged
    (built with the public constructors; the value of such an integral changes sign, which does not matter here)."""
    if t.ty == L.INTEGRAL:
        lo, hi = (t.upper, t.lower) if reversed_bounds(t) else (t.lower, t.upper)
        return expr.Integral(t.var, _ordered(lo), _ordered(hi), _ordered(t.body))
    if t.ty == L.OP:
        return expr.Op(t.op, *[_ordered(a) for a in t.args])
    if t.ty == L.FUN:
        return expr.Fun(t.func_name, *[_ordered(a) for a in t.args])
    if t.ty == L.LIMIT:
        return expr.Limit(t.var, _ordered(t.lim), _ordered(t.body), t.drt)
    if t.ty == L.DERIV:
        return expr.Deriv(t.var, _ordered(t.body))
    return t


def only_with_reversed_bounds(e, fails):
    """e (on which `fails` holds) contains an integral with constant bounds in descending order, and `fails` does not
    hold for the same term with these bounds in ascending order: the order of the bounds is what matters."""
    if not any(t.ty == L.INTEGRAL and reversed_bounds(t) for t in L.subterms(e)):
        return False
    try:
        return not fails(_ordered(e))
    except (Inconc, CaseInvalid, Timeout):
        return False
    except Exception:
        return True           # the rule rejects the ordered form


def failing_feature(e, fails):
    """Feature of the smallest sub-term of e on which `fails` still holds."""
    sub = minimal_failing_subterm(e, fails)
    if only_with_reversed_bounds(sub, fails):
        return 'integral-with-reversed-bounds'
    return head_feature(sub)


def _two_sided(t):
    """The same term with the direction of every limit removed (built with the public constructors)."""
    if t.ty == L.LIMIT:
        return expr.Limit(t.var, _two_sided(t.lim), _two_sided(t.body))
    if t.ty == L.OP:
        return expr.Op(t.op, *[_two_sided(a) for a in t.args])
    if t.ty == L.FUN:
        return expr.Fun(t.func_name, *[_two_sided(a) for a in t.args])
    if t.ty == L.INTEGRAL:
        return expr.Integral(t.var, _two_sided(t.lower), _two_sided(t.upper), _two_sided(t.body))
    return t


def attribute(rname, e, params, after, env_fr, ctx, conds):
    """(call site, feature) for the signature: composite rules are attributed to the component rule that alone
    reproduces the value change on the smallest failing sub-term, so that one root cause gets one signature."""
    def safe(rn, t, pr=None):
        try:
            return _rule_changes_value(rn, pr or {}, t, ctx, conds)
        except Exception:
            return False
    if rname == 'Equation':
        try:
            old = P(params['old_expr']) if params.get('old_expr') else e
            new = P(params['new_expr'])
            for t in (old, new):
                if safe('FullSimplify', t):
                    return attribute('FullSimplify', t, {}, None, env_fr, ctx, conds)
        except CaseInvalid:
            pass
        return 'Equation', feature_of(rname, e, params, after, env_fr, ctx, conds)
    if rname == 'FullSimplify':
        sub = minimal_failing_subterm(e, lambda t: _rule_changes_value('FullSimplify', {}, t, ctx, conds))
        for variant in (sub, _two_sided(sub)):
            for comp in FULLSIMP_COMPONENTS:
                if safe(comp, variant):
                    return comp.replace('OnSubterm:', ''), failing_feature(variant, lambda t: _rule_changes_value(comp, {}, t, ctx, conds))
        # no component fails on its own: walk through the pipeline and find the first stage that changes the value
        cur = sub
        for comp in ['OnSubterm:Linearity', 'Simplify', 'OnSubterm:DerivativeSimplify', 'OnSubterm:SimplifyPower',
                     'OnSubterm:ReduceLimit'] * 2:
            try:
                with quiet(), time_limit(10):
                    nxt = RULE_BUILDERS[comp]({}).eval(copy.deepcopy(cur), ctx)
            except Exception:
                break
            if str(nxt) != str(cur):
                c = Comparator({}, conds or [], {}, int_variables([cur, nxt]), limit_s=2.0)
                if c.compare(cur, nxt, ATTR_SEEDS).verdict == 'differ':
                    return comp.replace('OnSubterm:', ''), failing_feature(cur, lambda t: _rule_changes_value(comp, {}, t, ctx, conds))
            cur = nxt
        return 'FullSimplify', head_feature(sub)
    return rname.replace('OnSubterm:', ''), feature_of(rname, e, params, after, env_fr, ctx, conds)


def feature_of(rname, e, params, after, env_fr=None, ctx=None, conds=None):
    """A coarse input feature that separates root causes at one rule (used in signatures)."""
    env_fr = env_fr or {}

    def has(ty):
        return L.contains_ty(e, (ty,))
    if ctx is not None and rname not in ('Equation', 'ApplyIdentity', 'Simplify', 'FullSimplify', 'ExpandPolynomial',
                                         'OnSubterm:SimplifyPower', 'SimplifyPower', 'ReduceLimit', 'Linearity', 'OnSubterm:Linearity') and \
            only_with_reversed_bounds(e, lambda t: _rule_changes_value(rname, params, t, ctx, conds)):
        return 'integral-with-reversed-bounds'
    if rname in ('DerivIntExchange', 'OnSubterm:DerivIntExchange'):
        for t in L.subterms(e):
            if t.ty == L.INTEGRAL and t.body.ty == L.DERIV:
                moving = str(t.body.var) in (L.free_vars(t.lower) | L.free_vars(t.upper))
                return 'integral-of-derivative' + ('-with-bounds-depending-on-the-variable' if moving else '')
            if t.ty == L.DERIV and t.body.ty == L.INTEGRAL:
                moving = str(t.var) in (L.free_vars(t.body.lower) | L.free_vars(t.body.upper))
                return 'derivative-of-integral' + ('-with-bounds-depending-on-the-variable' if moving else '')
            if t.ty in (L.DERIV, L.INDEFINITEINTEGRAL) and t.body.ty in (L.DERIV, L.INDEFINITEINTEGRAL):
                return 'antiderivative'
        return 'other'
    if rname == 'Substitution':
        it = _first(e, L.INTEGRAL)
        try:
            g = P(params.get('var_subst', ''))
            m = monotone_on(g, str(it.var), it.lower, it.upper, env_fr)
            if m == 'monotone':
                # a wrong branch of the inverse can only be taken when g is not injective on the whole line
                wide = monotone_on(g, str(it.var), expr.Const(-7), expr.Const(7), env_fr)
                m = 'monotone-everywhere' if wide == 'monotone' else 'monotone-on-the-interval-only'
                if m == 'monotone-on-the-interval-only' and noninjective_part(g, str(it.var)) == 'even-power':
                    return 'g-even-power-monotone-on-the-interval-only'
            return 'g-' + m
        except Exception:
            return 'g-unknown'
    if rname == 'SubstitutionInverse':
        # x = h(u) must map the new interval monotonically onto the old one
        v = str(params.get('var_name'))
        new = _first(after, L.INTEGRAL, lambda t: str(t.var) == v)
        old = _first(e, L.INTEGRAL)
        try:
            h = P(params.get('var_subst', ''))
            ok = monotone_on(h, v, new.lower, new.upper, env_fr) == 'monotone'
            if ok:
                ev = L.Evaluator()
                with mp.workdps(30):
                    env = {k: mpf(x.numerator) / x.denominator for k, x in env_fr.items()}
                    ends = []
                    for bnd in (new.lower, new.upper):
                        pt = ev.value_or_inf(bnd, env)
                        if mp.isfinite(pt):
                            try:
                                ends.append(ev._at_point(ev.compile(h), dict(env), v, pt, None))
                            except Inconc:
                                ends.append(None)          # a pole of h at the end point
                        else:
                            env2 = dict(env)
                            env2[v] = mpf(10) ** 9 if pt > 0 else -mpf(10) ** 9
                            big = ev.value(h, env2)
                            ends.append(mp.inf if big > 10 ** 6 else (-mp.inf if big < -10 ** 6 else big))
                    olds = [ev.value_or_inf(old.lower, env), ev.value_or_inf(old.upper, env)]

                    def agrees(g, o):
                        if g is None:
                            return True
                        if mp.isinf(g) or mp.isinf(o):
                            return g == o
                        return L.close(g, o, mpf(10) ** (-4))
                    ok = any(all(agrees(g, o) for g, o in zip(got, olds)) for got in (ends, ends[::-1]))
            return 'h-maps-interval-onto-interval' if ok else 'h-does-not-map-new-interval-onto-old'
        except Exception:
            return 'h-unknown'
    if rname == 'LHopital':
        lim = _first(e, L.LIMIT)
        try:
            num, den = lim.body.args
            ev = L.Evaluator()
            kinds = []
            with mp.workdps(30):
                env = {k: mpf(x.numerator) / x.denominator for k, x in env_fr.items()}
                pt = ev.value_or_inf(lim.lim, env)
                for part in (num, den):
                    try:
                        v = ev._limit(ev.compile(part), dict(env), str(lim.var), pt, lim.drt)
                        kinds.append('0' if abs(v) < mpf(10) ** (-9) else 'finite')
                    except Inconc as ex:
                        kinds.append('inf' if ex.reason in ('limit-nonfinite', 'limit-not-converged', 'limit-pole') else 'unknown')
            if kinds in (['0', '0'], ['inf', 'inf']):
                return 'indeterminate-form'
            if 'unknown' in kinds:
                return 'unknown-form'
            return 'not-indeterminate-form'
        except Exception:
            return 'unknown-form'
    if rname == 'ApplyIdentity':
        try:
            src = P(params.get('source', ''))
            if src.ty == L.FUN:
                return 'source-' + str(src.func_name)
            if src.ty == L.OP:
                if src.op == '^' and src.args[0].ty == L.OP and src.args[0].op == '^':
                    return 'source-power-of-power'
                if src.op == '^' and src.args[0].ty == L.OP:
                    return 'source-power-of-' + {'*': 'product', '/': 'quotient'}.get(src.args[0].op, 'other')
                if src.op == '*' and all(a.ty == L.OP and a.op == '^' for a in src.args):
                    return 'source-product-of-powers'
                return 'source-op' + src.op
        except CaseInvalid:
            pass
        return 'source-other'
    if rname == 'SplitRegion':
        return 'limit-form' if L.contains_ty(after, (L.LIMIT,)) else 'plain'
    if rname in ('Simplify', 'FullSimplify', 'ExpandPolynomial', 'OnSubterm:SimplifyPower', 'SimplifyPower', 'ReduceLimit',
                 'Linearity', 'OnSubterm:Linearity') and ctx is not None:
        return failing_feature(e, lambda t: _rule_changes_value(rname, params, t, ctx, conds))
    if rname == 'Equation':
        try:
            old = P(params['old_expr']) if params.get('old_expr') else e
        except CaseInvalid:
            old = e
        try:
            # both sides are sums / differences of definite integrals (and other terms): do the integrals range over
            # one and the same interval?
            terms = sum_terms(old) + sum_terms(P(params.get('new_expr', '0')))
            ints = [t for t in terms if t.ty == L.INTEGRAL]
            if len(ints) >= 2 and len(terms) >= 3:
                # (a term c that is not an integral counts as INT x:[0,1]. c, which is how the rule itself reads it)
                if len(set((str(t.lower), str(t.upper)) if t.ty == L.INTEGRAL else ('0', '1') for t in terms)) > 1:
                    return 'sum-of-integrals-over-different-intervals'
        except CaseInvalid:
            pass
        big = old if old.size() >= 2 else P(params.get('new_expr', 'x'))
        feats = [head_feature(t) for t in L.subterms(big) if t.ty in (L.OP, L.FUN)]
        for f in ('power-of-power', 'rational-power', 'symbolic-power', 'sqrt', 'abs', 'log', 'exp', 'atan'):
            if f in feats:
                return f
        return feats[0] if feats else 'other'
    if rname == 'ReduceLimit':
        return 'at-infinity' if 'oo' in str(getattr(e, 'lim', '')) else 'finite'
    return 'any'


def sum_terms(t):
    """The summands of a sum / difference (signs dropped)."""
    if t.ty == L.OP and t.op in ('+', '-') and len(t.args) == 2:
        return sum_terms(t.args[0]) + sum_terms(t.args[1])
    if t.ty == L.OP and len(t.args) == 1:
        return sum_terms(t.args[0])
    return [t]


def bound_only_vars(e):
    bound = set()
    for t in L.subterms(e):
        if t.ty in (L.INTEGRAL, L.EVAL_AT, L.LIMIT, L.DERIV):
            bound.add(str(t.var))
        elif t.ty == L.SUMMATION:
            bound.add(str(t.index_var))
    return bound - L.free_vars(e)


def admissible_conds(e, conds):
    """Context conditions speak about parameters.  A condition on a name that only occurs bound in e is a name clash
    that real calculations do not contain (the rules add the range of a bound variable themselves): drop it."""
    bo = bound_only_vars(e)
    keep = [c for c in conds if not (L.free_vars(c) & bo)]
    return keep, [str(c) for c in keep]


def run_rule_case(case, H, limit_s=5.0):
    try:
        rname = str(case['rule'])
        e_str = str(case['e'])
        params = case.get('params') or {}
        cond_strs = [str(c) for c in case.get('conds', [])]
        seeds = [int(s) for s in case.get('seeds', [1, 2, 3])]
        if not isinstance(params, dict):
            raise TypeError
    except (KeyError, TypeError, ValueError):
        raise CaseInvalid('rule case')
    if rname not in RULE_BUILDERS:
        raise CaseInvalid('unknown rule')
    e = P(e_str)
    conds = [P(c) for c in cond_strs]
    for c in conds:
        if not (c.ty == L.OP and c.op in L.REL_OPS):
            raise CaseInvalid('condition')
    conds, cond_strs = admissible_conds(e, conds)
    try:
        rule = RULE_BUILDERS[rname](params)
    except CaseInvalid:
        raise
    except (KeyError, TypeError, AssertionError):
        raise CaseInvalid('rule parameters')
    ctx = context.Context(base_context())
    for c in conds:
        ctx.add_condition(c)
    try:
        with quiet(), time_limit(10):
            after = rule.eval(copy.deepcopy(e), ctx)
    except Timeout:
        H.inconc('rule-timeout')
        H.case(case, False, 'gen:timeout:' + rname)
        return
    except Exception as ex:
        H.case(case, False, 'gen:rejected:' + rname)
        H.note('gen_rule_raised:%s:%s' % (rname, type(ex).__name__))
        return
    if not hasattr(after, 'ty'):
        H.case(case, False, 'gen:rejected:' + rname)
        return
    check_roundtrip(after, H, case, 'result-of-' + rname)
    changed = str(after) != str(e)
    if not changed:
        H.case(case, False, 'gen:unchanged:' + rname)
        return
    ivars = int_variables([e, after] + conds)
    substs = {}
    cmpo = Comparator({}, conds, substs, ivars, limit_s=limit_s)
    res = cmpo.compare(e, after, seeds, explicit_draws=case.get('draws'))
    for r in sorted(set(res.reasons)):
        H.inconc('gen:' + r.split(':')[0])
    if res.verdict == 'differ':
        env0 = {k: Fraction(v) for k, v in (res.draws[0] if res.draws else {}).items()}
        if rname == 'DerivativeSimplify' and e.ty == L.DERIV:
            sig = 'deriv:wrong-derivative:%s' % deriv_feature(e.body, str(e.var), ctx, conds)
        else:
            sig = 'rule:value-changed:%s:%s' % attribute(rname, e, params, after, env0, ctx, conds)
        H.violation(sig,
                    dict(case, draws=res.draws),
                    'rule %s %s maps\n  %s\nto\n  %s\nunder conditions %s\n%s' % (
                        rname, json.dumps(params, sort_keys=True), e, after, cond_strs, res.detail))
    H.case(case, nontrivial=res.verdict in ('same', 'differ'), klass='gen:%s:%s' % (res.verdict, rname))


# ---------------------------------------------------------------- print / parse round trip
def check_roundtrip(e, H, case, where):
    try:
        s = str(e)
    except Exception as ex:
        H.note('print_raised:' + type(ex).__name__)
        return None
    try:
        with quiet():
            back = parser.parse_expr(s)
    except Exception as ex:
        H.violation('roundtrip:unparsable:%s' % rt_feature(e), {'kind': 'roundtrip', 'tree': tree_of(e)},
                    '%s: str(e) = %r does not parse (%s)' % (where, s, type(ex).__name__))
        return False
    try:
        reflexive = (e == copy.deepcopy(e))
    except Exception:
        reflexive = True
    if not reflexive:
        H.violation('expr-eq:not-reflexive:%s' % eq_feature(e), {'kind': 'roundtrip', 'tree': tree_of(e)},
                    '%s: e = %r is not equal to a structural copy of itself' % (where, e))
        return False
    if back != e:
        H.violation('roundtrip:differs:%s' % rt_feature(e, back), {'kind': 'roundtrip', 'tree': tree_of(e)},
                    '%s: e = %r prints as %r which parses to %r' % (where, e, s, back))
        return False
    return True


def tree_of(e):
    """JSON form of an expression tree (so that trees the parser cannot produce are representable)."""
    t = e.ty
    if t == L.VAR:
        return ['var', str(e.name)]
    if t == L.CONST:
        return ['const', str(e.val)]
    if t == L.OP:
        return ['op', str(e.op)] + [tree_of(a) for a in e.args]
    if t == L.FUN:
        return ['fun', str(e.func_name)] + [tree_of(a) for a in e.args]
    if t == L.INF:
        return ['inf', str(e)]
    if t == L.INTEGRAL:
        return ['int', str(e.var), tree_of(e.lower), tree_of(e.upper), tree_of(e.body)]
    if t == L.EVAL_AT:
        return ['evalat', str(e.var), tree_of(e.lower), tree_of(e.upper), tree_of(e.body)]
    if t == L.LIMIT:
        return ['lim', str(e.var), tree_of(e.lim), tree_of(e.body), e.drt]
    if t == L.DERIV:
        return ['deriv', str(e.var), tree_of(e.body)]
    if t == L.SUMMATION:
        return ['sum', str(e.index_var), tree_of(e.lower), tree_of(e.upper), tree_of(e.body)]
    if t == L.INDEFINITEINTEGRAL:
        return ['indef', str(e.var), tree_of(e.body), [str(a) for a in e.skolem_args]]
    if t == L.SKOLEMFUNC:
        return ['skolem', str(e.name)] + [tree_of(a) for a in e.dependent_vars]
    raise CaseInvalid('tree_of')


def expr_of_tree(t):
    try:
        tag = t[0]
        if tag == 'var':
            if not re.match(r'^[a-z]\w*$', t[1]) or t[1] in ('pi', 'oo', 'inf'):
                raise CaseInvalid('name')
            return expr.Var(t[1])
        if tag == 'const':
            return expr.Const(Fraction(t[1]) if '/' in t[1] else int(t[1]))
        if tag == 'op':
            args = [expr_of_tree(a) for a in t[2:]]
            if t[1] == '/' and len(args) == 2 and args[1].ty == L.CONST and args[1].val == 0:
                raise CaseInvalid('division by the constant 0')
            # negation and quotients are built the way the calculator's own code builds them (operators of Expr)
            if t[1] == '-' and len(args) == 1:
                return -args[0]
            if t[1] == '/' and len(args) == 2:
                return args[0] / args[1]
            return expr.Op(t[1], *args)
        if tag == 'fun':
            return expr.Fun(t[1], *[expr_of_tree(a) for a in t[2:]])
        if tag == 'inf':
            return expr.POS_INF if t[1] == 'oo' else expr.NEG_INF
        if tag == 'int':
            return expr.Integral(t[1], expr_of_tree(t[2]), expr_of_tree(t[3]), expr_of_tree(t[4]))
        if tag == 'evalat':
            return expr.EvalAt(t[1], expr_of_tree(t[2]), expr_of_tree(t[3]), expr_of_tree(t[4]))
        if tag == 'lim':
            return expr.Limit(t[1], expr_of_tree(t[2]), expr_of_tree(t[3]), t[4])
        if tag == 'deriv':
            return expr.Deriv(t[1], expr_of_tree(t[2]))
        if tag == 'sum':
            return expr.Summation(t[1], expr_of_tree(t[2]), expr_of_tree(t[3]), expr_of_tree(t[4]))
        if tag == 'indef':
            return expr.IndefiniteIntegral(t[1], expr_of_tree(t[2]), tuple(t[3]))
        if tag == 'skolem':
            return expr.SkolemFunc(t[1], tuple(expr_of_tree(a) for a in t[2:]))
    except CaseInvalid:
        raise
    except Exception:
        raise CaseInvalid('tree')
    raise CaseInvalid('tree tag')


def eq_feature(e):
    best = None
    for t in L.subterms(e):
        try:
            ok = (t == copy.deepcopy(t))
        except Exception:
            ok = True
        if not ok and (best is None or t.size() < best.size()):
            best = t
    t = best if best is not None else e
    if any(x.ty == L.LIMIT and x.drt is not None for x in L.subterms(t)):
        return 'one-sided-limit-under-binder'
    return {L.INTEGRAL: 'integral', L.INDEFINITEINTEGRAL: 'indef-integral', L.SUMMATION: 'sum'}.get(t.ty, 'other')


def rt_feature(e, back=None):
    """Which construct breaks the round trip: the smallest sub-term that does not survive on its own."""
    best = None
    for t in L.subterms(e):
        try:
            with quiet():
                b = parser.parse_expr(str(t))
            ok = (b == t)
        except Exception:
            ok = False
        if not ok:
            if best is None or t.size() < best.size():
                best = t
    t = best if best is not None else e
    if t.ty == L.OP and len(t.args) == 1 and t.args[0].ty == L.CONST:
        return 'uminus-of-constant'
    if t.ty == L.OP and t.op == '/' and all(a.ty == L.CONST for a in t.args):
        return 'quotient-of-constants'
    if t.ty == L.OP:
        kids = []
        for a in t.args:
            if a.ty == L.CONST:
                kids.append('negconst' if a.val < 0 else ('frac' if isinstance(a.val, Fraction) and a.val.denominator != 1 else 'const'))
            elif a.ty == L.OP:
                kids.append('uminus' if len(a.args) == 1 else 'op' + a.op)
            else:
                kids.append({L.VAR: 'var', L.FUN: 'fun'}.get(a.ty, 'other'))
        return 'op%s(%s)' % (t.op if len(t.args) == 2 else 'neg', ','.join(kids))
    return {L.CONST: 'const', L.FUN: 'fun', L.LIMIT: 'limit', L.INTEGRAL: 'integral', L.SUMMATION: 'sum',
            L.EVAL_AT: 'evalat', L.DERIV: 'deriv', L.INDEFINITEINTEGRAL: 'indef', L.SKOLEMFUNC: 'skolem'}.get(t.ty, 'other')


def run_roundtrip_case(case, H):
    try:
        e = expr_of_tree(case.get('tree'))
    except CaseInvalid:
        if getattr(H, 'exploring', False):
            H.note('roundtrip_tree_outside_domain')
            return
        raise
    ok = check_roundtrip(e, H, case, 'constructed tree')
    H.case(case, nontrivial=e.size() >= 3, klass='roundtrip:%s' % ('ok' if ok else 'fails'))


# ---------------------------------------------------------------- deriv against mpmath.diff
def deriv_feature(e, var, ctx, conds):
    def test(t):
        with quiet(), time_limit(10):
            d = rules.deriv(var, copy.deepcopy(t), ctx)
        c = Comparator({}, conds, {}, int_variables([t]), limit_s=2.0)
        return c.compare(expr.Deriv(var, t), d, ATTR_SEEDS).verdict == 'differ'
    return head_feature(minimal_failing_subterm(e, test))


def run_deriv_case(case, H, limit_s=5.0):
    e = P(str(case.get('e')))
    var = str(case.get('var', 'x'))
    conds = [P(str(c)) for c in case.get('conds', [])]
    seeds = [int(s) for s in case.get('seeds', [1, 2, 3])]
    ctx = context.Context(base_context())
    for c in conds:
        ctx.add_condition(c)
    try:
        with quiet(), time_limit(10):
            d = rules.deriv(var, copy.deepcopy(e), ctx)
    except Timeout:
        H.inconc('rule-timeout')
        H.case(case, False, 'deriv:timeout')
        return
    except Exception as ex:
        H.case(case, False, 'deriv:rejected')
        H.note('deriv_raised:' + type(ex).__name__)
        return
    check_roundtrip(d, H, case, 'result-of-deriv')
    before = expr.Deriv(var, e)
    cmpo = Comparator({}, conds, {}, int_variables([e] + conds), limit_s=limit_s)
    res = cmpo.compare(before, d, seeds, explicit_draws=case.get('draws'))
    for r in sorted(set(res.reasons)):
        H.inconc('deriv:' + r.split(':')[0])
    if res.verdict == 'differ':
        feat = deriv_feature(e, var, ctx, conds)
        H.violation('deriv:wrong-derivative:%s' % feat, dict(case, draws=res.draws),
                    'deriv(%s, %s) = %s\n%s' % (var, e, d, res.detail))
    H.case(case, nontrivial=res.verdict in ('same', 'differ') and var in L.free_vars(e), klass='deriv:' + res.verdict)


# ---------------------------------------------------------------- normalize: value and idempotence
def has_repeated_base(e):
    """Some product / quotient in e mentions the same base twice (x * x, x ^ a * x ^ b, x / (x * x))."""
    def factors(t, acc):
        if t.ty == L.OP and t.op in ('*', '/') and len(t.args) == 2:
            factors(t.args[0], acc)
            factors(t.args[1], acc)
        elif t.ty == L.OP and t.op == '^':
            acc.append(str(t.args[0]))
        elif t.ty != L.CONST:
            acc.append(str(t))
    for t in L.subterms(e):
        if t.ty == L.OP and t.op in ('*', '/') and len(t.args) == 2:
            acc = []
            factors(t, acc)
            if len(acc) != len(set(acc)):
                return True
    return False


def run_normalize_case(case, H, limit_s=5.0):
    e = P(str(case.get('e')))
    conds = [P(str(c)) for c in case.get('conds', [])]
    conds, _ = admissible_conds(e, conds)
    seeds = [int(s) for s in case.get('seeds', [1, 2, 3])]
    cd = conditions.Conditions(conds)
    try:
        with quiet(), time_limit(10):
            n1 = poly.normalize(copy.deepcopy(e), cd)
            n2 = poly.normalize(copy.deepcopy(n1), cd)
    except Timeout:
        H.inconc('rule-timeout')
        H.case(case, False, 'normalize:timeout')
        return
    except Exception as ex:
        H.case(case, False, 'normalize:rejected')
        H.note('normalize_raised:' + type(ex).__name__)
        return
    check_roundtrip(n1, H, case, 'result-of-normalize')
    if n1 != n2:
        H.violation('normalize:not-idempotent:%s' % ('repeated-base-in-product' if has_repeated_base(n1) else failing_feature(
            e, lambda t: poly.normalize(poly.normalize(copy.deepcopy(t), cd), cd) != poly.normalize(copy.deepcopy(t), cd))), case,
                    'normalize(%s) = %s but normalizing again gives %s' % (e, n1, n2))
    cmpo = Comparator({}, conds, {}, int_variables([e] + conds), limit_s=limit_s)
    res = cmpo.compare(e, n1, seeds, explicit_draws=case.get('draws'))
    for r in sorted(set(res.reasons)):
        H.inconc('normalize:' + r.split(':')[0])
    if res.verdict == 'differ':
        nctx = context.Context(base_context())
        for c in conds:
            nctx.add_condition(c)
        H.violation('rule:value-changed:Simplify:%s' % feature_of('Simplify', e, {}, n1, None, nctx, conds), dict(case, draws=res.draws),
                    'normalize(%s) = %s under %s\n%s' % (e, n1, [str(c) for c in conds], res.detail))
    H.case(case, nontrivial=(str(n1) != str(e) and res.verdict in ('same', 'differ')), klass='normalize:' + res.verdict)


# ---------------------------------------------------------------- interval bounds enclose sampled values
def run_endpoint_case(case, H):
    """Open / closed ends of the reported interval: at a point where a CLOSED condition is tight (x <= 2 at x = 2) the
    value of the expression is attained, so it must not coincide with an end of the interval that is reported as open
    (and must lie inside, as everywhere).  Polynomial expressions at rational points, evaluated at 50 digits."""
    e = P(str(case.get('e')))
    conds = [P(str(c)) for c in case.get('conds', [])]
    cd = conditions.Conditions(conds)
    try:
        with quiet(), time_limit(10):
            iv = cd.get_bounds_for_expr(copy.deepcopy(e))
    except Timeout:
        H.inconc('rule-timeout')
        H.case(case, False, 'bounds-endpoint:timeout')
        return
    except Exception as ex:
        H.case(case, False, 'bounds-endpoint:rejected')
        H.note('bounds_raised:' + type(ex).__name__)
        return
    if iv is None:
        H.case(case, False, 'bounds-endpoint:none')
        return
    ev = L.Evaluator()
    n_ok, hit, out = 0, 0, None
    for d in case.get('draws') or []:
        try:
            env_fr = {str(k): Fraction(v) for k, v in d.items()}
        except (ValueError, TypeError, ZeroDivisionError):
            raise CaseInvalid('draw')
        with mp.workdps(50):
            env = {k: mpf(x.numerator) / x.denominator for k, x in env_fr.items()}
            try:
                if not all(ev.truth(c, env) for c in conds):
                    continue
                v = ev.value(e, env)
                lo, hi = ev.value_or_inf(iv.start, {}), ev.value_or_inf(iv.end, {})
            except Inconc as ex:
                H.inconc('bounds:' + ex.reason.split(':')[0])
                continue
            n_ok += 1
            tol = mpf(10) ** (-40) * (1 + abs(v))
            at_lo, at_hi = abs(v - lo) < tol, abs(v - hi) < tol
            hit += 1 if (at_lo or at_hi) else 0
            eps = mpf(10) ** (-9) * (1 + abs(v))
            if out is None and ((iv.left_open and at_lo) or (iv.right_open and at_hi)):
                out = ('open-end-attained', env_fr, v)
            elif out is None and (v < lo - eps or v > hi + eps):
                out = ('value-outside-interval', env_fr, v)
    if out is not None:
        what, env_fr, v = out
        H.violation('bounds:%s:%s' % (what, head_feature(e)),
                    dict(case, draws=[{k: str(x) for k, x in sorted(env_fr.items())}]),
                    'get_bounds_for_expr(%s) under %s is %s, but at %s (which satisfies the conditions) the value is %s' % (
                        e, [str(c) for c in conds], iv, {k: str(x) for k, x in sorted(env_fr.items())}, mp.nstr(v, 15)))
    H.case(case, nontrivial=(n_ok > 0), klass='bounds-endpoint:%s' % (
        'violated' if out else ('value-at-an-end' if hit else ('enclosed' if n_ok else 'no-admissible-point'))))


def run_bounds_case(case, H):
    if case.get('endpoint'):
        return run_endpoint_case(case, H)
    e = P(str(case.get('e')))
    conds = [P(str(c)) for c in case.get('conds', [])]
    seeds = [int(s) for s in case.get('seeds', [1, 2, 3, 4, 5, 6])]
    cd = conditions.Conditions(conds)
    try:
        with quiet(), time_limit(10):
            iv = cd.get_bounds_for_expr(copy.deepcopy(e))
    except Timeout:
        H.inconc('rule-timeout')
        H.case(case, False, 'bounds:timeout')
        return
    except Exception as ex:
        H.case(case, False, 'bounds:rejected')
        H.note('bounds_raised:' + type(ex).__name__)
        return
    if iv is None:
        H.case(case, False, 'bounds:none')
        return
    ev = L.Evaluator()
    out = None
    trivial = str(iv.start) == '-oo' and str(iv.end) == 'oo'
    n_ok = 0
    fv = L.free_vars(e)
    for c in conds:
        fv |= L.free_vars(c)
    draws = []
    for d in case.get('draws') or []:
        try:
            draws.append({str(k): Fraction(v) for k, v in d.items()})
        except (ValueError, TypeError, ZeroDivisionError):
            raise CaseInvalid('draw')
    for sd in seeds:
        try:
            env_fr, _ = draw_env(sd, fv, conds, set(), ev, tries=100)
            draws.append(env_fr)
        except DrawFailed:
            H.inconc('bounds:draw-failed')
    for env_fr in draws:
        verdicts = []
        for dps in (30, 50):
            with mp.workdps(dps):
                env = {k: mpf(x.numerator) / x.denominator for k, x in env_fr.items()}
                try:
                    if not all(ev.truth(c, env) for c in conds):
                        verdicts.append(None)
                        continue
                    v = ev.value(e, env)
                    lo = -mp.inf if str(iv.start) == '-oo' else (mp.inf if str(iv.start) == 'oo' else ev.value(iv.start, {}))
                    hi = mp.inf if str(iv.end) == 'oo' else (-mp.inf if str(iv.end) == '-oo' else ev.value(iv.end, {}))
                except Inconc as ex:
                    H.inconc('bounds:' + ex.reason.split(':')[0])
                    verdicts.append(None)
                    continue
                eps = mpf(10) ** (-9) * (1 + abs(v))
                bad = (v < lo - eps) or (v > hi + eps) or (iv.left_open and abs(v - lo) == 0 and False)
                verdicts.append((bad, v, lo, hi))
        if all(x is not None for x in verdicts):
            n_ok += 1
            if all(x[0] for x in verdicts) and out is None:
                out = (env_fr, verdicts[1])
    if out is not None and n_ok < len(draws):
        # the expression is not defined on the whole range described by the conditions
        H.inconc('bounds:partially-undefined')
        out = None
    if out is not None:
        env_fr, (bad, v, lo, hi) = out
        def outside(t):
            with quiet(), time_limit(10):
                ivt = cd.get_bounds_for_expr(copy.deepcopy(t))
            if ivt is None:
                return False
            with mp.workdps(30):
                env = {k: mpf(x.numerator) / x.denominator for k, x in env_fr.items()}
                val = ev.value(t, env)
                lo_t = ev.value_or_inf(ivt.start, {})
                hi_t = ev.value_or_inf(ivt.end, {})
                eps_t = mpf(10) ** (-9) * (1 + abs(val))
                return val < lo_t - eps_t or val > hi_t + eps_t
        sub = minimal_failing_subterm(e, outside)
        feat = head_feature(sub)
        if sub.ty == L.OP and len(sub.args) == 2 and (sub.op == '/' or (sub.op == '^' and sub.args[1].ty == L.CONST and sub.args[1].val < 0)):
            den = sub.args[1] if sub.op == '/' else sub.args[0]
            try:
                with quiet():
                    ivd = cd.get_bounds_for_expr(copy.deepcopy(den))
                with mp.workdps(30):
                    if ev.value_or_inf(ivd.start, {}) <= 0 <= ev.value_or_inf(ivd.end, {}):
                        feat = 'reciprocal-of-interval-containing-zero'
            except Exception:
                pass
        H.violation('bounds:value-outside-interval:%s' % feat,
                    dict(case, draws=[{k: str(x) for k, x in sorted(env_fr.items())}]),
                    'get_bounds_for_expr(%s) under %s is %s, but at %s the value is %s' % (
                        e, [str(c) for c in conds], iv, {k: str(x) for k, x in sorted(env_fr.items())}, mp.nstr(v, 15)))
    H.case(case, nontrivial=(n_ok > 0 and not trivial), klass='bounds:%s' % ('violated' if out else ('trivial' if trivial else 'enclosed')))


# ============================================================================================ strategies
BOUNDS = [('0', '1'), ('-1', '1'), ('0', 'pi'), ('0', 'pi / 2'), ('1', '2'), ('0', 'oo'), ('-oo', 'oo'), ('1/2', '3'),
          ('-1', '2'), ('1', 'oo'), ('-2', '-1'), ('-oo', '0'), ('0', '2'), ('-pi / 2', 'pi / 2'), ('1', '4')]
FINITE_BOUNDS = [b for b in BOUNDS if 'oo' not in b[0] and 'oo' not in b[1]]
# constant bounds in descending order: what SplitRegion returns for a point outside the interval
# (INT x:[0,1]. f  ->  (INT x:[0,-1]. f) + (INT x:[-1,1]. f)), and what a user may type
REVERSED_BOUNDS = [('0', '-1'), ('1', '0'), ('2', '1'), ('-1', '-2'), ('1', '-1'), ('pi', '0'), ('2', '-1'), ('3', '1/2'),
                   ('1', '-2'), ('0', '-2'), ('-1/2', '-2')]
# intervals that reach into the negative numbers, in both orders
NEG_BOUNDS = [('0', '-1'), ('1', '-2'), ('-1', '-2'), ('1', '-1'), ('0', '-2'), ('-1/2', '-2'), ('2', '-1'), ('-1', '0'), ('-2', '1'),
              ('-2', '-1'), ('-1', '2')]
# Substitution u = g(x) where g is monotone on the interval without being injective on the line, paired with
# integrands from which x cannot be eliminated by dividing through g': the rule has to invert g on the right branch
BRANCH_G = ['x ^ 2', 'x ^ 2', 'x ^ 4', 'x ^ 2 + 1', 'x ^ 2 - 1', '(x - 1) ^ 2', '1 / x ^ 2', 'sin(x)', 'cos(x)', 'tan(x)',
            'x ^ 2 / 2', '1 - x ^ 2', 'x ^ 6', 'abs(x)']
BRANCH_BOUNDS = [('-2', '-1'), ('-2', '-1'), ('-3', '-1/2'), ('-1', '0'), ('-oo', '-1'), ('-1', '-1/2'), ('2', '3'), ('2', '4'),
                 ('4', '6'), ('-3', '-2'), ('1', '2'), ('0', '1'), ('-1/2', '0'), ('-4', '-2')]
BRANCH_F = ['x ^ 4', 'x ^ 2', '1', 'x', 'x ^ 3', 'exp(x ^ 2)', 'cos(x)', 'exp(x)', '1 / x ^ 2', 'abs(x)', 'x * sin(x)', 'x + 1',
            '1 / (1 + x ^ 2)', 'exp(-x ^ 2)', 'x ^ 2 + a', 'sqrt(x ^ 2 + 1)']
# f(x, a) for exchanging D a. and INT x.
DI_F = ['exp(a * x)', 'sin(a * x)', 'x ^ a', 'log(1 + a * x)', 'a * x ^ 2', '1 / (x ^ 2 + a ^ 2)', 'exp(-a * x ^ 2)', 'atan(a * x)',
        'cos(x) / (a + x)', 'a ^ 2 * x + a', 'x / (1 + a * x)', 'exp(-a * x) * x', 'sqrt(a + x)', 'a', 'x', 'cos(a) * x ^ 2',
        'log(a ^ 2 + x ^ 2)', 'exp(-x) * sin(a * x)']
DI_BOUNDS = [('0', '1'), ('1', '2'), ('0', '2'), ('1/2', '3'), ('0', 'pi'), ('1', '4'), ('0', 'oo'), ('1', 'oo'), ('2', '1'),
             ('0', 'a'), ('a', '1'), ('0', 'a ^ 2'), ('a', '2 * a'), ('b', '1'), ('0', 'b')]
# integrable pieces for Equation between sums of definite integrals
EQ_INT_F = ['x', 'x ^ 2', 'exp(x)', 'sin(x)', '1', 'a', 'cos(x)', '1 / (1 + x ^ 2)', 'a * x', '2 * x', 'x ^ 3', 'exp(-x)']
LIM_NEG_INF = ['exp(x)', '1 / x', 'atan(x)', 'x * exp(x)', '(2 * x ^ 2 + 1) / (x ^ 2 + x)', 'x / sqrt(x ^ 2 + 1)', 'tanh(x)',
               '1 / (1 + exp(-x))', 'exp(x) + 3', '(x + 1) / (2 * x - 1)', 'sin(x) / x', '1 / x + a', '(3 * x + 2) / (x ^ 2 + 1)',
               'exp(a * x)', '1 / x ^ 2', 'atan(x) / x', 'x ^ 2 * exp(x)', 'sqrt(x ^ 2 + x) + x', '2 * atan(x) - 1 / x',
               '(1 + 1 / x) ^ x', 'exp(1 / x)', 'x / abs(x)', 'x * sin(1 / x)', '-exp(x) + 1']
DECAY = ['exp(-x)', 'exp(-x ^ 2)', '1 / (1 + x ^ 2)', 'x * exp(-x)', 'exp(-2 * x) * cos(x)', '1 / (x ^ 2 + 4)',
         'x ^ 2 * exp(-x)', '1 / (1 + x ^ 2) ^ 2', 'exp(-x) * sin(x)', '1 / (1 + x) ^ 2', 'exp(-abs(x))']
G_POOL = [('x ^ 2', '2 * x'), ('x + 1', '1'), ('2 * x', '2'), ('sin(x)', 'cos(x)'), ('cos(x)', '-sin(x)'),
          ('exp(x)', 'exp(x)'), ('log(x)', '1 / x'), ('1 / x', '-1 / x ^ 2'), ('sqrt(x)', '1 / (2 * sqrt(x))'),
          ('1 - x', '-1'), ('x ^ 2 + 1', '2 * x'), ('-x', '-1'), ('tan(x)', 'sec(x) ^ 2'), ('x ^ 3', '3 * x ^ 2'),
          ('a * x', 'a'), ('x - a', '1'), ('x ^ 2 - 1', '2 * x'), ('exp(-x)', '-exp(-x)'), ('pi - x', '-1'),
          ('x / 2', '1/2'), ('1 / (1 + x)', '-1 / (1 + x) ^ 2'), ('x * (1 - x)', '1 - 2 * x'), ('abs(x)', 'x / abs(x)'),
          ('x ^ 4', '4 * x ^ 3'), ('1 + cos(x)', '-sin(x)'), ('sin(x) ^ 2', '2 * sin(x) * cos(x)')]
H_POOL = ['u', 'u ^ 2', '1 / (1 + u ^ 2)', 'exp(u)', 'exp(-u)', 'sqrt(u)', '1 / u', 'log(u)', 'sin(u)', 'cos(u)',
          'u / (1 + u)', '1', 'u ^ 3', '1 / sqrt(u)', 'sqrt(1 - u ^ 2)', '1 / (1 + u)']
INV_POOL = ['sin(u)', 'tan(u)', 'u ^ 2', '2 * u', 'u + 1', 'exp(u)', '1 / u', 'sqrt(u)', 'u - 1', 'a * u', 'cos(u)',
            '1 - u', 'u ^ 3', '-u', 'log(u)', 'u / 2', '2 * sin(u)', 'u ^ 2 - 1', 'pi - u', 'atan(u)', '1 / u ^ 2']
UV_POOL_V = [('sin(x)', 'cos(x)'), ('x ^ 2 / 2', 'x'), ('exp(x)', 'exp(x)'), ('-cos(x)', 'sin(x)'), ('log(x)', '1 / x'),
             ('x', '1'), ('atan(x)', '1 / (1 + x ^ 2)'), ('exp(2 * x) / 2', 'exp(2 * x)'), ('-exp(-x)', 'exp(-x)'),
             ('x ^ 3 / 3', 'x ^ 2'), ('-1 / x', '1 / x ^ 2'), ('2 * sqrt(x)', '1 / sqrt(x)'), ('sin(a * x) / a', 'cos(a * x)'),
             ('x ^ (a + 1) / (a + 1)', 'x ^ a'), ('tan(x)', 'sec(x) ^ 2'), ('x + 1', '1')]
UV_POOL_U = ['x', 'x ^ 2', 'log(x)', 'exp(x)', 'sin(x)', 'log(x) ^ 2', 'atan(x)', '1 / x', 'cos(x)', 'exp(-x)', 'x + 1',
             'sqrt(x)', 'log(1 + x)', 'x ^ 3', 'a * x', 'asin(x)']
SPLIT_F = ['1 / x', '1 / x ^ 2', '1 / sqrt(abs(x))', 'log(abs(x))', 'abs(x)', '1 / (x - 1)', 'x', 'x ^ 2', 'exp(x)',
           'sin(x)', '1 / (1 + x ^ 2)', 'abs(x - 1)', '1 / (x - 1) ^ 2', 'x / abs(x)', 'exp(-abs(x))', 'tan(x)',
           '1 / abs(x) ^ (1/3)', 'log(x ^ 2)']
SPLIT_C = ['0', '1', '1/2', '-1', '2', '3', 'pi / 2', 'a', '-1/2', '5', '-3']
EQ_PAIRS = [('sqrt(x ^ 2)', 'x'), ('sqrt(x ^ 2)', 'abs(x)'), ('(x ^ 2) ^ (1/2)', 'x'), ('log(x ^ 2)', '2 * log(x)'),
            ('x / x', '1'), ('(x ^ 2 - 1) / (x - 1)', 'x + 1'), ('exp(log(x))', 'x'), ('log(exp(x))', 'x'),
            ('sin(x) ^ 2 + cos(x) ^ 2', '1'), ('1', 'sin(x) ^ 2 + cos(x) ^ 2'), ('tan(x)', 'sin(x) / cos(x)'),
            ('sqrt(x) * sqrt(x)', 'x'), ('sqrt(a * x)', 'sqrt(a) * sqrt(x)'), ('(a * x) ^ (1/2)', 'a ^ (1/2) * x ^ (1/2)'),
            ('x ^ a * x ^ b', 'x ^ (a + b)'), ('(x ^ a) ^ b', 'x ^ (a * b)'), ('abs(x) ^ 2', 'x ^ 2'), ('1 / (1 / x)', 'x'),
            ('atan(1 / x)', 'pi / 2 - atan(x)'), ('log(a * x)', 'log(a) + log(x)'), ('(x ^ (1/2)) ^ 2', 'x'),
            ('x ^ 2 - 1', '(x + 1) * (x - 1)'), ('1 / (x ^ 2 - 1)', '1/2 * (1 / (x - 1) - 1 / (x + 1))'),
            ('x / (x + 1)', '1 - 1 / (x + 1)'), ('(x + 1) ^ 2', 'x ^ 2 + 2 * x + 1'), ('(x + 1) ^ 2', 'x ^ 2 + 1'),
            ('sqrt(x ^ 2 + 2 * x + 1)', 'x + 1'), ('sqrt(1 - sin(x) ^ 2)', 'cos(x)'), ('sqrt(cos(x) ^ 2)', 'cos(x)'),
            ('log(x / a)', 'log(x) - log(a)'), ('exp(x) ^ a', 'exp(a * x)'), ('exp(x + a)', 'exp(x) * exp(a)'),
            ('x ^ (-1)', '1 / x'), ('x ^ (1/2)', 'sqrt(x)'), ('(x ^ 3) ^ (1/3)', 'x'), ('x * x ^ (-1/2)', 'sqrt(x)'),
            ('(1 + x) / (1 - x ^ 2)', '1 / (1 - x)'), ('cos(x) ^ 2 - sin(x) ^ 2', 'cos(2 * x)'),
            ('sqrt(x ^ 4)', 'x ^ 2'), ('sqrt(x ^ 6)', 'x ^ 3'), ('abs(x) / x', '1'), ('sqrt(x) / x', '1 / sqrt(x)'),
            ('(x ^ 2 * a ^ 2) ^ (1/2)', 'x * a'), ('sqrt(x ^ 2 * (1 + a ^ 2))', 'x * sqrt(1 + a ^ 2)'),
            ('log(abs(x))', 'log(x)'), ('2 * log(abs(x))', 'log(x ^ 2)'), ('x ^ 0', '1'), ('0 ^ x', '0'),
            ('exp(2 * log(x))', 'x ^ 2'), ('exp(1/2 * log(x ^ 2))', 'x')]
LH_F = ['sin(x)', 'x', '1 - cos(x)', 'x ^ 2', 'exp(x) - 1', 'log(1 + x)', 'x + 1', 'cos(x)', 'exp(x)', 'log(x)', 'x - 1',
        'x ^ 2 - 1', 'sqrt(x) - 1', 'tan(x)', 'atan(x)', 'x ^ 3', 'exp(-x)', 'x * exp(x)', 'sin(x) - x', '2 * x + 3',
        'log(x) ^ 2', 'sqrt(x)', 'x ^ 2 + 1', 'sin(2 * x)', 'a * x', 'exp(a * x) - 1']
LIM_INF = ['(2 * x ^ 2 + 1) / (x ^ 2 + x)', 'x * exp(-x)', 'atan(x)', '(1 + 1 / x) ^ x', 'x * sin(1 / x)',
           'sqrt(x ^ 2 + x) - x', 'log(x) / x', '1 / x + a', 'sin(x) / x', 'exp(-x) + 3', '(x + 1) / (2 * x - 1)',
           'x / sqrt(x ^ 2 + 1)', 'exp(-a * x)', 'x ^ 2 * exp(-x)', '(3 * x + 2) / (x ^ 2 + 1)', 'atan(x) / x',
           '-exp(-x) + 1', 'x ^ (-1/2)', '2 * atan(x) - 1 / x', '(x ^ 2 + 1) / (x + 1) - x', 'log(1 + 1 / x) * x',
           'exp(1 / x)', 'x ^ (-a)', '1 / (1 + exp(-x))', 'tanh(x)', 'cos(1 / x)', '(1 - 1 / x) ^ x', 'x * log(1 + 2 / x)',
           'x ^ 2 / (x ^ 2 + 1) * atan(x)', '-x * exp(-x) - exp(-x) + 1', 'sqrt(x + 1) - sqrt(x)', 'log(x + 1) - log(x)',
           '(1 + 1 / x) ^ (-x)', '(1 - 1 / x) ^ (-x)', '(1 + 2 / x) ^ (-x)', '(1/2) ^ x', '2 ^ (-x)', '(1 + 1 / x) ^ (2 * x)']
SPECIAL_FORMS = ['exp(1/2 * log(x ^ 2))', 'exp(log(x ^ 4) / 4)', 'log(x ^ 2)', '(x ^ 2) ^ (1/2)', 'sqrt(x ^ 2)', 'abs(x) / x',
                 'x / abs(x)', 'sqrt(x) ^ 2', 'log(exp(x))', 'exp(log(x))', 'atan(tan(x))', 'sin(asin(x))', 'tan(atan(x))',
                 'asin(sin(x))', 'acos(cos(x))', 'sqrt((x - 1) ^ 2)', 'log(x ^ 2) - 2 * log(abs(x))', 'x ^ (1/3) ^ 3', '(x ^ 3) ^ (1/3)',
                 'sqrt(x ^ 2 * a ^ 2)', 'sqrt(x * a) / sqrt(x)', 'x ^ a * x ^ (-a)', '(x * a) ^ (1/2) / x ^ (1/2)', 'exp(a * log(x))',
                 'log(x * a) - log(x)', 'log(1 / x)', 'log(x / a)', 'x / x', '(x ^ 2 - 1) / (x - 1)', 'sqrt(x ^ 4)', 'abs(x) ^ 2',
                 'abs(x ^ 3)', 'abs(-x)', 'sqrt(1 - sin(x) ^ 2)', 'sqrt(1 + tan(x) ^ 2)', 'cos(x) * sec(x)', 'tan(x) * cos(x)',
                 'acot(tan(x))', 'atan(1 / x) + atan(x)', 'asin(x) + acos(x)', '0 ^ x', 'x ^ 0', '1 ^ x', '(-1) ^ (2 * x)',
                 '(-8) ^ (1/3)', '(x ^ 2) ^ (1/4)', '((-x) ^ 2) ^ (1/2)', 'sqrt(a ^ 2) * x', 'exp(x) ^ a', 'exp(2 * log(abs(x)))']
COND_POOL = ['x > 0', 'a > 0', 'x < 1', 'x > -1', 'a < 0', 'x > 1', 'x < 0', 'a > 1', 'b > 0', 'a != 0', 'x != 0']
POS_RANGES = [('1/4', '1/2'), ('1/4', '3/4'), ('1/2', '1'), ('1', '2'), ('1/3', '3'), ('1/2', None), ('1', '3'), ('1/2', '2'),
              ('2', '5'), ('1/8', '1/4'), ('1', None), ('3/2', '2')]
RANGES = [('-2', '-1'), ('-1', '2'), ('0', '1'), ('1', '3'), ('0', None), (None, '0'), ('-1', None), ('-3', '3'),
          ('1/2', '2'), (None, '-1'), ('-1', '1'), ('2', '5'), ('-1/2', '1/2'), ('0', 'pi'), ('-pi', 'pi'), ('0', '4'),
          ('1/4', '1/2'), ('1/4', '3/4'), ('1/2', '1'), ('1', '2'), ('1/3', '3'), ('1/2', None)]


def strategies():
    from hypothesis import strategies as st
    S = {}
    seeds = st.lists(st.integers(0, 2 ** 20), min_size=3, max_size=3)

    def pointwise(var='x', params=('a',), leaves=6, funs=('sin', 'cos', 'exp', 'log', 'sqrt', 'atan', 'abs', 'tan'), exps=()):
        base = st.sampled_from([var, var, var] + list(params) + ['1', '2', '3', '1/2', 'pi', '-1', '-2', '1/3'])

        def ext(ch):
            return st.one_of(
                st.tuples(st.sampled_from(['+', '-', '*', '/', '+', '*']), ch, ch).map(lambda t: '(%s) %s (%s)' % (t[1], t[0], t[2])),
                st.tuples(ch, st.sampled_from(['2', '3', '-1', '1/2', '-2', 'a', '1/3', '-1/2', '4', '3/2'] + list(exps))).map(
                    lambda t: '(%s) ^ (%s)' % t),
                st.tuples(st.sampled_from(list(funs)), ch).map(lambda t: '%s(%s)' % t),
                ch.map(lambda c: '-(%s)' % c))
        return st.recursive(base, ext, max_leaves=leaves)

    def polyish(var='x'):
        atom = st.sampled_from([var, var, 'a', '1', '2', '3', '-1', '1/2', 'sin(%s)' % var, 'y'])
        lin = st.tuples(atom, st.sampled_from(['+', '-']), atom).map(lambda t: '(%s %s %s)' % t)
        fac = st.one_of(atom, lin, st.tuples(lin, st.sampled_from(['2', '3', '4'])).map(lambda t: '%s ^ %s' % t))

        def ext(ch):
            return st.one_of(st.tuples(ch, st.sampled_from(['*', '*', '+', '-', '/']), ch).map(lambda t: '(%s) %s (%s)' % t),
                             st.tuples(ch, st.sampled_from(['2', '3'])).map(lambda t: '(%s) ^ %s' % t))
        return st.recursive(fac, ext, max_leaves=4)

    conds = st.lists(st.sampled_from(COND_POOL), max_size=2, unique=True)
    bounds = st.sampled_from(BOUNDS)
    fbounds = st.sampled_from(FINITE_BOUNDS)
    rbounds = st.sampled_from(REVERSED_BOUNDS)
    bounds_r = st.one_of(bounds, bounds, bounds, bounds, rbounds)          # one in five in descending order
    fbounds_r = st.one_of(fbounds, fbounds, fbounds, rbounds)

    def integral_of(body, bnd):
        return st.tuples(body, bnd).map(lambda t: 'INT x:[%s,%s]. %s' % (t[1][0], t[1][1], t[0]))

    @st.composite
    def simp_expr(draw):
        shape = draw(st.sampled_from(['point', 'point', 'special', 'special', 'int', 'int-inf', 'sum', 'lim', 'nested',
                                      'const', 'const']))
        if shape == 'point':
            return draw(pointwise())
        if shape == 'const':
            # constants built from irrational atoms with (negative, fractional) powers: the coefficient normal form
            atoms = st.sampled_from(['pi', 'pi', 'log(2)', 'sin(1)', 'sqrt(2)', 'exp(1)', 'exp(2)', '2', '3', 'atan(2)', 'sqrt(3)',
                                     'exp(pi)', 'exp(sqrt(2))', 'exp(log(3) + 1)', 'exp(-1/2)'])
            pw = st.sampled_from(['-3', '-2', '-2', '-3/2', '-1', '-1/2', '1/2', '2', '3', '1/3', '-1/3', '-5/2'])
            fac = st.one_of(atoms, st.tuples(atoms, pw).map(lambda t: '%s ^ (%s)' % t), st.tuples(atoms, pw).map(lambda t: '%s ^ (%s)' % t))
            prod = st.lists(st.tuples(st.sampled_from(['*', '*', '/']), fac), min_size=1, max_size=4).map(
                lambda fs: '1' + ''.join(' %s (%s)' % f for f in fs))
            c = draw(prod)
            wrap = draw(st.sampled_from(['%s', '%s', '(%s) * x', 'x / (%s)', '(%s) + (%s)', '(%s) - 1 / pi ^ 2', 'INT x:[0,1]. (%s) * x',
                                         '(%s) * a + x', 'sqrt(%s)', 'log(%s)', 'log(%s)', 'log(%s) * x + 1', 'exp(%s)', 'log(2 * (%s))',
                                         'sin(%s)', 'log(1 / (%s))']))
            return wrap % ((c,) * wrap.count('%s'))
        if shape == 'special':
            sp = draw(st.sampled_from(SPECIAL_FORMS))
            wrap = draw(st.sampled_from(['%s', '%s', '(%s) + x', '2 * (%s)', '(%s) * a', 'INT x:[-2,-1]. %s', 'INT x:[1/2,2]. %s',
                                         '(%s) - abs(x)', 'cos(%s)', 'INT x:[-1,-2]. %s', 'INT x:[2,1/2]. %s', 'INT x:[0,-1]. %s']))
            return wrap % sp
        if shape == 'int':
            return draw(integral_of(pointwise(leaves=4), fbounds_r))
        if shape == 'int-inf':
            b = draw(st.sampled_from([('0', 'oo'), ('-oo', 'oo'), ('1', 'oo'), ('-oo', '0')]))
            f = draw(st.sampled_from(DECAY))
            g = draw(st.sampled_from(['1', 'a', '2', 'cos(x)', '(1 + x ^ 2) / (2 + x ^ 2)']))
            return 'INT x:[%s,%s]. (%s) * (%s)' % (b[0], b[1], g, f)
        if shape == 'sum':
            t = draw(st.sampled_from(['1 / (n + 1) ^ 2', '(-1) ^ n / (2 * n + 1)', 'a ^ n / factorial(n)', '(1/2) ^ n',
                                      '(-1) ^ n * (1/3) ^ n * a', 'n / 2 ^ n', '(-1) ^ (2 * n) / (n + 1) ^ 3']))
            return 'SUM(n, 0, oo, %s)' % t
        if shape == 'lim':
            return 'LIM {x -> oo}. %s' % draw(st.sampled_from(LIM_INF))
        inner = draw(integral_of(pointwise(leaves=3), fbounds_r))
        return '(%s) * (%s) + (%s)' % (draw(st.sampled_from(['a', '2', '1/2', '-1'])), inner, draw(pointwise(var='a', params=(), leaves=2)))

    @st.composite
    def c_simplify(draw, rname):
        return {'kind': 'rule', 'rule': rname, 'e': draw(simp_expr()), 'params': {}, 'conds': draw(conds), 'seeds': draw(seeds)}
    S['Simplify'] = c_simplify('Simplify')
    S['FullSimplify'] = c_simplify('FullSimplify')

    @st.composite
    def c_normalize(draw):
        return {'kind': 'normalize', 'e': draw(simp_expr()), 'conds': draw(conds), 'seeds': draw(seeds)}
    S['normalize'] = c_normalize()

    @st.composite
    def c_linearity(draw):
        f1, f2 = draw(pointwise(leaves=3)), draw(pointwise(leaves=3))
        c1, c2 = draw(st.sampled_from(['a', '2', '1/2', '-1', 'pi', 'a ^ 2', '(a + 1)', 'b'])), draw(st.sampled_from(['a', '3', '-2', 'b']))
        shape = draw(st.sampled_from(['sum', 'diff', 'prod', 'quot', 'neg', 'const', 'lim', 'series', 'indef']))
        b = draw(fbounds_r)
        body = {'sum': '%s * (%s) + %s * (%s)' % (c1, f1, c2, f2), 'diff': '(%s) / %s - %s * (%s)' % (f1, c1, c2, f2),
                'prod': '%s * (%s) * %s' % (c1, f1, c2), 'quot': '%s / (%s * (%s))' % (c1, c2, f1), 'neg': '-(%s * (%s))' % (c1, f1),
                'const': '%s' % c1}.get(shape)
        if shape == 'lim':
            e = 'LIM {x -> oo}. %s * (%s) / %s' % (c1, draw(st.sampled_from(LIM_INF)), c2)
        elif shape == 'series':
            e = 'SUM(n, 0, oo, %s * (1/2) ^ n / %s)' % (c1, c2)
        elif shape == 'indef':
            e = 'INT x. %s * (%s) + %s * (%s)' % (c1, f1, c2, f2)
        else:
            e = 'INT x:[%s,%s]. %s' % (b[0], b[1], body)
        return {'kind': 'rule', 'rule': draw(st.sampled_from(['Linearity', 'OnSubterm:Linearity'])), 'e': e, 'params': {},
                'conds': draw(conds), 'seeds': draw(seeds)}
    S['Linearity'] = c_linearity()

    @st.composite
    def c_subst(draw):
        g, dg = draw(st.sampled_from(G_POOL))
        h = draw(st.sampled_from(H_POOL))
        hg = h.replace('u', '(%s)' % g)
        shape = draw(st.sampled_from(['chain', 'chain', 'chain', 'bare', 'random', 'branch', 'branch']))
        b = draw(bounds_r)
        if shape == 'chain':
            body = '(%s) * (%s)' % (hg, dg)
        elif shape == 'bare':
            body = hg
        elif shape == 'branch':
            g = draw(st.sampled_from(BRANCH_G))
            b = draw(st.sampled_from(BRANCH_BOUNDS))
            body = draw(st.sampled_from(BRANCH_F))
            if draw(st.integers(0, 3)) == 0:
                body = '(%s) * (%s)' % (body, draw(st.sampled_from(H_POOL)).replace('u', '(%s)' % g))
        else:
            body = draw(pointwise(leaves=4))
        return {'kind': 'rule', 'rule': 'Substitution', 'e': 'INT x:[%s,%s]. %s' % (b[0], b[1], body),
                'params': {'var_name': 'u', 'var_subst': g}, 'conds': draw(st.lists(st.sampled_from(['a > 0', 'a < 0', 'a != 0']), max_size=1)),
                'seeds': draw(seeds)}
    S['Substitution'] = c_subst()

    @st.composite
    def c_subst_inv(draw):
        g = draw(st.sampled_from(INV_POOL + ['sqrt(u)', '1 / u', 'sqrt(u)', 'exp(u)', 'u ^ 2']))
        body = draw(st.one_of(pointwise(leaves=3), st.sampled_from(
            ['sqrt(1 - x ^ 2)', '1 / (1 + x ^ 2)', '1 / sqrt(1 - x ^ 2)', 'x * sqrt(x + 1)', 'exp(sqrt(x))', '1 / (x * (1 + x))',
             'sqrt(4 - x ^ 2)', '1 / (1 + sqrt(x))', 'log(x) / x', 'x ^ 2', '1 / x ^ 2', 'exp(-x)', '1', 'x', 'cos(x)',
             '1 / (1 + x ^ 2)', 'exp(-x ^ 2)'])))
        b = draw(bounds_r)
        return {'kind': 'rule', 'rule': 'SubstitutionInverse', 'e': 'INT x:[%s,%s]. %s' % (b[0], b[1], body),
                'params': {'var_name': 'u', 'var_subst': g}, 'conds': draw(st.lists(st.sampled_from(['a > 0', 'a < 0']), max_size=1)),
                'seeds': draw(seeds)}
    S['SubstitutionInverse'] = c_subst_inv()

    @st.composite
    def c_parts(draw):
        v, dv = draw(st.sampled_from(UV_POOL_V))
        u = draw(st.sampled_from(UV_POOL_U))
        b = draw(bounds_r)
        indef = draw(st.integers(0, 9)) == 0
        body = '(%s) * (%s)' % (u, dv)
        e = ('INT x. %s' % body) if indef else 'INT x:[%s,%s]. %s' % (b[0], b[1], body)
        cs = draw(st.lists(st.sampled_from(['a > 0', 'a != 0', 'a != -1', 'x > 0']), max_size=2, unique=True))
        return {'kind': 'rule', 'rule': 'IntegrationByParts', 'e': e, 'params': {'u': u, 'v': v}, 'conds': cs, 'seeds': draw(seeds)}
    S['IntegrationByParts'] = c_parts()

    @st.composite
    def c_split(draw):
        f = draw(st.one_of(st.sampled_from(SPLIT_F), pointwise(leaves=3)))
        b = draw(bounds_r)
        return {'kind': 'rule', 'rule': 'SplitRegion', 'e': 'INT x:[%s,%s]. %s' % (b[0], b[1], f),
                'params': {'c': draw(st.sampled_from(SPLIT_C))}, 'conds': draw(st.lists(st.sampled_from(['a > 0', 'a < 1', 'a > 1']), max_size=2, unique=True)),
                'seeds': draw(seeds)}
    S['SplitRegion'] = c_split()

    @st.composite
    def c_expand(draw):
        p = draw(polyish())
        if draw(st.booleans()):
            b = draw(fbounds_r)
            p = 'INT x:[%s,%s]. %s' % (b[0], b[1], p)
        return {'kind': 'rule', 'rule': 'ExpandPolynomial', 'e': p, 'params': {}, 'conds': draw(conds), 'seeds': draw(seeds)}
    S['ExpandPolynomial'] = c_expand()

    def perturb(draw, s):
        """A near-miss of the expression text s."""
        kind = draw(st.sampled_from(['sign', 'const', 'drop', 'plus1', 'square']))
        if kind == 'sign' and (' + ' in s or ' - ' in s):
            idx = [m.start() for m in re.finditer(r' [+-] ', s)]
            i = draw(st.sampled_from(idx))
            return s[:i + 1] + ('-' if s[i + 1] == '+' else '+') + s[i + 2:]
        if kind == 'const':
            idx = [m.start() for m in re.finditer(r'(?<![\w/.])[1-9](?![\w/.])', s)]
            if idx:
                i = draw(st.sampled_from(idx))
                return s[:i] + str(int(s[i]) % 9 + 1) + s[i + 1:]
        if kind == 'plus1':
            return '(%s) + 1' % s
        if kind == 'square':
            return '(%s) ^ 2' % s
        return '2 * (%s)' % s

    @st.composite
    def c_eq_ints(draw, cs=()):
        # an integral against a sum / difference of integrals (over the same or over another interval, in the same or
        # in another variable) and free-standing terms
        f, g = draw(st.sampled_from(EQ_INT_F)), draw(st.sampled_from(EQ_INT_F))
        b1 = draw(fbounds)
        b2 = draw(st.one_of(st.just(b1), fbounds, fbounds))
        op = draw(st.sampled_from(['+', '+', '-']))
        v2 = draw(st.sampled_from(['x', 'x', 't']))
        whole = 'INT x:[%s,%s]. (%s) %s (%s)' % (b1[0], b1[1], f, op, g)
        form = draw(st.sampled_from(['ints', 'ints', 'ints', 'double', 'free-term']))
        if form == 'double':
            whole = 'INT x:[%s,%s]. 2 * (%s)' % (b1[0], b1[1], f)
            g, op = f, '+'
        second = 'INT %s:[%s,%s]. %s' % (v2, b2[0], b2[1], re.sub(r'\bx\b', v2, g))
        if form == 'free-term':
            c = draw(st.sampled_from(['a', '2', '1/2', 'pi']))
            whole = 'INT x:[%s,%s]. (%s) %s %s' % (b1[0], b1[1], f, op, c)
            second = c
        parts = '(INT x:[%s,%s]. %s) %s (%s)' % (b1[0], b1[1], f, op, second)
        old, new = (whole, parts) if draw(st.booleans()) else (parts, whole)
        cs = [c for c in cs if not c.startswith('x ')]
        if draw(st.integers(0, 3)) == 0:
            return {'kind': 'rule', 'rule': 'Equation', 'e': '(%s) * a + 1' % old, 'params': {'old_expr': old, 'new_expr': new},
                    'conds': cs, 'seeds': draw(seeds)}
        return {'kind': 'rule', 'rule': 'Equation', 'e': old, 'params': {'new_expr': new}, 'conds': cs, 'seeds': draw(seeds)}
    S['EquationIntegrals'] = c_eq_ints()

    @st.composite
    def c_equation(draw):
        shape = draw(st.sampled_from(['pair', 'pair', 'pair-rev', 'random', 'perturb', 'trivial', 'int-sum']))
        cs = draw(conds)
        if shape == 'int-sum':
            return draw(c_eq_ints(cs))
        if shape in ('pair', 'pair-rev'):
            a, b = draw(st.sampled_from(EQ_PAIRS))
            if shape == 'pair-rev':
                a, b = b, a
            wrap = draw(st.sampled_from(['none', 'none', 'int', 'int2', 'lim']))
            if wrap == 'none':
                return {'kind': 'rule', 'rule': 'Equation', 'e': a, 'params': {'new_expr': b}, 'conds': cs, 'seeds': draw(seeds)}
            bnd = draw(fbounds_r)
            e = {'int': 'INT x:[%s,%s]. %s' % (bnd[0], bnd[1], a), 'int2': 'INT x:[%s,%s]. (%s) * cos(x)' % (bnd[0], bnd[1], a),
                 'lim': 'LIM {x -> oo}. (%s) / (1 + x ^ 2)' % a}[wrap]
            return {'kind': 'rule', 'rule': 'Equation', 'e': e, 'params': {'old_expr': a, 'new_expr': b}, 'conds': cs, 'seeds': draw(seeds)}
        e = draw(st.one_of(pointwise(leaves=4), polyish()))
        if shape == 'random':
            new = draw(st.one_of(pointwise(leaves=4), polyish()))
        elif shape == 'perturb':
            new = perturb(draw, e)
        else:
            new = draw(st.sampled_from(['(%s) * 1', '(%s) + 0', '1 * (%s)', '(%s) / 1', '-(-(%s))', '((%s) + a) - a',
                                        '(%s) * x / x', 'sqrt((%s) ^ 2)', 'exp(log(%s))', '((%s) ^ 2) ^ (1/2)', '1 / (1 / (%s))'])) % e
        return {'kind': 'rule', 'rule': 'Equation', 'e': e, 'params': {'new_expr': new}, 'conds': cs, 'seeds': draw(seeds)}
    S['Equation'] = c_equation()

    @st.composite
    def c_identity(draw):
        inst = {}
        for v in ('a', 'b', 'k', 'x', 'y', 'u', 'z', 'm', 'n'):
            inst[v] = draw(st.sampled_from(['x', '2 * x', 't', 'x + 1', '-x', 'x ^ 2', '1/2', '2', '-2', '3', 'x - t', 't / 2', '1/3',
                                            'x * t', '-1', '4', 'sin(x)', '1 - x']))
        return {'kind': 'identity', 'index': draw(st.integers(0, 200)), 'inst': inst,
                'wrap': draw(st.sampled_from(['none', 'none', 'plus', 'int'])),
                'wrong': draw(st.sampled_from([0, 0, 0, 1])), 'conds': draw(st.lists(st.sampled_from(['x > 0', 't > 0', 'x < 1', 'x > 1']), max_size=2, unique=True)),
                'seeds': draw(seeds)}
    S['ApplyIdentity'] = c_identity()

    @st.composite
    def c_eliminf(draw):
        b = draw(st.sampled_from([('0', 'oo'), ('-oo', 'oo'), ('1', 'oo'), ('-oo', '0'), ('a', 'oo'), ('-oo', '1'), ('oo', '0'), ('0', '-oo')]))
        f = draw(st.one_of(st.sampled_from(DECAY), st.sampled_from(DECAY), pointwise(leaves=3)))
        params = {}
        if draw(st.booleans()):
            params['a'] = draw(st.sampled_from(['0', '1', '-1', 'a', '2']))
        wrap = draw(st.sampled_from(['%s', '%s', '2 * (%s) + a', '(%s) / pi']))
        return {'kind': 'rule', 'rule': 'ElimInfInterval', 'e': wrap % ('INT x:[%s,%s]. %s' % (b[0], b[1], f)), 'params': params,
                'conds': draw(st.lists(st.sampled_from(['a > 0', 'a < 1']), max_size=2, unique=True)), 'seeds': draw(seeds)}
    S['ElimInfInterval'] = c_eliminf()

    @st.composite
    def c_lhopital(draw):
        f, g = draw(st.sampled_from(LH_F)), draw(st.sampled_from(LH_F))
        pt = draw(st.sampled_from(['0', '0', '1', 'oo', '0 +', '1 -', '0 -', '2', 'pi']))
        return {'kind': 'rule', 'rule': 'LHopital', 'e': 'LIM {x -> %s}. (%s) / (%s)' % (pt, f, g), 'params': {},
                'conds': draw(st.lists(st.sampled_from(['a > 0', 'a != 0']), max_size=1)), 'seeds': draw(seeds)}
    S['LHopital'] = c_lhopital()

    dfuns = ('sin', 'cos', 'exp', 'log', 'sqrt', 'atan', 'tan', 'sec', 'csc', 'cot', 'asin', 'acos', 'acot', 'abs', 'sinh')

    @st.composite
    def deriv_body(draw):
        shape = draw(st.sampled_from(['point', 'point', 'point', 'special', 'int']))
        if shape == 'point':
            return draw(pointwise(leaves=5, funs=dfuns))
        if shape == 'special':
            return draw(st.sampled_from(['x ^ a', 'a ^ x', 'x ^ x', '(1 + x ^ 2) ^ x', 'a / x ^ 3', 'a / (x + 1) ^ (1/2)', 'x ^ (-a)',
                                         'cot(2 * x)', 'cot(x ^ 2)', 'acot(2 * x)', 'acot(x) * x', 'csc(3 * x)', 'sec(x ^ 2)',
                                         'sqrt(2) * x', 'sqrt(x) * sqrt(3)', '1 / sqrt(x)', 'binom(4, 2) * x', 'pi * x ^ 2',
                                         'log(abs(x))', 'abs(x) ^ 3', 'asin(x / 2)', 'acos(1 - x)', 'atan(a * x)', 'exp(-x ^ 2 / 2)',
                                         'sin(x) ^ cos(x)', '2 ^ (x ^ 2)', '(x ^ 2) ^ (1/2)', 'tan(x) ^ 2', '1 / tan(x)', 'x / (1 + x)']))
        f = draw(pointwise(var='t', params=('x',), leaves=3))
        lo, hi = draw(st.sampled_from([('0', 'x'), ('x', '1'), ('0', '1'), ('x', 'x ^ 2'), ('0', 'sin(x)'), ('-x', 'x'), ('1', '2 * x')]))
        return 'INT t:[%s,%s]. %s' % (lo, hi, f)

    @st.composite
    def c_deriv(draw):
        return {'kind': 'deriv', 'e': draw(deriv_body()), 'var': 'x', 'conds': draw(conds), 'seeds': draw(seeds)}
    S['deriv'] = c_deriv()

    @st.composite
    def c_derivsimp(draw):
        return {'kind': 'rule', 'rule': 'DerivativeSimplify', 'e': 'D x. %s' % draw(deriv_body()), 'params': {}, 'conds': draw(conds),
                'seeds': draw(seeds)}
    S['DerivativeSimplify'] = c_derivsimp()

    @st.composite
    def c_derivint(draw):
        f = draw(st.one_of(st.sampled_from(DI_F), st.sampled_from(DI_F), pointwise(leaves=3)))
        b = draw(st.sampled_from(DI_BOUNDS))
        shape = draw(st.sampled_from(['int-of-deriv', 'int-of-deriv', 'deriv-of-int', 'deriv-of-int', 'indef-of-deriv', 'deriv-of-indef']))
        e = {'int-of-deriv': 'INT x:[%s,%s]. D a. %s', 'deriv-of-int': 'D a. INT x:[%s,%s]. %s'}.get(shape)
        if e is not None:
            e = e % (b[0], b[1], f)
        else:
            e = ('INT x. D a. %s' if shape == 'indef-of-deriv' else 'D a. INT x. %s') % f
        rname = 'DerivIntExchange'
        if draw(st.integers(0, 2)) == 0:
            e = draw(st.sampled_from(['2 * (%s) + a', '(%s) / a', '-(%s)'])) % e
            rname = 'OnSubterm:DerivIntExchange'
        cs = draw(st.lists(st.sampled_from(['a > 0', 'a > 0', 'a > 1', 'b > 0']), min_size=1, max_size=2, unique=True))
        return {'kind': 'rule', 'rule': rname, 'e': e, 'params': {}, 'conds': cs, 'seeds': draw(seeds)}
    S['DerivIntExchange'] = c_derivint()

    @st.composite
    def c_simppow(draw):
        p = draw(st.sampled_from(['2', '2', '4', '-2', '3', '1/2', 'a', 'n', '2 * n', '1/3', '-1', '6']))
        q = draw(st.sampled_from(['1/2', '1/2', '3/2', '1/4', '-1/2', '1/3', '2', '3', 'a', '-1', 'n', '1/6']))
        c = draw(st.sampled_from(['2', '(1/2)', '3', '(-2)', '(-1)', '10']))
        base = draw(st.sampled_from(['x', 'x', '(x - 1)', 'sin(x)', '(x + a)', '(-x)', 'cos(x)']))
        e = draw(st.sampled_from(['(%(b)s ^ (%(p)s)) ^ (%(q)s)', '(%(b)s ^ (%(p)s)) ^ (%(q)s)', '(1 / %(b)s ^ (%(p)s)) ^ (%(q)s)',
                                  '%(c)s ^ (x + (%(p)s))', '%(c)s ^ (x - (%(p)s))',
                                  '(-%(b)s) ^ (%(p)s)', '(-%(b)s - a) ^ (%(p)s)', 'exp((%(p)s) * log(%(b)s))',
                                  '(%(b)s ^ (%(p)s)) ^ (%(q)s) + %(b)s', 'INT x:[-1,2]. (%(b)s ^ (%(p)s)) ^ (%(q)s)',
                                  'INT x:[0,-1]. (%(b)s ^ (%(p)s)) ^ (%(q)s)', 'INT x:[1,-2]. (1 / %(b)s ^ (%(p)s)) ^ (%(q)s)',
                                  'sqrt((%(b)s ^ (%(p)s)) ^ (%(q)s))', '((%(b)s ^ (%(p)s)) ^ (%(q)s)) ^ (%(p)s)'])) % \
            {'b': base, 'p': p, 'q': q, 'c': c}
        rname = draw(st.sampled_from(['OnSubterm:SimplifyPower', 'SimplifyPower', 'FullSimplify']))
        focus = draw(st.integers(0, 5))
        if focus == 0:
            # an even power under a fractional one: x ^ (p * q) differs from (x ^ p) ^ q exactly where x < 0
            e = '(%s ^ (%s)) ^ (%s)' % (draw(st.sampled_from(['x', 'x', '(x - 1)', '(-x)', '(x + 1)'])), draw(st.sampled_from(['2', '2', '4', '6', '-2'])),
                                        draw(st.sampled_from(['1/2', '1/2', '3/2', '1/4', '1/6', '-1/2'])))
            e = draw(st.sampled_from(['%s', '%s', '(%s) * x', '1 / (%s)', '(%s) + a'])) % e
            b = draw(st.sampled_from(NEG_BOUNDS))
            e = 'INT x:[%s,%s]. %s' % (b[0], b[1], e)
            rname = draw(st.sampled_from(['OnSubterm:SimplifyPower', 'OnSubterm:SimplifyPower', 'FullSimplify']))
        if focus <= 1 and not e.startswith('INT'):
            # under an integral over a generated interval with ascending or descending bounds
            b = draw(st.one_of(fbounds, rbounds))
            e = 'INT x:[%s,%s]. %s' % (b[0], b[1], e)
        if e.startswith('INT') and rname == 'SimplifyPower':
            rname = 'OnSubterm:SimplifyPower'          # the plain rule only looks at the root
        return {'kind': 'rule', 'rule': rname, 'e': e, 'params': {}, 'conds': draw(conds), 'seeds': draw(seeds)}
    S['SimplifyPower'] = c_simppow()

    @st.composite
    def c_redlim(draw):
        shape = draw(st.sampled_from(['inf', 'inf', 'finite', 'sum', 'neg-inf']))
        if shape == 'inf':
            e = 'LIM {x -> oo}. %s' % draw(st.sampled_from(LIM_INF))
        elif shape == 'neg-inf':
            e = 'LIM {x -> -oo}. %s' % draw(st.sampled_from(LIM_NEG_INF))
        elif shape == 'sum':
            e = 'LIM {x -> oo}. (%s) %s (%s)' % (draw(st.sampled_from(LIM_INF)), draw(st.sampled_from(['+', '-', '*', '/'])), draw(st.sampled_from(LIM_INF)))
        else:
            pt = draw(st.sampled_from(['0', '1', '-1', '2', 'pi / 2', '0 +', '0 -', '1 -', 'a']))
            e = 'LIM {x -> %s}. %s' % (pt, draw(st.one_of(pointwise(leaves=4), st.sampled_from(
                ['sin(x) / x', '(x ^ 2 - 1) / (x - 1)', 'x * log(x)', 'abs(x) / x', '1 / x', 'exp(-1 / x)', 'tan(x)', 'x ^ x', 'atan(1 / x)',
                 'x / sin(x)', 'x / tan(x)', 'x / atan(x)', 'x ^ 2 / sin(x) ^ 2', 'x / asin(x)', '(x - 1) / log(x)', 'x / sinh(x)',
                 '(1 - cos(x)) / x ^ 2', 'x / abs(x)', 'log(x) * (x - 1)', 'sin(1 / x) * x']))))
        return {'kind': 'rule', 'rule': draw(st.sampled_from(['ReduceLimit', 'ReduceLimit', 'FullSimplify'])), 'e': e, 'params': {},
                'conds': draw(st.lists(st.sampled_from(['a > 0', 'a < 0', 'a > 1']), max_size=1)), 'seeds': draw(seeds)}
    S['ReduceLimit'] = c_redlim()

    @st.composite
    def c_bounds(draw):
        cs = []
        vs = ['x'] + (['y'] if draw(st.booleans()) else [])
        for v in vs:
            lo, hi = draw(st.sampled_from(RANGES))
            if lo is not None:
                cs.append('%s %s %s' % (v, draw(st.sampled_from(['>', '>='])), lo))
            if hi is not None:
                cs.append('%s %s %s' % (v, draw(st.sampled_from(['<', '<='])), hi))
        e = draw(pointwise(params=tuple(vs[1:]) or ('2',), leaves=5, funs=('sin', 'cos', 'exp', 'log', 'sqrt', 'abs', 'atan'),
                           exps=tuple(vs[1:]) * 3 + ('x',)))
        if draw(st.integers(0, 4)) == 0:
            # a power whose base and exponent both range over intervals of positive numbers
            cs = []
            for v in ('x', 'y'):
                lo, hi = draw(st.sampled_from(POS_RANGES))
                cs.append('%s %s %s' % (v, draw(st.sampled_from(['>', '>='])), lo))
                if hi is not None:
                    cs.append('%s %s %s' % (v, draw(st.sampled_from(['<', '<='])), hi))
            e = draw(st.sampled_from(['x ^ y', 'x ^ y', '(x ^ y) * 2', 'x ^ y + x', 'log(x ^ y)', '(1/2) ^ y', 'x ^ (y + 1)', '(x + 1/4) ^ y',
                                      'sqrt(x) ^ y', '1 / x ^ y', 'x ^ (2 * y)', '(x * y) ^ y', 'x ^ y - y ^ x', 'exp(x ^ y)', '(x / 2) ^ (y / 2)',
                                      '2 ^ y', 'x ^ x']))
        if draw(st.integers(0, 3)) == 0:
            # end points: a polynomial shape under conditions with open and closed ends (also intervals symmetric about
            # 0, where both ends of x give the same value of an even power), probed AT the ends
            lo, hi = draw(st.sampled_from([('-2', '2'), ('-1', '1'), ('-3', '3'), ('-1/2', '1/2'), ('-1', '2'), ('-2', '1'), ('0', '2'),
                                           ('1', '3'), ('-3', '-1'), ('-2', '0')]))
            cs = ['x %s %s' % (draw(st.sampled_from(['>', '>='])), lo), 'x %s %s' % (draw(st.sampled_from(['<', '<='])), hi)]
            p = draw(st.sampled_from(['2', '2', '4', '3', '6', '1']))
            c = draw(st.sampled_from(['1', '2', '4', '9', '16', '1/4']))
            e = draw(st.sampled_from(['x ^ %(p)s', '%(c)s - x ^ %(p)s', 'x ^ %(p)s + %(c)s', '%(c)s * x ^ %(p)s', '(x ^ %(p)s) ^ 2',
                                      '-(x ^ %(p)s)', 'x ^ %(p)s - x ^ 2', '(x - 1) ^ %(p)s', 'x ^ %(p)s * x', '(2 * x) ^ %(p)s',
                                      '(-x) ^ %(p)s', '%(c)s - (x ^ 2) ^ %(p)s', 'x ^ 2 * x ^ %(p)s',
                                      'x * x', 'x * (x - 1)', 'x + x ^ %(p)s', 'x * x * x', '1 / (x + 4)', 'abs(x)', 'x / (x + 4)',
                                      '(x + 1) * (x - 1)', 'x - x ^ %(p)s', 'sqrt(x + 4)', 'exp(x)', 'abs(x) ^ %(p)s', '%(c)s / (x + 4) ^ %(p)s',
                                      'abs(x - 1)', '-x * x', 'exp(-x ^ 2)', 'x ^ %(p)s / %(c)s', '(x + 4) ^ (1/2) * x'])) % {'p': p, 'c': c}
            pts = [lo, hi, '0', str((Fraction(lo) + Fraction(hi)) / 2)]
            return {'kind': 'bounds', 'endpoint': True, 'e': e, 'conds': cs, 'draws': [{'x': q} for q in pts]}
        return {'kind': 'bounds', 'e': e, 'conds': cs, 'seeds': draw(st.lists(st.integers(0, 2 ** 20), min_size=6, max_size=6))}
    S['bounds'] = c_bounds()

    names = st.sampled_from(['x', 'y', 'a', 'n'])
    leaf = st.one_of(names.map(lambda n: ['var', n]),
                     st.sampled_from(['0', '1', '2', '3', '-1', '-2', '1/2', '-1/2', '3/2', '-5/3', '10']).map(lambda c: ['const', c]),
                     st.just(['fun', 'pi']))
    small = st.one_of(leaf, st.tuples(st.sampled_from(['+', '-', '*', '/']), leaf, leaf).map(lambda t: ['op', t[0], t[1], t[2]]),
                      leaf.map(lambda c: ['op', '-', c]))
    bnd = st.one_of(small, small, st.sampled_from(['oo', '-oo']).map(lambda s: ['inf', s]))
    limpt = st.one_of(st.sampled_from(['0', '1', '-1', '1/2']).map(lambda c: (['const', c], True)),
                      st.just((['var', 'a'], True)), st.sampled_from(['oo', '-oo']).map(lambda s: (['inf', s], False)))

    def text(ch):
        return st.one_of(
            st.tuples(st.sampled_from(['+', '-', '*', '/', '^']), ch, ch).map(lambda t: ['op', t[0], t[1], t[2]]),
            st.tuples(st.sampled_from(['+', '-', '*', '/', '^']), ch, ch).map(lambda t: ['op', t[0], t[1], t[2]]),
            ch.map(lambda c: ['op', '-', c]),
            st.tuples(st.sampled_from(['sin', 'cos', 'exp', 'log', 'sqrt', 'abs', 'factorial', 'f']), ch).map(lambda t: ['fun', t[0], t[1]]),
            st.tuples(small, small).map(lambda t: ['fun', 'binom', t[0], t[1]]),
            st.tuples(bnd, bnd, ch).map(lambda t: ['int', 'x', t[0], t[1], t[2]]),
            st.tuples(bnd, bnd, ch).map(lambda t: ['evalat', 'x', t[0], t[1], t[2]]),
            st.tuples(limpt, ch, st.sampled_from([None, '+', '-'])).map(lambda t: ['lim', 'x', t[0][0], t[1], t[2] if t[0][1] else None]),
            ch.map(lambda c: ['deriv', 'x', c]),
            st.tuples(st.sampled_from(['0', '1']), st.sampled_from([['inf', 'oo'], ['var', 'a'], ['const', '5']]), ch).map(
                lambda t: ['sum', 'n', ['const', t[0]], t[1], t[2]]),
            ch.map(lambda c: ['indef', 'x', c, []]))
    term = st.recursive(leaf, text, max_leaves=7)
    top = st.one_of(term, term, term, st.tuples(term, term, st.sampled_from(['=', '<', '>=', '!='])).map(lambda t: ['op', t[2], t[0], t[1]]))
    S['roundtrip'] = top.map(lambda t: {'kind': 'roundtrip', 'tree': t})
    return S


QUICK_N = {'DerivIntExchange': 80, 'EquationIntegrals': 60, 'Simplify': 120, 'FullSimplify': 120, 'normalize': 120, 'Linearity': 90, 'Substitution': 180, 'SubstitutionInverse': 120,
           'IntegrationByParts': 120, 'SplitRegion': 100, 'ExpandPolynomial': 90, 'Equation': 200, 'ApplyIdentity': 150,
           'ElimInfInterval': 80, 'LHopital': 100, 'deriv': 120, 'DerivativeSimplify': 90, 'SimplifyPower': 240, 'ReduceLimit': 150,
           'bounds': 300, 'roundtrip': 600}


# ---------------------------------------------------------------- ApplyIdentity cases built from the base book
_ident = {}


def base_identities():
    if 'l' not in _ident:
        with open(os.path.join(EX_DIR, 'base.json'), encoding='utf-8') as f:
            data = json.load(f)
        out = []
        for it in data.get('content', []):
            if it.get('type') in ('axiom', 'problem') and 'category' in it:
                try:
                    eq = P(it['expr'])
                except CaseInvalid:
                    continue
                if eq.ty == L.OP and eq.op == '=':
                    out.append((eq.args[0], eq.args[1]))
                    if 'bidirectional' in (it.get('attributes') or []):
                        out.append((eq.args[1], eq.args[0]))
        _ident['l'] = out
    return _ident['l']


def run_identity_case(case, H):
    ids = base_identities()
    if not ids:
        raise CaseInvalid('no identities')
    try:
        lhs, rhs = ids[int(case['index']) % len(ids)]
        inst = {str(k): P(str(v)) for k, v in case['inst'].items()}
        wrap, wrong = str(case.get('wrap', 'none')), int(case.get('wrong', 0))
    except (KeyError, TypeError, ValueError):
        raise CaseInvalid('identity case')

    def instantiate(t):
        # simultaneous substitution of the identity's variables (input construction only)
        tmp = t
        names = sorted(L.free_vars(t))
        for i, v in enumerate(names):
            tmp = tmp.subst(v, expr.Var('zz%d' % i))
        for i, v in enumerate(names):
            if v in inst:
                tmp = tmp.subst('zz%d' % i, inst[v])
            else:
                tmp = tmp.subst('zz%d' % i, expr.Var(v))
        return tmp
    try:
        src, tgt = instantiate(lhs), instantiate(rhs)
    except Exception:
        raise CaseInvalid('instantiate')
    if wrong:
        tgt = expr.Op('+', tgt, expr.Const(1)) if wrong == 1 else expr.Op('*', expr.Const(2), tgt)
    e = {'none': src, 'plus': expr.Op('+', expr.Op('*', expr.Const(2), src), expr.Var('x')),
         'int': expr.Integral('x', expr.Const(0), expr.Const(1), src)}.get(wrap)
    if e is None:
        raise CaseInvalid('wrap')
    rc = {'kind': 'rule', 'rule': 'ApplyIdentity', 'e': str(e), 'params': {'source': str(src), 'target': str(tgt)},
          'conds': case.get('conds', []), 'seeds': case.get('seeds', [1, 2, 3])}
    if case.get('draws'):
        rc['draws'] = case['draws']
    run_rule_case(rc, H)


# ============================================================================================ case interface (final)
def run_case(case, H):
    if not isinstance(case, dict):
        raise CaseInvalid('case')
    kind = case.get('kind')
    if kind == 'step':
        run_step_case(case, H)
    elif kind == 'rule':
        run_rule_case(case, H)
    elif kind == 'identity':
        run_identity_case(case, H)
    elif kind == 'deriv':
        run_deriv_case(case, H)
    elif kind == 'normalize':
        run_normalize_case(case, H)
    elif kind == 'bounds':
        run_bounds_case(case, H)
    elif kind == 'roundtrip':
        run_roundtrip_case(case, H)
    else:
        raise CaseInvalid('kind')


def shards(tier):
    out = [{'kind': 'file', 'file': name} for name, _ in file_list()]
    mult = 1 if tier == 'quick' else 40
    for gname in sorted(QUICK_N):
        n = QUICK_N[gname] * mult
        per = {'roundtrip': 150, 'bounds': 150, 'DerivIntExchange': 20}.get(gname, 40)
        k = max(1, -(-n // per)) if tier == 'quick' else 32
        for i, m in enumerate(harness.split(n, k)):
            out.append({'kind': 'gen', 'gen': gname, 'n': m, 'i': i})
    # every identity of the base book, with a correct and (every 4th) a perturbed target
    nparts = 4 if tier == 'quick' else 16
    for i in range(nparts):
        out.append({'kind': 'gen', 'gen': 'ApplyIdentityAll', 'n': 2 if tier == 'quick' else 12, 'i': i, 'parts': nparts})
    # long shards first
    out.sort(key=lambda d: (0 if d['kind'] == 'gen' else 1, json.dumps(d, sort_keys=True)))
    return out


_strategies = {}


def run_shard(desc, seed, tier, H):
    import time as _t
    t0, c0 = _t.time(), _t.process_time()
    try:
        _run_shard(desc, seed, tier, H)
    finally:
        if os.environ.get('C19_TIMING'):
            H.note('wall_ds:%s' % (desc.get('file') or '%s#%d' % (desc.get('gen'), desc.get('i', 0))), int(10 * (_t.time() - t0)))
            H.note('cpu_ds:%s' % (desc.get('file') or '%s#%d' % (desc.get('gen'), desc.get('i', 0))), int(10 * (_t.process_time() - c0)))


def _run_shard(desc, seed, tier, H):
    kind = desc['kind']
    if kind == 'file':
        run_file_shard(desc, seed, tier, H)
    elif kind == 'gen' and desc['gen'] == 'ApplyIdentityAll':
        H.exploring = True
        pool = ['x', '2 * x', 't', 'x + 1', '-x', 'x ^ 2', '1/2', '2', '-2', '3', 'x - t', 't / 2', '1/3', 'x * t', '-1', '4',
                'sin(x)', '1 - x']
        ids = base_identities()
        for idx in range(len(ids)):
            if idx % desc['parts'] != desc['i']:
                continue
            for j in range(desc['n']):
                inst = {v: pool[_h('inst', seed // 1000, idx, j, v) % len(pool)]
                        for v in ('a', 'b', 'k', 'x', 'y', 'u', 'z', 'm', 'n')}
                case = {'kind': 'identity', 'index': idx, 'inst': inst, 'wrap': ['none', 'plus', 'int'][j % 3],
                        'wrong': 1 if (idx + j) % 4 == 3 else 0, 'conds': [],
                        'seeds': [_h('seed', seed // 1000, idx, j, q) % (2 ** 20) for q in range(3)]}
                run_case(case, H)
    elif kind == 'gen':
        if 'S' not in _strategies:
            _strategies['S'] = strategies()
        strat = _strategies['S'][desc['gen']]

        seen = set()

        H.exploring = True

        def body(case):
            key = harness.canon({k: v for k, v in case.items() if k != 'seeds'})
            if key in seen:
                H.note('gen_duplicate_skipped')
                return
            seen.add(key)
            run_case(case, H)
        harness.hyp_run(strat, body, desc['n'], seed)


def run_file_shard(desc, seed, tier, H):
    ndraws = 2 if tier == 'quick' else 5
    limit_s = 4.0 if tier == 'quick' else 15.0
    try:
        lf = load_file(desc['file'])
    except Exception as ex:
        H.note('file_load_failed:' + type(ex).__name__)
        return
    for idx in sorted(lf.items):
        rec = lf.items[idx]
        if rec['error']:
            H.note('item_load_failed')
            continue
        for path in sorted(rec['calcs']):
            calc = rec['calcs'][path]
            # the draws are shared along a calculation (so that values are computed once per expression)
            seeds = [_h('seed', seed // 1000, lf.name, idx, path, j) % (2 ** 31) for j in range(ndraws)]
            for k in range(len(calc.steps)):
                case = {'kind': 'step', 'file': lf.name, 'item': idx, 'path': path, 'step': k, 'seeds': seeds}
                run_step_case(case, H, limit_s)
