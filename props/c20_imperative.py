"""C20 — program evaluation and VC generation are sound with respect to execution.

Cases (JSON; the trees are those of vlib/c20_lib.py):
  {"kind": "vc",   "com": K, "pre": C, "post": C, "sseed": n}   integer program through imperative.com / expr / parser2
  {"kind": "cond", "c": C, "sseed": n}                          one condition, shown as the VC of `skip`
  {"kind": "sem",  "com": K, "init": [v0..v5]}                  nat program through imperative.imp.eval_Sem
  {"kind": "hvcg", "com": K, "pre": C, "post": C, "sseed": n}   nat program through imperative.imp.vcg_norm / vcg_tactic
"""
import contextlib
import re
import signal

from vlib import harness
from vlib import c20_lib as L
from vlib.harness import Timeout, CaseInvalid, SelfTestError
from vlib.c20_lib import Unsupported, ReadError

ID = 'C20'
RULE = ("Integer while-programs over a b c i n s (skip, assignment, sequence, conditional, annotated loop; nesting <= 4; "
        "+ - * unary minus abs max; assertions with == != <= < ~ & | --> if-then-else) are generated as JSON trees, built "
        "with the constructors of imperative.com/expr, and given a precondition and postcondition; 30 initial states in "
        "-6..6 per case (4 corner states + a sample that is a pure function of the case). Generators: random loop-free "
        "programs; loop templates with correct inductive invariants (counting, accumulating, countdown, multiplication, "
        "conditional body, nested loops) under variable renaming and one drawn mutation (post / invariant / guard / "
        "body / pre); random guarded loops with random invariants; loops whose invariant holds at entry but is not "
        "inductive; single conditions. Oracles: (a) loop-free: "
        "compute_wp(c,Q) evaluated in s <=> Q evaluated in run(c,s), reference interpreter; (b) every run from a "
        "pre-state that terminates (fuel 200) must end in a post-state unless some generated VC (its HOL form, own "
        "evaluator) is false on a sampled or visited state; a run that violates the postcondition while all VCs hold there "
        "is confirmed by z3 validity of every VC (own encoding, counter-models re-evaluated) before it is reported; (c) "
        "every shown condition (VC, invariant, guard): the computed object, its HOL form, the shown string read with the "
        "ordinary conventions (reference reader) and the shown string re-parsed by parser2.cond_parser must agree on all "
        "30 states; (d) nat programs over slots 0..5 of a nat=>nat state: imp.eval_Sem final state = reference "
        "interpreter, exported proof and the eval_Sem macro check with the kernel; imp.vcg_norm / vcg_tactic theorems "
        "check, conclude the goal, and their assumptions evaluated over states imply the triple on executed runs. "
        "Non-trivial: (a) >= 2 assignments and the postcondition mentions an assigned variable; (b) all VCs true on all "
        "sampled and visited states and a terminating run from a pre-state iterates a loop; (c) the shown object needs "
        "brackets under the ordinary conventions; (d) eval_Sem succeeded on a program with >= 2 assignments or a loop "
        "iteration / vcg_norm on a program whose loop iterates with all assumptions true. Distinct by canonical JSON.")
ASSUMPTIONS = [
    "meaning of a program / condition = integer (or natural-number) semantics of its syntax tree; every generated tree "
    "is the parse of its fully bracketed text, so real callers (app/imperative.py, parser2.process_file) can produce it",
    "the displayed syntax is read with the ordinary conventions: unary minus > * > + -, left associative; "
    "~ > & > | > -->, right associative (as in the grammar comments of parser2.py and the bracketing of sums under "
    "products in Op.__str__); if-then-else extends as far to the right as possible",
    "a shown string that parser2 rejects is counted (class reparse-rejected), not reported: the property does not ask "
    "for completeness",
    "validity of all VCs (needed only to confirm an unsound triple) is decided by z3 on an encoding written here; "
    "'unknown' is inconclusive",
    "arrays, fields, forall, and While without an invariant are outside the property's quantifier and are not generated",
    "how parser.py / parser2.py read unbracketed user text (a - b - c as a - (b - c), a * b + c as a * (b + c)) is "
    "recorded as notes only; the round trip shown-string -> cond_parser is what is reported",
    "imp.eval_Sem is only called when the reference interpreter terminates within its fuel (14 iterations, values "
    "<= 5000); runs whose values leave -10^9..10^9 are treated like runs out of fuel",
    "time limits (60 s eval_Sem / vcg_norm, 120 s proof checking) count CPU time of the process; a hit is inconclusive",
]
SHRINK_SECONDS = 20
SHRINK_BUDGET = 300

VARS = ['a', 'b', 'c', 'i', 'n', 's']
VARCTX = {v: 'int' for v in VARS}
NSTATES = 30
LO, HI = -6, 6
NSLOTS = 6
PARAMS = ['A', 'B']

R = {}      # code under test, filled by setup()


@contextlib.contextmanager
def time_limit(seconds):
    """Like harness.time_limit, but counts CPU time of this process (ITIMER_PROF), so that a busy machine does not turn
    cheap cases into time-outs (and runs stay reproducible).  The timer repeats every second after the first expiry
    because an exception raised inside a GC callback or a __del__ is swallowed by the interpreter."""
    def handler(signum, frame):
        raise Timeout()
    old = signal.signal(signal.SIGPROF, handler)
    signal.setitimer(signal.ITIMER_PROF, seconds, 1.0)
    try:
        yield
    finally:
        signal.setitimer(signal.ITIMER_PROF, 0)
        signal.signal(signal.SIGPROF, old)


def setup():
    from logic import basic
    from kernel import theory, term as kterm
    from kernel.type import TFun, NatType, BoolType
    from kernel.report import ProofReport
    from kernel.thm import Thm
    from kernel.proofterm import ProofTerm
    from data import nat
    from data.function import mk_const_fun, mk_fun_upd
    from imperative import expr, com, parser2, imp, parser
    import z3  # noqa: F401  (oracle only)
    basic.load_theory('hoare')
    R.update(expr=expr, com=com, parser2=parser2, imp=imp, parser=parser, theory=theory, kterm=kterm, nat=nat,
             TFun=TFun, NatType=NatType, BoolType=BoolType, ProofReport=ProofReport, Thm=Thm, ProofTerm=ProofTerm,
             mk_const_fun=mk_const_fun, mk_fun_upd=mk_fun_upd, thy=theory.thy)
    R['natFunT'] = TFun(NatType, NatType)
    selftest()


# ---------------------------------------------------------------- building objects of the code under test
def build_expr(e):
    X = R['expr']
    t = e[0]
    if t == 'v':
        return X.Var(e[1])
    if t == 'n':
        return X.Const(e[1])
    if t == 'neg':
        return X.Op('-', build_expr(e[1]))
    if t in L.ARITH:
        return X.Op(t, build_expr(e[1]), build_expr(e[2]))
    if t in ('abs', 'max'):
        return X.Fun(t, *[build_expr(x) for x in e[1:]])
    raise CaseInvalid('expr %r' % (t,))


def build_cond(c):
    X = R['expr']
    t = c[0]
    if t == 'true':
        return X.Const(True)
    if t in ('==', '!=', '<=', '<'):
        return X.Op(t, build_expr(c[1]), build_expr(c[2]))
    if t == '~':
        return X.Op('~', build_cond(c[1]))
    if t in ('&', '|', '-->'):
        return X.Op(t, build_cond(c[1]), build_cond(c[2]))
    if t == 'ite':
        return X.ITE(build_cond(c[1]), build_cond(c[2]), build_cond(c[3]))
    raise CaseInvalid('cond %r is not in the grammar of parser2' % (t,))


def build_com(k):
    C = R['com']
    t = k[0]
    if t == 'skip':
        return C.Skip()
    if t == 'asg':
        if not isinstance(k[1], str):
            raise CaseInvalid('variable')
        return C.Assign(k[1], build_expr(k[2]))
    if t == 'seq':
        return C.Seq(build_com(k[1]), build_com(k[2]))
    if t == 'if':
        return C.Cond(build_cond(k[1]), build_com(k[2]), build_com(k[3]))
    if t == 'while':
        return C.While(build_cond(k[1]), build_cond(k[2]), build_com(k[3]))
    raise CaseInvalid('com %r' % (t,))


def full_paren(t):
    """Fully bracketed text of a tree (no reliance on any precedence)."""
    tag = t[0]
    if tag in ('v', 'n'):
        return str(t[1])
    if tag == 'true':
        return 'true'
    if tag == 'neg':
        return '(-%s)' % full_paren(t[1])
    if tag in ('abs', 'max'):
        return '%s(%s)' % (tag, ', '.join(full_paren(x) for x in t[1:]))
    if tag in L.ARITH:
        return '(%s %s %s)' % (full_paren(t[1]), tag, full_paren(t[2]))
    if tag in L.CMP:
        return '(%s %s %s)' % (full_paren(t[1]), tag, full_paren(t[2]))
    if tag == '~':
        return '(~%s)' % full_paren(t[1])
    if tag in L.BOOL2:
        return '(%s %s %s)' % (full_paren(t[1]), tag, full_paren(t[2]))
    if tag == 'ite':
        return '(if %s then %s else %s)' % tuple(full_paren(x) for x in t[1:])
    raise Unsupported(tag)


def states_for(case, names=VARS, lo=LO, hi=HI, n=NSTATES):
    sseed = case.get('sseed', 0)
    if not isinstance(sseed, int) or isinstance(sseed, bool):
        raise CaseInvalid('sseed')
    return L.lcg_states(sseed, n, names, lo, hi)


def exc_name(e):
    return type(e).__name__


# ---------------------------------------------------------------- (a) weakest precondition of loop-free programs
def wp_mismatch(wp_j, com_j, post_j, states):
    """Oracle (a): first state on which wp and execution disagree, or None."""
    for st in states:
        fin, _, _ = L.run(com_j, st)
        if fin is None:
            continue
        if bool(L.ev_cond(wp_j, st)) != bool(L.ev_cond(post_j, fin)):
            return st
    return None


def repo_wp(com_j, post_j):
    c = build_com(com_j)
    wp = c.compute_wp(build_cond(post_j))
    return L.obj_to_json(wp)


_PROBE_POSTS = [['<=', ['v', v], ['n', 1]] for v in VARS] + \
    [['ite', ['<=', ['v', 'a'], ['v', 'b']], ['<=', ['v', 'c'], ['v', 'i']], ['<=', ['v', 'n'], ['v', 's']]]] + \
    [['<=', ['+', ['+', ['v', 'a'], ['*', ['n', 2], ['v', 'b']]], ['+', ['*', ['n', 3], ['v', 'c']],
                                                                        ['+', ['*', ['n', 5], ['v', 'i']],
                                                                         ['+', ['*', ['n', 7], ['v', 'n']],
                                                                          ['*', ['n', 11], ['v', 's']]]]]], ['n', 2]]]


def localise_wp(com_j, post_j, states):
    """Feature for the signature: constructor of the smallest sub-command whose wp is wrong."""
    for sub in L.subcoms(com_j):
        for q in [post_j] + _PROBE_POSTS:
            try:
                if wp_mismatch(repo_wp(sub, q), sub, q, states) is not None:
                    return sub[0]
            except Exception:
                continue
    return com_j[0]


def check_wp(case, com_j, post_j, states, H):
    try:
        wp_j = repo_wp(com_j, post_j)
    except CaseInvalid:
        raise
    except Unsupported as e:
        H.inconc('wp-object-unsupported')
        return 'wp:unsupported'
    except Exception as e:
        H.note('compute_wp-rejected:' + exc_name(e))
        return 'wp:rejected'
    bad = wp_mismatch(wp_j, com_j, post_j, states)
    if bad is not None:
        feat = localise_wp(com_j, post_j, states)
        H.violation('compute_wp:differs-from-execution:%s' % feat, case,
                    'wp = %s ; in state %s wp is %s but the postcondition after running is %s' % (
                        L.std_str(wp_j), bad, bool(L.ev_cond(wp_j, bad)),
                        bool(L.ev_cond(post_j, L.run(com_j, bad)[0]))))
        return 'wp:violating'
    return 'wp:ok'


# ---------------------------------------------------------------- reading VCs and shown conditions back
def vc_objects(c):
    """The VCs as trees, read from the pre/post lists the code under test left on the commands, in display order.
    (`true --> X` and `X` mean the same; X alone is used for a true premise, as the display does.)"""
    out = []

    def add(ls):
        for i in range(len(ls) - 1):
            p, q = L.obj_to_json(ls[i]), L.obj_to_json(ls[i + 1])
            out.append(q if p == ['true'] else ['-->', p, q])

    def rec(cmd):
        cls = type(cmd).__name__
        add(cmd.pre)
        if cls == 'Seq':
            rec(cmd.c1)
            rec(cmd.c2)
        elif cls == 'Cond':
            rec(cmd.c1)
            rec(cmd.c2)
        elif cls == 'While':
            rec(cmd.c)
            add(cmd.post)
    rec(c)
    return out


def shown_conditions(com_j):
    """(tag, tree) of the guards and invariants in display order."""
    out = []

    def rec(k):
        t = k[0]
        if t == 'seq':
            rec(k[1])
            rec(k[2])
        elif t == 'if':
            out.append(('if', k[1]))
            rec(k[2])
            rec(k[3])
        elif t == 'while':
            out.append(('while', k[1]))
            out.append(('inv', k[2]))
            rec(k[3])
    rec(com_j)
    return out


_RE_IF = re.compile(r'^if \((.*)\) then$')
_RE_WHILE = re.compile(r'^while \((.*)\) \{$')
_RE_INV = re.compile(r'^\[(.*)\]$')


def values(tree, states):
    return [bool(L.ev_cond(tree, st)) for st in states]


def check_shown(case, tag, obj_j, shown, hol, states, H):
    """Oracle (c) for one shown condition.  Returns the list of classes."""
    klass = []
    try:
        v_obj = values(obj_j, states)
    except Unsupported:
        H.inconc('object-unsupported')
        return ['shown:unsupported']
    nb = L.needs_brackets(obj_j)
    klass.append('shown:%s:%s' % (tag, 'needs-brackets' if nb else 'flat'))
    # HOL form
    if hol is not None:
        try:
            v_hol = [bool(L.hol_eval(hol, st)) for st in states]
        except L.Malformed:
            H.note('hol-form-malformed')
            klass.append('hol-form-malformed')
            v_hol = None
        except Unsupported as e:
            H.inconc('hol-unsupported')
            v_hol = None
        if v_hol is not None and v_hol != v_obj:
            k = [i for i in range(len(states)) if v_hol[i] != v_obj[i]][0]
            H.violation('convert_hol:meaning-differs', case,
                        'computed %s ; HOL form %s ; state %s: computed %s, HOL %s' % (
                            L.std_str(obj_j), hol, states[k], v_obj[k], v_hol[k]))
            klass.append('!hol-differs')
    # shown string, ordinary reading
    std_ok = None
    try:
        v_std = values(L.std_read(shown), states)
        std_ok = (v_std == v_obj)
    except (ReadError, Unsupported, KeyError):
        H.inconc('reference-reader-failed')
        v_std = None
    if std_ok is False:
        k = [i for i in range(len(states)) if v_std[i] != v_obj[i]][0]
        try:
            same_toks = L.tokens_without_brackets(shown) == L.tokens_without_brackets(L.std_str(obj_j))
        except ReadError:
            same_toks = False
        H.violation('display:shown-differs-from-computed:%s' % ('brackets' if same_toks else 'tokens'), case,
                    'computed %s ; shown as "%s" ; state %s: computed %s, shown %s' % (
                        L.std_str(obj_j), shown, states[k], v_obj[k], v_std[k]))
        klass.append('!shown-differs')
    # shown string, re-parsed by the code under test
    try:
        rj = L.obj_to_json(R['parser2'].cond_parser.parse(shown))
        v_rep = values(rj, states)
    except Unsupported:
        H.inconc('reparsed-object-unsupported')
        v_rep = None
    except KeyError:
        v_rep = None
        H.inconc('reparsed-unknown-variable')
    except Exception as e:
        v_rep = None
        klass.append('reparse-rejected')
    if v_rep is not None and v_rep != v_obj:
        klass.append('!reparse-differs')
        if std_ok:
            k = [i for i in range(len(states)) if v_rep[i] != v_obj[i]][0]
            H.violation('reparse:parser-reads-shown-condition-differently', case,
                        'computed %s ; shown as "%s" ; cond_parser reads %s ; state %s: computed %s, re-parsed %s' % (
                            L.std_str(obj_j), shown, L.std_str(rj), states[k], v_obj[k], v_rep[k]))
    return klass


# ---------------------------------------------------------------- (b) soundness on executed runs
def soundness(pre_holds, post_holds, vc_evals, com_j, states, fuel=200):
    """Trace-local oracle.  vc_evals: list of functions state -> bool.  Returns a dict:
    bad: (initial, final) of a run from a pre-state ending outside the postcondition, or None
    vcs_hold: all VCs true on all sampled and visited states
    iterated: some terminating run from a pre-state iterated a loop; runs / fuel_out: counts."""
    seen = {}
    bad = None
    iterated = False
    runs = fuel_out = 0
    for st in states:
        seen[harness.canon(st)] = st
    for st in states:
        if not pre_holds(st):
            continue
        fin, visited, iters = L.run(com_j, st, fuel)
        for v in visited:
            seen.setdefault(harness.canon(v), v)
        if fin is None:
            fuel_out += 1
            continue
        runs += 1
        if iters > 0:
            iterated = True
        if not post_holds(fin) and bad is None:
            bad = (st, fin)
    allst = list(seen.values())
    failing = None
    for idx, f in enumerate(vc_evals):
        for st in allst:
            if not f(st):
                failing = (idx, st)
                break
        if failing:
            break
    return {'bad': bad, 'vcs_hold': failing is None, 'failing': failing, 'iterated': iterated, 'runs': runs,
            'fuel_out': fuel_out, 'nstates': len(allst)}


def confirm_valid(hols, names, nat=False, fixed=None):
    """All VCs valid according to z3?  'valid' | 'invalid' | 'unknown'."""
    fixed = fixed or {}
    for hol in hols:
        def build(syms, hol=hol):
            env = dict(syms)
            env.update(fixed)
            return L.hol_eval(hol, env)

        def chk(model, hol=hol):
            env = dict(model)
            env.update(fixed)
            return not L.hol_eval(hol, env)
        r, _ = L.z3_valid(build, names, nat=nat, check=chk)
        if r != 'valid':
            return r
    return 'valid'


def check_vc(case, H):
    com_j, pre_j, post_j = case.get('com'), case.get('pre'), case.get('post')
    L.check_com(com_j)
    L.check_cond(pre_j)
    L.check_cond(post_j)
    if (L.vars_of(com_j) | L.vars_of(pre_j) | L.vars_of(post_j) | L.assigned_vars(com_j)) - set(VARS):
        raise CaseInvalid('variables')
    if L.com_depth(com_j) > 4:
        raise CaseInvalid('nesting')
    states = states_for(case)
    loopfree = not L.has_while(com_j)
    klass = []
    nontrivial = False
    nasg = sum(1 for x in L.subcoms(com_j) if x[0] == 'asg')

    # (a)
    if loopfree:
        k = check_wp(case, com_j, post_j, states, H)
        klass.append(k)
        if k == 'wp:ok' and nasg >= 2 and (L.vars_of(post_j) & L.assigned_vars(com_j)):
            nontrivial = True
            klass.append('wp:ok:nontrivial')

    # VC generation as the application does it
    try:
        c = build_com(com_j)
        c.pre = [build_cond(pre_j)]
        c.compute_wp(build_cond(post_j))
        lines = c.get_lines(dict(VARCTX))
    except CaseInvalid:
        raise
    except Exception as e:
        H.note('vcgen-rejected:' + exc_name(e))
        klass.append('vcgen:rejected')
        H.case(case, nontrivial, klass)
        return
    vcl = [l for l in lines if l['ty'] == 'vc']
    hols = [l['prop'] for l in vcl]

    # (c) shown conditions
    try:
        objs = vc_objects(c)
    except Unsupported:
        objs = None
        H.inconc('vc-object-unsupported')
    if objs is not None and len(objs) != len(vcl):
        H.note('vc-count-mismatch')
        objs = None
    shown_nt = False
    if objs is not None:
        for o, l in zip(objs, vcl):
            shown = l['str']
            if shown.endswith(';'):
                # get_lines appends the `;` of a sequence to the last line, which is a VC line after a loop
                H.note('vc-shown-with-semicolon')
                shown = shown[:-1]
            ks = check_shown(case, 'vc', o, shown, l['prop'], states, H)
            klass.extend(ks)
            shown_nt = shown_nt or any(k.endswith('needs-brackets') for k in ks)
    exp = shown_conditions(com_j)
    got = []
    for l in lines:
        s = l['str'].rstrip(';')
        if l['ty'] == 'inv':
            m = _RE_INV.match(s)
            got.append(('inv', m.group(1) if m else None))
        elif l['ty'] == 'com':
            m = _RE_IF.match(s)
            if m:
                got.append(('if', m.group(1)))
            m = _RE_WHILE.match(s)
            if m:
                got.append(('while', m.group(1)))
    if [g[0] for g in got] == [e[0] for e in exp] and all(g[1] is not None for g in got):
        for (tag, tree), (_, shown) in zip(exp, got):
            ks = check_shown(case, tag, tree, shown, None, states, H)
            klass.extend(ks)
            shown_nt = shown_nt or any(k.endswith('needs-brackets') for k in ks)
    else:
        H.note('shown-structure-mismatch')
    if shown_nt:
        nontrivial = True
    check_program_text(com_j, lines, states, H)

    # (b) soundness against executed runs, VC truth = HOL form under the reference evaluator
    def mk(hol):
        return lambda st: bool(L.hol_eval(hol, st))
    try:
        res = soundness(lambda st: bool(L.ev_cond(pre_j, st)), lambda st: bool(L.ev_cond(post_j, st)),
                        [mk(h) for h in hols], com_j, states)
    except L.Malformed:
        klass.append('sound:hol-form-malformed')
        H.case(case, nontrivial, klass)
        return
    except Unsupported:
        H.inconc('vc-hol-unsupported')
        H.case(case, nontrivial, klass)
        return
    if res['fuel_out']:
        H.note('runs-out-of-fuel', res['fuel_out'])
    kind = 'loop' if not loopfree else 'loopfree'
    if res['bad'] is not None and res['vcs_hold']:
        verdict = confirm_valid(hols, VARS)
        if verdict == 'valid':
            feat = [x[0] for x in L.subcoms(com_j)]
            feat = 'while' if 'while' in feat else ('if' if 'if' in feat else 'straight')
            H.violation('vcgen:all-vcs-valid-but-run-violates-post:%s' % feat, case,
                        'VCs %s all valid (z3) and true on %d states; run from %s (precondition true) ends in %s where '
                        'the postcondition is false' % ([l['str'] for l in vcl], res['nstates'], res['bad'][0],
                                                        res['bad'][1]))
            klass.append('!unsound')
        else:
            H.inconc('bad-run-but-vc-' + verdict + '-off-sample')
    elif res['bad'] is not None:
        klass.append('sound:%s:vc-fails-and-run-fails' % kind)
    elif res['vcs_hold']:
        if res['runs'] and (loopfree or res['iterated']):
            klass.append('sound:%s:vcs-hold-runs-ok' % kind)
            if not loopfree:
                nontrivial = True
        else:
            klass.append('sound:%s:vcs-hold-no-%s' % (kind, 'run' if not res['runs'] else 'iteration'))
    else:
        klass.append('sound:%s:vc-fails-runs-ok' % kind)
    H.case(case, nontrivial, klass)


def check_program_text(com_j, lines, states, H):
    """Note only: the printed program re-parsed by com_parser runs like the original."""
    text = '\n'.join(l['indent'] * ' ' + l['str'] for l in lines if l['ty'] != 'vc')
    try:
        c2 = R['parser2'].com_parser.parse(text)
        k2 = com_obj_to_json(c2)
    except Exception:
        H.note('program-text:reparse-rejected')
        return
    for st in states[:12]:
        f1 = L.run(com_j, st, 60)[0]
        f2 = L.run(k2, st, 60)[0]
        if f1 is not None and f2 is not None and f1 != f2:
            H.note('program-text:reparse-runs-differently')
            return
    H.note('program-text:reparse-same')


def com_obj_to_json(c):
    cls = type(c).__name__
    if cls == 'Skip':
        return ['skip']
    if cls == 'Assign':
        return ['asg', c.v.name, L.obj_to_json(c.e)]
    if cls == 'Seq':
        return ['seq', com_obj_to_json(c.c1), com_obj_to_json(c.c2)]
    if cls == 'Cond':
        return ['if', L.obj_to_json(c.b), com_obj_to_json(c.c1), com_obj_to_json(c.c2)]
    if cls == 'While':
        return ['while', L.obj_to_json(c.b), L.obj_to_json(c.inv), com_obj_to_json(c.c)]
    raise Unsupported(cls)


def check_cond_case(case, H):
    c = case.get('c')
    L.check_cond(c)
    if L.vars_of(c) - set(VARS):
        raise CaseInvalid('variables')
    states = states_for(case)
    try:
        k = R['com'].Skip()
        k.pre = [R['expr'].Const(True)]
        k.compute_wp(build_cond(c))
        lines = k.get_lines(dict(VARCTX))
    except CaseInvalid:
        raise
    except Exception as e:
        H.note('vcgen-rejected:' + exc_name(e))
        H.case(case, False, 'cond:rejected')
        return
    vcl = [l for l in lines if l['ty'] == 'vc']
    if len(vcl) != 1:
        H.note('vc-count-mismatch')
        H.case(case, False, 'cond:no-vc')
        return
    ks = check_shown(case, 'cond', c, vcl[0]['str'], vcl[0]['prop'], states, H)
    H.case(case, any(k.endswith('needs-brackets') for k in ks), ks)


# ---------------------------------------------------------------- (d) HOL level: imperative.imp over nat => nat states
def nat_check(case_com, pre=None, post=None, params=False):
    """Well-formedness of the nat-level language: slots 0..5, parameters A B (only for vcg), + *, == != <= < & | true."""
    def ex(e):
        t = e[0]
        if t == 'v':
            if isinstance(e[1], int) and 0 <= e[1] < NSLOTS:
                return
            if params and e[1] in PARAMS:
                return
            raise CaseInvalid('nat variable %r' % (e[1],))
        if t == 'n':
            if e[1] > 40:
                raise CaseInvalid('numeral')
            return
        if t in ('+', '*'):
            ex(e[1])
            return ex(e[2])
        raise CaseInvalid('nat expr %r' % (t,))

    def co(c):
        t = c[0]
        if t == 'true':
            return
        if t in ('==', '!=', '<=', '<'):
            ex(c[1])
            return ex(c[2])
        if t in ('&', '|'):
            co(c[1])
            return co(c[2])
        raise CaseInvalid('nat cond %r' % (t,))

    def km(k):
        t = k[0]
        if t == 'skip':
            return
        if t == 'asg':
            if not (isinstance(k[1], int) and 0 <= k[1] < NSLOTS):
                raise CaseInvalid('slot')
            return ex(k[2])
        if t == 'seq':
            km(k[1])
            return km(k[2])
        if t == 'if':
            co(k[1])
            km(k[2])
            return km(k[3])
        if t == 'while':
            co(k[1])
            co(k[2])
            return km(k[3])
    L.check_com(case_com)
    km(case_com)
    for c in (pre, post):
        if c is not None:
            L.check_cond(c)
            co(c)


def nat_expr_term(e, s):
    K = R['kterm']
    t = e[0]
    if t == 'v':
        if isinstance(e[1], int):
            return s(K.Nat(e[1]))
        return K.Var(e[1], R['NatType'])
    if t == 'n':
        return K.Nat(e[1])
    if t == '+':
        return K.plus(R['NatType'])(nat_expr_term(e[1], s), nat_expr_term(e[2], s))
    if t == '*':
        return K.times(R['NatType'])(nat_expr_term(e[1], s), nat_expr_term(e[2], s))
    raise CaseInvalid(t)


def nat_cond_term(c, s):
    K = R['kterm']
    t = c[0]
    if t == 'true':
        return K.true
    if t in ('==', '!=', '<=', '<'):
        a, b = nat_expr_term(c[1], s), nat_expr_term(c[2], s)
        if t == '==':
            return K.Eq(a, b)
        if t == '!=':
            return K.Not(K.Eq(a, b))
        if t == '<=':
            return K.less_eq(R['NatType'])(a, b)
        return K.less(R['NatType'])(a, b)
    if t == '&':
        return K.And(nat_cond_term(c[1], s), nat_cond_term(c[2], s))
    if t == '|':
        return K.Or(nat_cond_term(c[1], s), nat_cond_term(c[2], s))
    raise CaseInvalid(t)


def nat_com_term(k):
    K, imp, T = R['kterm'], R['imp'], R['natFunT']
    s = K.Var('s', T)
    t = k[0]
    if t == 'skip':
        return imp.Skip(T)
    if t == 'asg':
        return imp.Assign(R['NatType'], R['NatType'])(K.Nat(k[1]), K.Lambda(s, nat_expr_term(k[2], s)))
    if t == 'seq':
        return imp.Seq(T)(nat_com_term(k[1]), nat_com_term(k[2]))
    if t == 'if':
        return imp.Cond(T)(K.Lambda(s, nat_cond_term(k[1], s)), nat_com_term(k[2]), nat_com_term(k[3]))
    if t == 'while':
        return imp.While(T)(K.Lambda(s, nat_cond_term(k[1], s)), K.Lambda(s, nat_cond_term(k[2], s)),
                            nat_com_term(k[3]))
    raise CaseInvalid(t)


def nat_state_term(vals):
    K = R['kterm']
    st = R['mk_const_fun'](R['NatType'], R['nat'].zero)
    for i, v in enumerate(vals):
        if v != 0:
            st = R['mk_fun_upd'](st, K.Nat(i), K.Nat(v))
    return st


def check_kernel(pt, H, case, site):
    """The exported proof must be accepted by the checker and yield the claimed theorem.  Returns True if fine."""
    theory = R['theory']
    theory.thy = R['thy']
    try:
        with time_limit(120):
            th = theory.check_proof(pt.export(), R['ProofReport']())
    except Timeout:
        H.inconc('check-timeout')
        return False
    except Exception as e:
        H.violation('%s:proof-rejected:%s' % (site, exc_name(e)), case,
                    'claimed %s ; checker: %s %s' % (pt.th, exc_name(e), str(getattr(e, 'str', e))[:300]))
        return False
    if th.prop != pt.th.prop or not set(th.hyps) <= set(pt.th.hyps):
        H.violation('%s:checked-theorem-differs' % site, case, 'claimed %s ; checked %s' % (pt.th, th))
        return False
    return True


def check_sem(case, H):
    com_j, init = case.get('com'), case.get('init')
    nat_check(com_j)
    if not (isinstance(init, list) and len(init) == NSLOTS and
            all(isinstance(v, int) and not isinstance(v, bool) and 0 <= v <= 40 for v in init)):
        raise CaseInvalid('init')
    st0 = {i: v for i, v in enumerate(init)}
    fin, _, iters = L.run(com_j, st0, fuel=14, limit=5000)
    if fin is None:
        # eval_Sem would not return (or would build numerals of unbounded size)
        H.inconc('reference-out-of-fuel-or-range')
        H.case(case, False, 'sem:diverges-in-reference')
        return
    R['theory'].thy = R['thy']
    com_t = nat_com_term(com_j)
    st_t = nat_state_term(init)
    try:
        with time_limit(60):
            pt = R['imp'].eval_Sem(com_t, st_t)
    except Timeout:
        H.inconc('eval_Sem-timeout')
        H.case(case, False, 'sem:timeout')
        return
    except RecursionError:
        H.inconc('eval_Sem-recursion')
        H.case(case, False, 'sem:recursion')
        return
    except Exception as e:
        H.note('eval_Sem-rejected:' + exc_name(e))
        H.case(case, False, 'sem:rejected')
        return
    nasg = sum(1 for x in L.subcoms(com_j) if x[0] == 'asg')
    nontrivial = nasg >= 2 or iters > 0
    klass = ['sem:ok:%s' % ('loop-iterated' if iters else ('branch' if any(x[0] == 'if' for x in L.subcoms(com_j))
                                                         else 'straight'))]
    prop = pt.prop
    if pt.hyps:
        H.violation('eval_Sem:theorem-has-hypotheses', case, str(pt.th))
    if not (prop.is_comb('Sem', 3) and prop.args[0] == com_t and prop.args[1] == st_t):
        H.violation('eval_Sem:theorem-about-other-program-or-state', case, str(pt.th))
        H.case(case, nontrivial, klass + ['!sem-other'])
        return
    try:
        f = L.hol_eval(prop.args[2], {})
        got = {i: f(i) for i in list(range(NSLOTS + 2)) + [50]}
    except Unsupported as e:
        H.inconc('final-state-unsupported')
        H.case(case, nontrivial, klass)
        return
    want = {i: fin.get(i, 0) for i in got}
    if got != want:
        H.violation('eval_Sem:final-state-differs-from-interpreter', case,
                    'theorem %s ; interpreter final state %s' % (pt.th, want))
        klass.append('!sem-differs')
    if check_kernel(pt, H, case, 'eval_Sem'):
        # the route of parser.process_file: the macro, expanded by the checker
        goal = R['imp'].Sem(R['natFunT'])(com_t, st_t, prop.args[2])
        try:
            with time_limit(120):
                th = R['theory'].check_proof(R['ProofTerm']('eval_Sem', goal, []).export(), R['ProofReport']())
            if th.prop != goal or th.hyps:
                H.violation('eval_Sem_macro:checked-theorem-differs', case, 'goal %s ; checked %s' % (goal, th))
        except Timeout:
            H.inconc('check-timeout')
        except Exception as e:
            H.violation('eval_Sem_macro:proof-rejected:%s' % exc_name(e), case, str(getattr(e, 'str', e))[:300])
    H.case(case, nontrivial, klass)


def nat_states(case):
    """Sampled nat states: slots in 0..5 and parameters A, B in 0..4."""
    base = states_for(case, names=list(range(NSLOTS)) + PARAMS, lo=0, hi=5, n=24)
    # four parameter valuations, six states each (the assumptions are judged per valuation)
    combos = [(0, 0), (1, 2), (3, 1), (base[-1]['A'] % 5, base[-1]['B'] % 5)]
    for i, st in enumerate(base):
        st['A'], st['B'] = combos[i % 4]
    return base


def check_hvcg(case, H):
    com_j, pre_j, post_j = case.get('com'), case.get('pre'), case.get('post')
    nat_check(com_j, pre_j, post_j, params=True)
    K, imp, T = R['kterm'], R['imp'], R['natFunT']
    R['theory'].thy = R['thy']
    s = K.Var('s', T)
    com_t = nat_com_term(com_j)
    goal = imp.Valid(T)(K.Lambda(s, nat_cond_term(pre_j, s)), com_t, K.Lambda(s, nat_cond_term(post_j, s)))
    try:
        with time_limit(60):
            pt = imp.vcg_norm(T, goal)
    except Timeout:
        H.inconc('vcg_norm-timeout')
        H.case(case, False, 'hvcg:timeout')
        return
    except Exception as e:
        H.note('vcg_norm-rejected:' + exc_name(e))
        H.case(case, False, 'hvcg:rejected')
        return
    klass = []
    As, concl = pt.prop.strip_implies()
    if pt.hyps:
        H.violation('vcg_norm:theorem-has-hypotheses', case, str(pt.th))
    if concl != goal:
        H.violation('vcg_norm:conclusion-is-not-the-goal', case, 'goal %s ; theorem %s' % (goal, pt.th))
        H.case(case, False, '!hvcg-other-goal')
        return
    check_kernel(pt, H, case, 'vcg_norm')
    # the tactic / macro route (gaps for the assumptions)
    try:
        with time_limit(120):
            pt2 = imp.vcg_tactic().get_proof_term(R['Thm'](goal), None, [])
            th2 = R['theory'].check_proof(pt2.export(), R['ProofReport']())
        if th2.prop != goal or th2.hyps:
            H.violation('vcg_tactic:checked-theorem-differs', case, 'goal %s ; checked %s' % (goal, th2))
    except Timeout:
        H.inconc('check-timeout')
    except Exception as e:
        H.violation('vcg_tactic:proof-rejected:%s' % exc_name(e), case, str(getattr(e, 'str', e))[:300])

    # semantics: assumptions true on the states => runs satisfy the triple
    states = nat_states(case)
    by_params = {}
    for st in states:
        by_params.setdefault((st['A'], st['B']), []).append(st)
    nontrivial = False
    verdicts = set()
    for (pa, pb), sts in sorted(by_params.items()):
        fixed = {'A': pa, 'B': pb}

        def slots(st):
            return {i: st[i] for i in range(NSLOTS)}
        seen = {}
        bad = None
        iterated = False
        runs = 0
        for st in sts:
            seen.setdefault(harness.canon(slots(st)), slots(st))
            if not L.ev_cond(pre_j, st):
                continue
            fin, visited, iters = L.run(com_j, st, 40, 10 ** 6)
            for v in visited:
                seen.setdefault(harness.canon(slots(v)), slots(v))
            if fin is None:
                continue
            runs += 1
            iterated = iterated or iters > 0
            if not L.ev_cond(post_j, fin) and bad is None:
                bad = (st, fin)
        funs = [L.dict_state_fun(d) for d in seen.values()]
        try:
            hold = all(bool(L.hol_eval(A, fixed, funs)) for A in As)
        except Unsupported:
            H.inconc('assumption-unsupported')
            continue
        if bad is not None and hold:
            # confirm: every assumption valid for these parameter values (symbolic state)
            ok = 'valid'
            for A in As:
                def build(syms, A=A):
                    return L.hol_eval(A, fixed, [lambda i: syms[i] if i in syms else 0])

                def chk(model, A=A):
                    return not L.hol_eval(A, fixed, [L.dict_state_fun(model)])
                r, _ = L.z3_valid(build, list(range(NSLOTS)), nat=True, check=chk)
                if r != 'valid':
                    ok = r
                    break
            if ok == 'valid':
                H.violation('vcg_norm:assumptions-valid-but-run-violates-triple', case,
                            'theorem %s ; A=%d B=%d ; run from %s ends in %s' % (pt.th, pa, pb, slots(bad[0]),
                                                                                 slots(bad[1])))
                verdicts.add('!hvcg-unsound')
            else:
                H.inconc('bad-run-but-assumption-' + ok + '-off-sample')
        elif bad is not None:
            verdicts.add('hvcg:assumption-fails-and-run-fails')
        elif hold:
            if runs and iterated:
                nontrivial = True
                verdicts.add('hvcg:assumptions-hold-loop-iterated')
            elif runs:
                verdicts.add('hvcg:assumptions-hold-runs-ok')
        else:
            verdicts.add('hvcg:assumption-fails-runs-ok')
    klass.extend(sorted(verdicts) or ['hvcg:no-run'])
    H.case(case, nontrivial, klass)


# ---------------------------------------------------------------- case interface
_ROOMY = {'fn': None, 'inside': False}


def with_roomy_stack(f):
    """Performance only.  CPython 3.12 keeps interpreter frames in 16 KB chunks that are mmap'ed / munmap'ed whenever the
    call depth crosses a chunk boundary; Hypothesis and the recursive term functions of holpy cross one constantly
    (hundreds of mmap/munmap pairs per case, very slow on a busy machine).  Calling through a function with ~70000
    local variables makes the interpreter allocate one 1 MB chunk whose free half serves all deeper frames."""
    if _ROOMY['inside']:
        return f()
    if _ROOMY['fn'] is None:
        try:
            ns = {}
            src = 'def roomy(f, %s):\n    return f()\n' % ', '.join('a%d=None' % i for i in range(70000))
            exec(compile(src, '<roomy-stack>', 'exec'), ns)
            _ROOMY['fn'] = ns['roomy']
        except Exception:
            _ROOMY['fn'] = lambda g: g()
    _ROOMY['inside'] = True
    try:
        return _ROOMY['fn'](f)
    finally:
        _ROOMY['inside'] = False


def run_case(case, H):
    if not _ROOMY['inside']:
        return with_roomy_stack(lambda: run_case(case, H))
    if not isinstance(case, dict):
        raise CaseInvalid('case')
    kind = case.get('kind')
    if kind == 'vc':
        check_vc(case, H)
    elif kind == 'cond':
        check_cond_case(case, H)
    elif kind == 'sem':
        check_sem(case, H)
    elif kind == 'hvcg':
        check_hvcg(case, H)
    else:
        raise CaseInvalid('kind')


# ---------------------------------------------------------------- templates with correct inductive invariants
TEMPLATES = [
    ('count', '0 <= n', 'i := 0; while (i < n) {[i <= n] i := i + 1}', 'i == n'),
    ('accum', '0 <= n', 'i := 0; s := 0; while (i < n) {[s == i * a & i <= n] s := s + a; i := i + 1}', 's == n * a'),
    ('down', '0 <= a', 'while (0 < a) {[0 <= a] a := a - 1}', 'a == 0'),
    ('mult', 'a == 0 & b == 0', 'while (a != n) {[b == a * c] b := b + c; a := a + 1}', 'b == n * c'),
    ('condbody', '0 <= n',
     'i := 0; s := 0; while (i < n) {[i <= n & 0 <= s] if (0 <= a) then s := s + a else s := s - a; i := i + 1}',
     '0 <= s & i == n'),
    ('nested', '0 <= n & 0 <= b',
     'i := 0; s := 0; while (i < n) {[s == i * b & i <= n & 0 <= b] c := 0; '
     'while (c < b) {[s == i * b + c & c <= b & i < n & 0 <= b] s := s + 1; c := c + 1}; i := i + 1}',
     's == n * b'),
    ('downacc', '0 <= n', 'i := n; s := 0; while (0 < i) {[0 <= i & s == (n - i) * b] s := s + b; i := i - 1}',
     's == n * b'),
    ('twoloops', '0 <= n',
     'i := 0; while (i < n) {[i <= n & 0 <= n] i := i + 1}; s := 0; '
     'while (0 < i) {[0 <= i & s + i == n] s := s + 1; i := i - 1}', 's == n'),
    ('absif', 'true', 'if (0 <= a) then c := a else c := -a', 'c == abs(a)'),
    ('maxif', 'true', 'if (a <= b) then c := b else c := a', 'c == max(a, b)'),
    ('swap', 'a == i & b == n', 'a := a + b; b := a - b; a := a - b', 'a == n & b == i'),
    ('implinv', '0 <= n', 'i := 0; s := 0; while (i != n) {[(i == n --> s == n * 2) & s == i * 2] s := s + 2; i := i + 1}',
     's == n * 2'),
]

NAT_TEMPLATES = [
    ('mult', 'a == 0 & b == 0', 'while (a != A) {[b == a * B] b := b + B; a := a + 1}', 'b == A * B'),
    ('reach', 'true', 'c := 0; while (c != a) {[true] c := c + 1}', 'c == a'),
    ('ifset', 'true', 'if (a == A) then skip else a := A', 'a == A'),
    ('double', 'true', 'b := 0; c := 0; while (c < a) {[b == c * 2 & c <= a] b := b + 2; c := c + 1}', 'b == a * 2'),
    ('nested', 'true',
     'd := 0; e := 0; while (d < a) {[e == d * b & d <= a] f := 0; '
     'while (f < b) {[e == d * b + f & f <= b & d < a] e := e + 1; f := f + 1}; d := d + 1}', 'e == a * b'),
    ('seq', 'a == A', 'b := a + 1; c := b * 2', 'c == A * 2 + 2'),
    ('sumto', 'true', 'b := 0; c := 0; while (c != A) {[b == c * a] b := b + a; c := c + 1}', 'b == A * a'),
]

_TPL = {}


def template(name, nat=False):
    key = (name, nat)
    if key not in _TPL:
        for nm, pre, com, post in (NAT_TEMPLATES if nat else TEMPLATES):
            if nm == name:
                _TPL[key] = (L.std_read(pre), L.std_read_com(com), L.std_read(post))
    return _TPL[key]


def rename(t, m):
    """Rename variables in any tree (assignment targets included)."""
    if not isinstance(t, list):
        return t
    if t and t[0] == 'v':
        return ['v', m.get(t[1], t[1])]
    if t and t[0] == 'asg':
        return ['asg', m.get(t[1], t[1]), rename(t[2], m)]
    return [t[0]] + [rename(x, m) for x in t[1:]]


_CMP_CYCLE = {'==': '<=', '<=': '<', '<': '!=', '!=': '=='}


def tweak_sites(t, path=()):
    """Paths of nodes that have a small mutation."""
    out = []
    if isinstance(t, list) and t and isinstance(t[0], str):
        if t[0] in _CMP_CYCLE or t[0] == 'n' or t[0] in ('&', '+', '-'):
            out.append(path)
        for i, x in enumerate(t[1:], 1):
            if isinstance(x, list):
                out.extend(tweak_sites(x, path + (i,)))
    return out


def tweak_at(t, path):
    if path:
        t = list(t)
        t[path[0]] = tweak_at(t[path[0]], path[1:])
        return t
    tag = t[0]
    if tag in _CMP_CYCLE:
        return [_CMP_CYCLE[tag], t[1], t[2]]
    if tag == 'n':
        return ['n', t[1] + 1]
    if tag == '&':
        return t[1]
    if tag == '+':
        return ['-', t[1], t[2]]
    if tag == '-':
        return ['+', t[1], t[2]]
    return t


# ---------------------------------------------------------------- strategies (plain JSON)
def strategies(kind):
    from hypothesis import strategies as st
    var = st.sampled_from(VARS).map(lambda v: ['v', v])
    num = st.integers(0, 4).map(lambda k: ['n', k])
    leaf = st.one_of(var, var, var, num)

    def eext(ch):
        return st.one_of(
            st.tuples(st.sampled_from(['-', '+', '-', '*', '-', '*']), ch, ch).map(list),
            st.tuples(st.sampled_from(['-', '+', '-', '*', '-', '*']), ch, ch).map(list),
            st.tuples(st.sampled_from(['-', '+', '-', '*', '-', '*']), ch, ch).map(list),
            st.one_of(st.tuples(st.just('neg'), ch).map(list), st.tuples(st.just('abs'), ch).map(list),
                      st.tuples(st.just('max'), ch, ch).map(list), st.tuples(st.just('neg'), ch).map(list)),
            st.tuples(st.sampled_from(['-', '+', '-', '*', '-', '*']), ch, ch).map(list),
            st.tuples(st.sampled_from(['-', '+', '-', '*', '-', '*']), ch, ch).map(list))
    expr = st.recursive(leaf, eext, max_leaves=5)
    small_expr = st.recursive(leaf, eext, max_leaves=3)
    atom = st.one_of(st.tuples(st.sampled_from(['==', '!=', '<=', '<']), small_expr, small_expr).map(list),
                     st.tuples(st.sampled_from(['==', '!=', '<=', '<']), expr, small_expr).map(list),
                     st.tuples(st.sampled_from(['==', '<=', '<']), expr, st.just(['n', 0])).map(list))

    def cext(ch):
        return st.one_of(
            st.tuples(st.just('~'), ch).map(list),
            st.tuples(st.sampled_from(['&', '|', '-->']), ch, ch).map(list),
            st.tuples(st.sampled_from(['&', '|', '-->']), ch, ch).map(list),
            st.tuples(st.just('ite'), ch, ch, ch).map(list))
    cond_t = st.recursive(st.one_of(atom, st.just(['true']), atom), cext, max_leaves=4)
    cond_f = st.recursive(atom, cext, max_leaves=4)
    # `true` inside a condition makes convert_hol fail on the pinned tree (rejected): keep it rare
    cond = cond_f
    guard = st.recursive(atom, cext, max_leaves=2)
    sseed = st.integers(0, 2 ** 31)

    asg = st.tuples(st.just('asg'), st.sampled_from(VARS), st.one_of(small_expr, expr)).map(list)

    def kext(ch):
        return st.one_of(st.tuples(st.just('seq'), ch, ch).map(list), st.tuples(st.just('seq'), ch, ch).map(list),
                         st.tuples(st.just('if'), guard, ch, ch).map(list))
    lf = st.recursive(st.one_of(asg, asg, asg, st.just(['skip']), asg, asg, asg), kext, max_leaves=6).filter(
        lambda k: L.com_depth(k) <= 4)
    small_lf = st.recursive(st.one_of(asg, asg, st.just(['skip']), asg, asg), kext, max_leaves=3)

    if kind == 'cond':
        big = st.recursive(atom, cext, max_leaves=6)
        return st.builds(lambda c, s: {'kind': 'cond', 'c': c, 'sseed': s}, big, sseed)

    if kind == 'lf':
        return st.builds(lambda k, p, q, s: {'kind': 'vc', 'com': k, 'pre': p, 'post': q, 'sseed': s},
                         lf, st.one_of(st.just(['true']), cond), st.one_of(*([cond] * 10 + [cond_t] + [cond] * 10)),
                         sseed)

    if kind == 'tpl':
        @st.composite
        def tpl(draw):
            name = draw(st.sampled_from([t[0] for t in TEMPLATES]))
            pre, com, post = template(name)
            perm = draw(st.permutations(VARS))
            m = dict(zip(VARS, perm))
            pre, com, post = rename(pre, m), rename(com, m), rename(post, m)
            mode = draw(st.sampled_from(['none', 'none', 'none', 'tweak', 'tweak', 'tweak', 'tweak', 'post', 'inv',
                                         'wrap']))
            if mode == 'tweak':
                whole = ['x', pre, com, post]
                sites = tweak_sites(whole)
                whole = tweak_at(whole, sites[draw(st.integers(0, len(sites) - 1))])
                pre, com, post = whole[1], whole[2], whole[3]
            elif mode == 'post':
                post = draw(cond)
            elif mode == 'inv':
                loops = [p for p in _while_paths(com)]
                if loops:
                    p = loops[draw(st.integers(0, len(loops) - 1))]
                    com = _replace(com, p + (2,), draw(cond))
            elif mode == 'wrap':
                pos = draw(st.sampled_from(['before', 'after', 'if']))
                extra = draw(small_lf)
                if pos == 'before':
                    com = ['seq', extra, com]
                elif pos == 'after':
                    com = ['seq', com, extra]
                elif L.com_depth(com) < 4:
                    com = ['if', draw(guard), com, extra]
            return {'kind': 'vc', 'com': com, 'pre': pre, 'post': post, 'sseed': draw(sseed)}
        return tpl()

    if kind == 'rl':
        @st.composite
        def rloop(draw, depth=0):
            v = draw(st.sampled_from(VARS))
            bound = draw(st.one_of(st.sampled_from([x for x in VARS if x != v]).map(lambda x: ['v', x]),
                                   st.integers(0, 4).map(lambda k: ['n', k])))
            g = [draw(st.sampled_from(['<', '<', '!='])), ['v', v], bound]
            body = draw(small_lf)
            if depth == 0 and draw(st.integers(0, 5)) == 0:
                body = ['seq', body, draw(rloop(depth=1))]
            body = ['seq', body, ['asg', v, ['+', ['v', v], ['n', 1]]]]
            inv = draw(st.one_of(cond, st.just(['<=', ['v', v], bound]),
                                 st.just(['|', ['<=', ['v', v], bound], ['<', bound, ['v', v]]])))
            return ['while', g, inv, body]

        @st.composite
        def stale(draw):
            """Invariant true at loop entry but not inductive; postcondition follows from invariant & ~guard (or is
            drawn).  A generator that does not demand preservation of the invariant accepts these."""
            v = draw(st.sampled_from(VARS))
            others = [x for x in VARS if x != v]
            e0 = draw(st.one_of(st.integers(0, 2).map(lambda k: ['n', k]), st.sampled_from(others).map(lambda x: ['v', x])))
            bound = draw(st.one_of(st.sampled_from(others).map(lambda x: ['v', x]), st.integers(2, 5).map(lambda k: ['n', k])))
            inv = [draw(st.sampled_from(['==', '<=', '=='])), ['v', v], e0]
            g = ['<', ['v', v], bound]
            body = ['asg', v, ['+', ['v', v], ['n', 1]]]
            if draw(st.booleans()):
                w = draw(st.sampled_from(others))
                body = ['seq', ['asg', w, draw(small_expr)], body] if ['v', w] not in (e0, bound) else body
            d = draw(st.integers(0, 2))
            post = draw(st.one_of(st.just(inv), st.just(['<=', ['v', v], ['+', e0, ['n', d]]]),
                                  st.just(['&', inv, ['~', g]]), st.just(['|', ['<=', ['v', v], ['+', e0, ['n', d]]], g])))
            k = ['seq', ['asg', v, e0], ['while', g, inv, body]]
            return {'kind': 'vc', 'com': k, 'pre': draw(st.one_of(st.just(['true']), st.just(['<=', e0, bound]))),
                    'post': post, 'sseed': draw(sseed)}

        @st.composite
        def rl(draw):
            if draw(st.integers(0, 4)) == 2:
                return draw(stale())
            k = draw(rloop())
            if draw(st.booleans()):
                k = ['seq', draw(small_lf), k]
            if draw(st.booleans()):
                k = ['seq', k, draw(small_lf)]
            if L.com_depth(k) > 4:
                k = ['skip']
            return {'kind': 'vc', 'com': k, 'pre': draw(st.one_of(st.just(['true']), cond)), 'post': draw(cond),
                    'sseed': draw(sseed)}
        return rl()

    # ---- nat level
    slot = st.integers(0, NSLOTS - 1)
    nleaf = st.one_of(slot.map(lambda i: ['v', i]), slot.map(lambda i: ['v', i]), st.integers(0, 3).map(lambda k: ['n', k]))

    def next_(ch):
        return st.tuples(st.sampled_from(['+', '+', '*']), ch, ch).map(list)
    nexpr = st.recursive(nleaf, next_, max_leaves=3)
    neq = st.tuples(st.sampled_from(['==', '!=']), nexpr, nexpr).map(list)
    nord = st.tuples(st.sampled_from(['<=', '<']), nexpr, nexpr).map(list)

    def ncext(ch):
        return st.tuples(st.sampled_from(['&', '|']), ch, ch).map(list)
    nasg = st.tuples(st.just('asg'), slot, nexpr).map(list)

    def nkext_with(g):
        def nkext(ch):
            return st.one_of(st.tuples(st.just('seq'), ch, ch).map(list), st.tuples(st.just('seq'), ch, ch).map(list),
                             st.tuples(st.just('if'), g, ch, ch).map(list))
        return nkext

    if kind == 'sem':
        # eval_Sem only decides guards built from == / != (compound and ordered guards end in ConvException)
        g = st.one_of(*([neq] * 6 + [nord, st.just(['true']), st.tuples(st.sampled_from(['&', '|']), neq, neq).map(list)]
                        + [neq] * 6))
        nlf = st.recursive(st.one_of(nasg, nasg, st.just(['skip']), nasg, nasg), nkext_with(g), max_leaves=4)

        @st.composite
        def bounded_loop(draw, depth=0):
            v = draw(slot)
            k = draw(st.integers(0, 4))
            body = _retarget(draw(nlf), v)     # the body does not assign the counter: the loop terminates
            if depth == 0 and draw(st.integers(0, 4)) == 0:
                w = draw(slot)
                inner = ['seq', ['asg', w, ['n', 0]], draw(bounded_loop(depth=1))]
                body = ['seq', body, inner]
            body = ['seq', body, ['asg', v, ['+', ['v', v], ['n', 1]]]]
            loop = ['while', ['!=', ['v', v], ['n', k]], ['true'], body]
            if draw(st.integers(0, 7)) != 3:
                loop = ['seq', ['asg', v, ['n', draw(st.integers(0, k))]], loop]
            return loop

        @st.composite
        def sem(draw):
            shape = draw(st.sampled_from(['lf', 'lf', 'loop', 'loop', 'loop']))
            if shape == 'lf':
                k = draw(nlf)
            else:
                k = draw(bounded_loop())
                if draw(st.booleans()):
                    k = ['seq', draw(nlf), k]
                if draw(st.booleans()):
                    k = ['seq', k, draw(nlf)]
            init = draw(st.lists(st.integers(0, 3), min_size=NSLOTS, max_size=NSLOTS))
            return {'kind': 'sem', 'com': k, 'init': init}
        return sem()

    if kind == 'hvcg':
        pleaf = st.one_of(nleaf, nleaf, st.sampled_from(PARAMS).map(lambda p: ['v', p]))
        pexpr = st.recursive(pleaf, next_, max_leaves=3)
        patom = st.tuples(st.sampled_from(['==', '!=', '<=', '<']), pexpr, pexpr).map(list)
        pcond = st.recursive(st.one_of(patom, patom, st.just(['true']), patom, patom), ncext, max_leaves=3)
        pasg = st.tuples(st.just('asg'), slot, pexpr).map(list)
        plf = st.recursive(st.one_of(pasg, pasg, st.just(['skip']), pasg, pasg), nkext_with(pcond), max_leaves=4)

        @st.composite
        def hv(draw):
            shape = draw(st.sampled_from(['tpl', 'tpl', 'tpl', 'lf', 'rl']))
            if shape == 'tpl':
                name = draw(st.sampled_from([t[0] for t in NAT_TEMPLATES]))
                pre, com, post = template(name, nat=True)
                perm = draw(st.permutations(list(range(NSLOTS))))
                m = dict(zip('abcdef', perm))
                pre, com, post = rename(pre, m), rename(com, m), rename(post, m)
                mode = draw(st.sampled_from(['none', 'none', 'tweak', 'tweak', 'tweak', 'post', 'inv']))
                if mode == 'tweak':
                    whole = ['x', pre, com, post]
                    sites = [p for p in tweak_sites(whole) if _node(whole, p)[0] != '-' and _node(whole, p)[0] != '+']
                    whole = tweak_at(whole, sites[draw(st.integers(0, len(sites) - 1))])
                    pre, com, post = whole[1], whole[2], whole[3]
                elif mode == 'post':
                    post = draw(pcond)
                elif mode == 'inv':
                    loops = list(_while_paths(com))
                    if loops:
                        p = loops[draw(st.integers(0, len(loops) - 1))]
                        com = _replace(com, p + (2,), draw(pcond))
            elif shape == 'lf':
                pre, com, post = draw(pcond), draw(plf), draw(pcond)
            else:
                v = draw(slot)
                bound = draw(st.one_of(slot.filter(lambda x: x != v).map(lambda x: ['v', x]),
                                       st.sampled_from(PARAMS).map(lambda p: ['v', p]),
                                       st.integers(0, 4).map(lambda k: ['n', k])))
                g = [draw(st.sampled_from(['<', '!='])), ['v', v], bound]
                body = ['seq', draw(plf), ['asg', v, ['+', ['v', v], ['n', 1]]]]
                inv = draw(st.one_of(pcond, st.just(['<=', ['v', v], bound]), st.just(['true'])))
                com = ['while', g, inv, body]
                if draw(st.booleans()):
                    com = ['seq', draw(plf), com]
                pre, post = draw(pcond), draw(pcond)
            return {'kind': 'hvcg', 'com': com, 'pre': pre, 'post': post, 'sseed': draw(sseed)}
        return hv()
    raise ValueError(kind)


def _retarget(k, v):
    """Assignments to slot v go to the next slot instead."""
    if k[0] == 'asg':
        return ['asg', (k[1] + 1) % NSLOTS if k[1] == v else k[1], k[2]]
    if k[0] == 'seq':
        return ['seq', _retarget(k[1], v), _retarget(k[2], v)]
    if k[0] == 'if':
        return ['if', k[1], _retarget(k[2], v), _retarget(k[3], v)]
    if k[0] == 'while':
        return ['while', k[1], k[2], _retarget(k[3], v)]
    return k


def _node(t, path):
    for p in path:
        t = t[p]
    return t


def _while_paths(k, path=()):
    if k[0] == 'while':
        yield path
        yield from _while_paths(k[3], path + (3,))
    elif k[0] == 'seq':
        yield from _while_paths(k[1], path + (1,))
        yield from _while_paths(k[2], path + (2,))
    elif k[0] == 'if':
        yield from _while_paths(k[2], path + (2,))
        yield from _while_paths(k[3], path + (3,))


def _replace(t, path, new):
    if not path:
        return new
    t = list(t)
    t[path[0]] = _replace(t[path[0]], path[1:], new)
    return t


# ---------------------------------------------------------------- exploration
COUNTS = {
    'quick': {'lf': 1200, 'tpl': 1400, 'rl': 600, 'cond': 2400, 'sem': 160, 'hvcg': 240},
    'thorough': {'lf': 40000, 'tpl': 40000, 'rl': 20000, 'cond': 60000, 'sem': 5000, 'hvcg': 5000},
}


def shards(tier):
    out = []
    per = 8 if tier == 'quick' else 32
    for kind in ('sem', 'hvcg', 'tpl', 'rl', 'lf', 'cond'):
        for i, n in enumerate(harness.split(COUNTS[tier][kind], per)):
            out.append({'kind': kind, 'n': n, 'i': i})
    return out


def run_shard(desc, seed, tier, H):
    def body(case):
        run_case(case, H)
    with_roomy_stack(lambda: harness.hyp_run(strategies(desc['kind']), body, desc['n'], seed))


# ---------------------------------------------------------------- self-test of the oracles
def selftest():
    def need(cond, what):
        if not cond:
            raise SelfTestError(what)
    K = R['kterm']
    from kernel.type import IntType
    # reader / printer
    for s, want in [('a - b - c == 0', ['==', ['-', ['-', ['v', 'a'], ['v', 'b']], ['v', 'c']], ['n', 0]]),
                    ('-a + b * c < 1', ['<', ['+', ['neg', ['v', 'a']], ['*', ['v', 'b'], ['v', 'c']]], ['n', 1]]),
                    ('~a == 0 & b == 0 | c == 0 --> true',
                     ['-->', ['|', ['&', ['~', ['==', ['v', 'a'], ['n', 0]]], ['==', ['v', 'b'], ['n', 0]]],
                              ['==', ['v', 'c'], ['n', 0]]], ['true']])]:
        need(L.std_read(s) == want, 'reference reader wrong on %r' % s)
        need(L.std_read(L.std_str(want)) == want, 'reference printer/reader round trip on %r' % s)
    t1 = ['==', ['-', ['v', 'a'], ['-', ['v', 'b'], ['v', 'c']]], ['n', 0]]
    need(L.std_str(t1) == 'a - (b - c) == 0' and L.needs_brackets(t1), 'reference printer drops brackets')
    # every generated tree is the parse of its fully bracketed text, and the builder builds that object
    for t in [t1, ['&', ['~', ['|', ['<', ['neg', ['v', 'a']], ['n', 2]], ['true']]],
                   ['ite', ['!=', ['v', 'i'], ['n', 0]], ['<=', ['abs', ['v', 's']], ['max', ['v', 'a'], ['n', 1]]],
                    ['-->', ['true'], ['==', ['*', ['+', ['v', 'a'], ['n', 1]], ['v', 'b']], ['v', 'c']]]]]]:
        parsed = L.obj_to_json(R['parser2'].cond_parser.parse(full_paren(t)))
        need(parsed == t, 'fully bracketed text does not parse to the tree: %s' % full_paren(t))
        need(L.obj_to_json(build_cond(t)) == t, 'builder / object reader disagree')
    # evaluation and interpreter
    st = {'a': 5, 'b': 3, 'c': 1, 'i': 0, 'n': 4, 's': 0}
    need(L.ev_expr(t1[1], st) == 3 and L.ev_cond(t1, st) is False, 'evaluator')
    pre, com, post = template('accum')
    fin, visited, iters = L.run(com, st)
    need(fin['s'] == 20 and fin['i'] == 4 and iters == 4 and len(visited) == 11, 'reference interpreter')
    need(L.run(['while', ['true'], ['true'], ['skip']], st, 10)[0] is None, 'fuel')
    # (a): a right and a wrong weakest precondition
    k = ['asg', 'a', ['+', ['v', 'a'], ['n', 1]]]
    q = ['<=', ['v', 'a'], ['n', 3]]
    sts = L.lcg_states(1, 30, VARS, LO, HI)
    need(wp_mismatch(['<=', ['+', ['v', 'a'], ['n', 1]], ['n', 3]], k, q, sts) is None, 'wp oracle rejects a right wp')
    need(wp_mismatch(q, k, q, sts) is not None, 'wp oracle accepts a wrong wp')
    # (b): VC set without the exit condition, wrong postcondition
    pre, com, post = template('count')
    wrong_post = ['==', ['v', 'i'], ['+', ['v', 'n'], ['n', 1]]]
    res = soundness(lambda s: bool(L.ev_cond(pre, s)), lambda s: bool(L.ev_cond(wrong_post, s)),
                    [lambda s: True], com, sts)
    need(res['bad'] is not None and res['vcs_hold'], 'soundness oracle misses an unsound VC set')
    exit_vc = ['-->', ['&', ['<=', ['v', 'i'], ['v', 'n']], ['~', ['<', ['v', 'i'], ['v', 'n']]]], wrong_post]
    res = soundness(lambda s: bool(L.ev_cond(pre, s)), lambda s: bool(L.ev_cond(wrong_post, s)),
                    [lambda s: bool(L.ev_cond(exit_vc, s))], com, sts)
    need(res['bad'] is not None and not res['vcs_hold'], 'soundness oracle: failing VC not seen on the trace')
    res = soundness(lambda s: bool(L.ev_cond(pre, s)), lambda s: bool(L.ev_cond(post, s)), [lambda s: True], com, sts)
    need(res['bad'] is None and res['iterated'] and res['runs'] > 0, 'soundness oracle flags a correct triple')
    # HOL evaluator (terms built with the kernel constructors, not by the code under test)
    a, b = K.Var('a', IntType), K.Var('b', IntType)
    need(L.hol_eval(K.Int(3) - K.Int(5), {}) == -2, 'HOL evaluator: int minus')
    need(L.hol_eval(K.Nat(3) - K.Nat(5), {}) == 0, 'HOL evaluator: nat minus')
    need(L.hol_eval(K.Implies(K.less_eq(IntType)(a, b), K.Not(K.Eq(a - b, K.Int(1)))), {'a': 2, 'b': 1}) is True
         and L.hol_eval(K.And(K.less(IntType)(a, b), K.Eq(-a * b, K.Int(-6))), {'a': 2, 'b': 3}) is True,
         'HOL evaluator: connectives')
    stt = nat_state_term([0, 4, 0, 2, 0, 0])
    f = L.hol_eval(stt, {})
    need([f(i) for i in range(6)] == [0, 4, 0, 2, 0, 0] and f(33) == 0, 'HOL evaluator: fun_upd states')
    s = K.Var('s', R['natFunT'])
    allt = K.Forall(s, K.Implies(K.Eq(s(K.Nat(0)), K.Nat(1)), K.Eq(s(K.Nat(1)), K.Nat(2))))
    need(L.hol_eval(allt, {}, [L.dict_state_fun({0: 1, 1: 2}), L.dict_state_fun({0: 0})]) is True and
         L.hol_eval(allt, {}, [L.dict_state_fun({0: 1, 1: 3})]) is False, 'HOL evaluator: quantifier over states')
    # z3
    tv = K.Eq(a + a, K.Int(2) * a)
    ti = K.less_eq(IntType)(a, a * a - K.Int(1))
    need(confirm_valid([tv], ['a']) == 'valid', 'z3 validity: valid formula')
    need(confirm_valid([tv, ti], ['a']) == 'invalid', 'z3 validity: invalid formula')
    # (c): known-bad shown string
    H = harness.Ctx(ID)
    check_shown({}, 'vc', t1, 'a - b - c == 0', None, sts, H)
    need(any(sg.startswith('display:shown-differs-from-computed:brackets') for sg in H.violations),
         'shown-condition oracle misses a dropped bracket')
    H = harness.Ctx(ID)
    check_shown({}, 'vc', t1, 'a - (b - c) == 0', None, sts, H)
    need(not any(sg.startswith('display:') for sg in H.violations), 'shown-condition oracle flags a correct string')
