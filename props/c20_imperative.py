"""C20 — program evaluation and VC generation are sound with respect to execution.

Cases (JSON; the trees are those of vlib/c20_lib.py):
  {"kind": "vc",   "com": K, "pre": C, "post": C, "sseed": n}   integer program through imperative.com / expr / parser2
  {"kind": "cond", "c": C, "sseed": n}                          one condition, shown as the VC of `skip`
  {"kind": "sem",  "com": K, "init": [v0..v5]}                  nat program through imperative.imp.eval_Sem
  {"kind": "hvcg", "com": K, "pre": C, "post": C, "sseed": n}   nat program through imperative.imp.vcg_norm / vcg_tactic
  {"kind": "prog", "com": K, "sseed": n, "via": "ctor"|"text", "bare": b}
                                                                integer program -> print_com -> parser2.com_parser
  {"kind": "ptext", "com": K, "pre": C?, "post": C?, "sseed": n, "bare": b, "brackets": b}
                                                                nat program written as text -> imperative.parser
"""
import contextlib
import re
import signal

from vlib import harness
from vlib import c20_lib as L
from vlib.harness import Timeout, CaseInvalid, SelfTestError
from vlib.c20_lib import Unsupported, ReadError

ID = 'C20'
RULE = ("Integer while-programs over a b c i n s (skip, assignment, sequence, conditional, annotated loop; nesting <= 4; "
        "+ - * unary minus abs max; assertions with == != <= < ~ & | --> if-then-else) are generated as JSON trees, built "
        "with the constructors of imperative.com/expr, and given a precondition and postcondition; 30 initial states in "
        "-6..6 per case (4 corner states + a sample that is a pure function of the case). Generators: random loop-free "
        "programs; loop templates with correct inductive invariants (counting, accumulating, countdown, multiplication, "
        "conditional body, nested loops) under variable renaming and one drawn mutation (post / invariant / guard / "
        "body / pre); random guarded loops with random invariants; loops whose invariant holds at entry but is not "
        "inductive; single conditions. Oracles: (a) loop-free: "
        "compute_wp(c,Q) evaluated in s <=> Q evaluated in run(c,s), reference interpreter; (b) every run from a "
        "pre-state that terminates (fuel 200) must end in a post-state unless some generated VC (its HOL form, own "
        "evaluator) is false on a sampled or visited state; a run that violates the postcondition while all VCs hold there "
        "is confirmed by z3 validity of every VC (own encoding, counter-models re-evaluated) before it is reported; (c) "
        "every shown condition (VC, invariant, guard): the computed object, its HOL form, the shown string read with the "
        "ordinary conventions (reference reader) and the shown string re-parsed by parser2.cond_parser must agree on all "
        "30 states; (d) nat programs over slots 0..5 of a nat=>nat state: imp.eval_Sem final state = reference "
        "interpreter, exported proof and the eval_Sem macro check with the kernel; imp.vcg_norm / vcg_tactic theorems "
        "check, conclude the goal, and their assumptions evaluated over states imply the triple on executed runs; (e) "
        "every program (built with the constructors, or read by com_parser from its one-line text: programs with "
        "loops, invariants `true` optionally left out) is printed by print_com before any VC is attached, the lines are "
        "joined and re-read by com_parser as app/imperative.py does, and the re-read program must end every sampled "
        "run (fuel 60) in the same state (if no sampled run of the whole program tells the two apart, e.g. because the "
        "re-read program loops, the smallest sub-command that is re-read with another structure is judged as a program "
        "of its own); the parser's reading of the one-line text is compared with the reference "
        "reader when the text is not of the form `if .. else c; d`; (f) nat programs and pre/postconditions written as "
        "text for imperative/parser.py (a..f = slots 0..5, parameters A B, + *, == != <= <, & |, true, loops with and "
        "without invariant; no brackets, as in that grammar, 1 in 8 with brackets): parse_com / parse_cond give HOL "
        "terms that are run by an interpreter for the rules of Sem (library/hoare.json) and must agree on 24 states (values 0..3) "
        "with the reference interpreter on the reference reading of the same text (* over +, & over |). "
        "Non-trivial: (a) >= 2 assignments and the postcondition mentions an assigned variable; (b) all VCs true on all "
        "sampled and visited states and a terminating run from a pre-state iterates a loop; (c) the shown object needs "
        "brackets under the ordinary conventions; (d) eval_Sem succeeded on a program with >= 2 assignments or a loop "
        "iteration / vcg_norm on a program whose loop iterates with all assumptions true; (e) a conditional or loop is "
        "followed by another command, or a branch is a sequence, and the round trip preserved all runs; (f) some "
        "operator of the text stands directly under a different one of its sort (precedence decides the reading) and "
        "the parsed term agrees. Distinct by canonical JSON.")
ASSUMPTIONS = [
    "meaning of a program / condition = integer (or natural-number) semantics of its syntax tree; every generated tree "
    "is the parse of its fully bracketed text, so real callers (app/imperative.py, parser2.process_file) can produce it",
    "the displayed syntax is read with the ordinary conventions: unary minus > * > + -, left associative; "
    "~ > & > | > -->, right associative (as in the grammar comments of parser2.py and the bracketing of sums under "
    "products in Op.__str__); if-then-else extends as far to the right as possible",
    "a shown string that parser2 rejects is counted (class reparse-rejected), not reported: the property does not ask "
    "for completeness",
    "validity of all VCs (needed only to confirm an unsound triple) is decided by z3 on an encoding written here; "
    "'unknown' is inconclusive",
    "arrays, fields and forall are outside the property's quantifier and are not generated; While without an "
    "invariant is generated only as text (kinds prog and ptext), where it stands for the invariant true",
    "user text is read with the same conventions (they are those of the HOL term language the parsed programs are "
    "printed in, and of the grammar comments in parser2.py): a text whose parse by imperative/parser.py (anchored by "
    "the property, used by parser.process_file for eval and vcg entries) or parser2.com_parser means something else "
    "is reported, because the Sem / Valid theorem or the VCs are then about another program than the one written",
    "command texts in which a conditional is directly followed by `;` have two derivations in both grammars and no "
    "convention to appeal to: such texts are not judged against the reference reader (class conditional-then-semicolon);"
    " what is reported for them is only that print_com followed by com_parser changes the runs of a program",
    "programs built with the constructors of imperative.com are in the domain of (e) as they are for (a)-(c): the "
    "constructors are the public way to build a program (imperative/tests/com_test.py prints and verifies such "
    "objects), and print_com output is what app/imperative.py sends to the client and parses again for program-verify",
    "a loop without invariant in the language of parser2 is rejected on the pinned tree (AssertionError in While); "
    "a rejection is allowed by the property and is counted as a note (com_parser-rejected:...:loop-without-invariant)",
    "imp.eval_Sem is only called when the reference interpreter terminates within its fuel (14 iterations, values "
    "<= 5000); runs whose values leave -10^9..10^9 are treated like runs out of fuel",
    "time limits (60 s eval_Sem / vcg_norm, 120 s proof checking) count CPU time of the process; a hit is inconclusive",
]
SHRINK_SECONDS = 20
SHRINK_BUDGET = 300

VARS = ['a', 'b', 'c', 'i', 'n', 's']
VARCTX = {v: 'int' for v in VARS}
NSTATES = 30
LO, HI = -6, 6
NSLOTS = 6
PARAMS = ['A', 'B']

R = {}      # code under test, filled by setup()


@contextlib.contextmanager
def time_limit(seconds):
    """Like harness.time_limit, but counts CPU time of this process (ITIMER_PROF), so that a busy machine does not turn
    cheap cases into time-outs (and runs stay reproducible).  The timer repeats every second after the first expiry
    because an exception raised inside a GC callback or a __del__ is swallowed by the interpreter."""
    def handler(signum, frame):
        raise Timeout()
    old = signal.signal(signal.SIGPROF, handler)
    signal.setitimer(signal.ITIMER_PROF, seconds, 1.0)
    try:
        yield
    finally:
        signal.setitimer(signal.ITIMER_PROF, 0)
        signal.signal(signal.SIGPROF, old)


def setup():
    from logic import basic
    from kernel import theory, term as kterm
    from kernel.type import TFun, NatType, BoolType
    from kernel.report import ProofReport
    from kernel.thm import Thm
    from kernel.proofterm import ProofTerm
    from data import nat
    from data.function import mk_const_fun, mk_fun_upd
    from imperative import expr, com, parser2, imp, parser
    import z3  # noqa: F401  (oracle only)
    basic.load_theory('hoare')
    R.update(expr=expr, com=com, parser2=parser2, imp=imp, parser=parser, theory=theory, kterm=kterm, nat=nat,
             TFun=TFun, NatType=NatType, BoolType=BoolType, ProofReport=ProofReport, Thm=Thm, ProofTerm=ProofTerm,
             mk_const_fun=mk_const_fun, mk_fun_upd=mk_fun_upd, thy=theory.thy)
    R['natFunT'] = TFun(NatType, NatType)
    selftest()


# ---------------------------------------------------------------- building objects of the code under test
def build_expr(e):
    X = R['expr']
    t = e[0]
    if t == 'v':
        return X.Var(e[1])
    if t == 'n':
        return X.Const(e[1])
    if t == 'neg':
        return X.Op('-', build_expr(e[1]))
    if t in L.ARITH:
        return X.Op(t, build_expr(e[1]), build_expr(e[2]))
    if t in ('abs', 'max'):
        return X.Fun(t, *[build_expr(x) for x in e[1:]])
    raise CaseInvalid('expr %r' % (t,))


def build_cond(c):
    X = R['expr']
    t = c[0]
    if t == 'true':
        return X.Const(True)
    if t in ('==', '!=', '<=', '<'):
        return X.Op(t, build_expr(c[1]), build_expr(c[2]))
    if t == '~':
        return X.Op('~', build_cond(c[1]))
    if t in ('&', '|', '-->'):
        return X.Op(t, build_cond(c[1]), build_cond(c[2]))
    if t == 'ite':
        return X.ITE(build_cond(c[1]), build_cond(c[2]), build_cond(c[3]))
    raise CaseInvalid('cond %r is not in the grammar of parser2' % (t,))


def build_com(k):
    C = R['com']
    t = k[0]
    if t == 'skip':
        return C.Skip()
    if t == 'asg':
        if not isinstance(k[1], str):
            raise CaseInvalid('variable')
        return C.Assign(k[1], build_expr(k[2]))
    if t == 'seq':
        return C.Seq(build_com(k[1]), build_com(k[2]))
    if t == 'if':
        return C.Cond(build_cond(k[1]), build_com(k[2]), build_com(k[3]))
    if t == 'while':
        return C.While(build_cond(k[1]), build_cond(k[2]), build_com(k[3]))
    raise CaseInvalid('com %r' % (t,))


def full_paren(t):
    """Fully bracketed text of a tree (no reliance on any precedence)."""
    tag = t[0]
    if tag in ('v', 'n'):
        return str(t[1])
    if tag == 'true':
        return 'true'
    if tag == 'neg':
        return '(-%s)' % full_paren(t[1])
    if tag in ('abs', 'max'):
        return '%s(%s)' % (tag, ', '.join(full_paren(x) for x in t[1:]))
    if tag in L.ARITH:
        return '(%s %s %s)' % (full_paren(t[1]), tag, full_paren(t[2]))
    if tag in L.CMP:
        return '(%s %s %s)' % (full_paren(t[1]), tag, full_paren(t[2]))
    if tag == '~':
        return '(~%s)' % full_paren(t[1])
    if tag in L.BOOL2:
        return '(%s %s %s)' % (full_paren(t[1]), tag, full_paren(t[2]))
    if tag == 'ite':
        return '(if %s then %s else %s)' % tuple(full_paren(x) for x in t[1:])
    raise Unsupported(tag)


def states_for(case, names=VARS, lo=LO, hi=HI, n=NSTATES):
    sseed = case.get('sseed', 0)
    if not isinstance(sseed, int) or isinstance(sseed, bool):
        raise CaseInvalid('sseed')
    return L.lcg_states(sseed, n, names, lo, hi)


def exc_name(e):
    return type(e).__name__


# ---------------------------------------------------------------- (a) weakest precondition of loop-free programs
def wp_mismatch(wp_j, com_j, post_j, states):
    """Oracle (a): first state on which wp and execution disagree, or None."""
    for st in states:
        fin, _, _ = L.run(com_j, st)
        if fin is None:
            continue
        if bool(L.ev_cond(wp_j, st)) != bool(L.ev_cond(post_j, fin)):
            return st
    return None


def repo_wp(com_j, post_j):
    c = build_com(com_j)
    wp = c.compute_wp(build_cond(post_j))
    return L.obj_to_json(wp)


_PROBE_POSTS = [['<=', ['v', v], ['n', 1]] for v in VARS] + \
    [['ite', ['<=', ['v', 'a'], ['v', 'b']], ['<=', ['v', 'c'], ['v', 'i']], ['<=', ['v', 'n'], ['v', 's']]]] + \
    [['<=', ['+', ['+', ['v', 'a'], ['*', ['n', 2], ['v', 'b']]], ['+', ['*', ['n', 3], ['v', 'c']],
                                                                        ['+', ['*', ['n', 5], ['v', 'i']],
                                                                         ['+', ['*', ['n', 7], ['v', 'n']],
                                                                          ['*', ['n', 11], ['v', 's']]]]]], ['n', 2]]]


def localise_wp(com_j, post_j, states):
    """Feature for the signature: constructor of the smallest sub-command whose wp is wrong."""
    for sub in L.subcoms(com_j):
        for q in [post_j] + _PROBE_POSTS:
            try:
                if wp_mismatch(repo_wp(sub, q), sub, q, states) is not None:
                    return sub[0]
            except Exception:
                continue
    return com_j[0]


def check_wp(case, com_j, post_j, states, H):
    try:
        wp_j = repo_wp(com_j, post_j)
    except CaseInvalid:
        raise
    except Unsupported as e:
        H.inconc('wp-object-unsupported')
        return 'wp:unsupported'
    except Exception as e:
        H.note('compute_wp-rejected:' + exc_name(e))
        return 'wp:rejected'
    bad = wp_mismatch(wp_j, com_j, post_j, states)
    if bad is not None:
        feat = localise_wp(com_j, post_j, states)
        H.violation('compute_wp:differs-from-execution:%s' % feat, case,
                    'wp = %s ; in state %s wp is %s but the postcondition after running is %s' % (
                        L.std_str(wp_j), bad, bool(L.ev_cond(wp_j, bad)),
                        bool(L.ev_cond(post_j, L.run(com_j, bad)[0]))))
        return 'wp:violating'
    return 'wp:ok'


# ---------------------------------------------------------------- reading VCs and shown conditions back
def vc_objects(c):
    """The VCs as trees, read from the pre/post lists the code under test left on the commands, in display order.
    (`true --> X` and `X` mean the same; X alone is used for a true premise, as the display does.)"""
    out = []

    def add(ls):
        for i in range(len(ls) - 1):
            p, q = L.obj_to_json(ls[i]), L.obj_to_json(ls[i + 1])
            out.append(q if p == ['true'] else ['-->', p, q])

    def rec(cmd):
        cls = type(cmd).__name__
        add(cmd.pre)
        if cls == 'Seq':
            rec(cmd.c1)
            rec(cmd.c2)
        elif cls == 'Cond':
            rec(cmd.c1)
            rec(cmd.c2)
        elif cls == 'While':
            rec(cmd.c)
            add(cmd.post)
    rec(c)
    return out


def shown_conditions(com_j):
    """(tag, tree) of the guards and invariants in display order."""
    out = []

    def rec(k):
        t = k[0]
        if t == 'seq':
            rec(k[1])
            rec(k[2])
        elif t == 'if':
            out.append(('if', k[1]))
            rec(k[2])
            rec(k[3])
        elif t == 'while':
            out.append(('while', k[1]))
            out.append(('inv', k[2]))
            rec(k[3])
    rec(com_j)
    return out


_RE_IF = re.compile(r'^if \((.*)\) then$')
_RE_WHILE = re.compile(r'^while \((.*)\) \{$')
_RE_INV = re.compile(r'^\[(.*)\]$')


def values(tree, states):
    return [bool(L.ev_cond(tree, st)) for st in states]


def check_shown(case, tag, obj_j, shown, hol, states, H):
    """Oracle (c) for one shown condition.  Returns the list of classes."""
    klass = []
    try:
        v_obj = values(obj_j, states)
    except Unsupported:
        H.inconc('object-unsupported')
        return ['shown:unsupported']
    nb = L.needs_brackets(obj_j)
    klass.append('shown:%s:%s' % (tag, 'needs-brackets' if nb else 'flat'))
    # HOL form
    if hol is not None:
        try:
            v_hol = [bool(L.hol_eval(hol, st)) for st in states]
        except L.Malformed:
            H.note('hol-form-malformed')
            klass.append('hol-form-malformed')
            v_hol = None
        except Unsupported as e:
            H.inconc('hol-unsupported')
            v_hol = None
        if v_hol is not None and v_hol != v_obj:
            k = [i for i in range(len(states)) if v_hol[i] != v_obj[i]][0]
            H.violation('convert_hol:meaning-differs', case,
                        'computed %s ; HOL form %s ; state %s: computed %s, HOL %s' % (
                            L.std_str(obj_j), hol, states[k], v_obj[k], v_hol[k]))
            klass.append('!hol-differs')
    # shown string, ordinary reading
    std_ok = None
    try:
        v_std = values(L.std_read(shown), states)
        std_ok = (v_std == v_obj)
    except (ReadError, Unsupported, KeyError):
        H.inconc('reference-reader-failed')
        v_std = None
    if std_ok is False:
        k = [i for i in range(len(states)) if v_std[i] != v_obj[i]][0]
        try:
            same_toks = L.tokens_without_brackets(shown) == L.tokens_without_brackets(L.std_str(obj_j))
        except ReadError:
            same_toks = False
        H.violation('display:shown-differs-from-computed:%s' % ('brackets' if same_toks else 'tokens'), case,
                    'computed %s ; shown as "%s" ; state %s: computed %s, shown %s' % (
                        L.std_str(obj_j), shown, states[k], v_obj[k], v_std[k]))
        klass.append('!shown-differs')
    # shown string, re-parsed by the code under test
    try:
        rj = L.obj_to_json(R['parser2'].cond_parser.parse(shown))
        v_rep = values(rj, states)
    except Unsupported:
        H.inconc('reparsed-object-unsupported')
        v_rep = None
    except KeyError:
        v_rep = None
        H.inconc('reparsed-unknown-variable')
    except Exception as e:
        v_rep = None
        klass.append('reparse-rejected')
    if v_rep is not None and v_rep != v_obj:
        klass.append('!reparse-differs')
        if std_ok:
            k = [i for i in range(len(states)) if v_rep[i] != v_obj[i]][0]
            H.violation('reparse:parser-reads-shown-condition-differently', case,
                        'computed %s ; shown as "%s" ; cond_parser reads %s ; state %s: computed %s, re-parsed %s' % (
                            L.std_str(obj_j), shown, L.std_str(rj), states[k], v_obj[k], v_rep[k]))
    return klass


# ---------------------------------------------------------------- (b) soundness on executed runs
def soundness(pre_holds, post_holds, vc_evals, com_j, states, fuel=200):
    """Trace-local oracle.  vc_evals: list of functions state -> bool.  Returns a dict:
    bad: (initial, final) of a run from a pre-state ending outside the postcondition, or None
    vcs_hold: all VCs true on all sampled and visited states
    iterated: some terminating run from a pre-state iterated a loop; runs / fuel_out: counts."""
    seen = {}
    bad = None
    iterated = False
    runs = fuel_out = 0
    for st in states:
        seen[harness.canon(st)] = st
    for st in states:
        if not pre_holds(st):
            continue
        fin, visited, iters = L.run(com_j, st, fuel)
        for v in visited:
            seen.setdefault(harness.canon(v), v)
        if fin is None:
            fuel_out += 1
            continue
        runs += 1
        if iters > 0:
            iterated = True
        if not post_holds(fin) and bad is None:
            bad = (st, fin)
    allst = list(seen.values())
    failing = None
    for idx, f in enumerate(vc_evals):
        for st in allst:
            if not f(st):
                failing = (idx, st)
                break
        if failing:
            break
    return {'bad': bad, 'vcs_hold': failing is None, 'failing': failing, 'iterated': iterated, 'runs': runs,
            'fuel_out': fuel_out, 'nstates': len(allst)}


def confirm_valid(hols, names, nat=False, fixed=None):
    """All VCs valid according to z3?  'valid' | 'invalid' | 'unknown'."""
    fixed = fixed or {}
    for hol in hols:
        def build(syms, hol=hol):
            env = dict(syms)
            env.update(fixed)
            return L.hol_eval(hol, env)

        def chk(model, hol=hol):
            env = dict(model)
            env.update(fixed)
            return not L.hol_eval(hol, env)
        r, _ = L.z3_valid(build, names, nat=nat, check=chk)
        if r != 'valid':
            return r
    return 'valid'


def check_vc(case, H):
    com_j, pre_j, post_j = case.get('com'), case.get('pre'), case.get('post')
    L.check_com(com_j)
    L.check_cond(pre_j)
    L.check_cond(post_j)
    if (L.vars_of(com_j) | L.vars_of(pre_j) | L.vars_of(post_j) | L.assigned_vars(com_j)) - set(VARS):
        raise CaseInvalid('variables')
    if L.com_depth(com_j) > 4:
        raise CaseInvalid('nesting')
    states = states_for(case)
    loopfree = not L.has_while(com_j)
    klass = []
    nontrivial = False
    nasg = sum(1 for x in L.subcoms(com_j) if x[0] == 'asg')

    # (a)
    if loopfree:
        k = check_wp(case, com_j, post_j, states, H)
        klass.append(k)
        if k == 'wp:ok' and nasg >= 2 and (L.vars_of(post_j) & L.assigned_vars(com_j)):
            nontrivial = True
            klass.append('wp:ok:nontrivial')

    # VC generation as the application does it
    try:
        c = build_com(com_j)
        c.pre = [build_cond(pre_j)]
        c.compute_wp(build_cond(post_j))
        lines = c.get_lines(dict(VARCTX))
    except CaseInvalid:
        raise
    except Exception as e:
        H.note('vcgen-rejected:' + exc_name(e))
        klass.append('vcgen:rejected')
        H.case(case, nontrivial, klass)
        return
    vcl = [l for l in lines if l['ty'] == 'vc']
    hols = [l['prop'] for l in vcl]

    # (c) shown conditions
    try:
        objs = vc_objects(c)
    except Unsupported:
        objs = None
        H.inconc('vc-object-unsupported')
    if objs is not None and len(objs) != len(vcl):
        H.note('vc-count-mismatch')
        objs = None
    shown_nt = False
    if objs is not None:
        for o, l in zip(objs, vcl):
            shown = l['str']
            if shown.endswith(';'):
                # get_lines appends the `;` of a sequence to the last line, which is a VC line after a loop
                H.note('vc-shown-with-semicolon')
                shown = shown[:-1]
            ks = check_shown(case, 'vc', o, shown, l['prop'], states, H)
            klass.extend(ks)
            shown_nt = shown_nt or any(k.endswith('needs-brackets') for k in ks)
    exp = shown_conditions(com_j)
    got = []
    for l in lines:
        s = l['str'].rstrip(';')
        if l['ty'] == 'inv':
            m = _RE_INV.match(s)
            got.append(('inv', m.group(1) if m else None))
        elif l['ty'] == 'com':
            m = _RE_IF.match(s)
            if m:
                got.append(('if', m.group(1)))
            m = _RE_WHILE.match(s)
            if m:
                got.append(('while', m.group(1)))
    if [g[0] for g in got] == [e[0] for e in exp] and all(g[1] is not None for g in got):
        for (tag, tree), (_, shown) in zip(exp, got):
            ks = check_shown(case, tag, tree, shown, None, states, H)
            klass.extend(ks)
            shown_nt = shown_nt or any(k.endswith('needs-brackets') for k in ks)
    else:
        H.note('shown-structure-mismatch')
    if shown_nt:
        nontrivial = True
    # (e) the program itself, printed before any VC is attached to it
    klass.extend(check_prog({'kind': 'prog', 'com': com_j, 'sseed': case.get('sseed', 0), 'via': 'ctor'}, H,
                            record=False))

    # (b) soundness against executed runs, VC truth = HOL form under the reference evaluator
    def mk(hol):
        return lambda st: bool(L.hol_eval(hol, st))
    try:
        res = soundness(lambda st: bool(L.ev_cond(pre_j, st)), lambda st: bool(L.ev_cond(post_j, st)),
                        [mk(h) for h in hols], com_j, states)
    except L.Malformed:
        klass.append('sound:hol-form-malformed')
        H.case(case, nontrivial, klass)
        return
    except Unsupported:
        H.inconc('vc-hol-unsupported')
        H.case(case, nontrivial, klass)
        return
    if res['fuel_out']:
        H.note('runs-out-of-fuel', res['fuel_out'])
    kind = 'loop' if not loopfree else 'loopfree'
    if res['bad'] is not None and res['vcs_hold']:
        verdict = confirm_valid(hols, VARS)
        if verdict == 'valid':
            feat = [x[0] for x in L.subcoms(com_j)]
            feat = 'while' if 'while' in feat else ('if' if 'if' in feat else 'straight')
            H.violation('vcgen:all-vcs-valid-but-run-violates-post:%s' % feat, case,
                        'VCs %s all valid (z3) and true on %d states; run from %s (precondition true) ends in %s where '
                        'the postcondition is false' % ([l['str'] for l in vcl], res['nstates'], res['bad'][0],
                                                        res['bad'][1]))
            klass.append('!unsound')
        else:
            H.inconc('bad-run-but-vc-' + verdict + '-off-sample')
    elif res['bad'] is not None:
        klass.append('sound:%s:vc-fails-and-run-fails' % kind)
    elif res['vcs_hold']:
        if res['runs'] and (loopfree or res['iterated']):
            klass.append('sound:%s:vcs-hold-runs-ok' % kind)
            if not loopfree:
                nontrivial = True
        else:
            klass.append('sound:%s:vcs-hold-no-%s' % (kind, 'run' if not res['runs'] else 'iteration'))
    else:
        klass.append('sound:%s:vc-fails-runs-ok' % kind)
    H.case(case, nontrivial, klass)


# ---------------------------------------------------------------- (e) the printed program, re-read by com_parser
def grouped(k, show=None):
    """Fully grouped one-line text of a command, for messages only."""
    show = show or L.std_str
    t = k[0]
    if t == 'skip':
        return 'skip'
    if t == 'asg':
        return '%s := %s' % (k[1], show(k[2]))
    if t == 'seq':
        return '{%s; %s}' % (grouped(k[1], show), grouped(k[2], show))
    if t == 'if':
        return '{if (%s) then %s else %s}' % (show(k[1]), grouped(k[2], show), grouped(k[3], show))
    if t == 'while':
        return 'while (%s) {[%s] %s}' % (show(k[1]), show(k[2]), grouped(k[3], show))
    return '?'


def seq_tail_tag(k):
    while k[0] == 'seq':
        k = k[2]
    return k[0]


def flatten_seq(k):
    """Command structure modulo associativity of `;` (guards and invariants left out)."""
    t = k[0]
    if t == 'seq':
        items = []

        def add(x):
            if x[0] == 'seq':
                add(x[1])
                add(x[2])
            else:
                items.append(flatten_seq(x))
        add(k)
        return ['block'] + items
    if t == 'if':
        return ['if', flatten_seq(k[2]), flatten_seq(k[3])]
    if t == 'while':
        return ['while', flatten_seq(k[3])]
    if t == 'asg':
        return ['asg', k[1]]
    return [t]


def runs_differ(k1, k2, states, fuel=60):
    """First state from which both programs terminate (reference interpreter) in different states, or None."""
    for st in states:
        f1 = L.run(k1, st, fuel)[0]
        f2 = L.run(k2, st, fuel)[0]
        if f1 is not None and f2 is not None and f1 != f2:
            return st, f1, f2
    return None


def print_reparse(c):
    """print_com of a command object without VCs, joined and re-read by com_parser (what app/imperative.py does between
    get-program-file and program-verify).  Returns (text, tree | None, exception name | None)."""
    text = '\n'.join(c.print_com(dict(VARCTX)))
    try:
        c2 = R['parser2'].com_parser.parse(text)
    except Exception as e:
        return text, None, exc_name(e)
    return text, com_obj_to_json(c2), None


def localise_print(orig):
    """Feature for the signature: the smallest sub-command whose printed text is re-read with another structure."""
    for sub in L.subcoms(orig):
        try:
            _, k2, _ = print_reparse(build_com(sub))
        except Exception:
            continue
        if k2 is not None and flatten_seq(k2) != flatten_seq(sub):
            if sub[0] == 'seq':
                return 'seq-after-' + seq_tail_tag(sub[1])
            return sub[0]
    return 'other'


def layout_matters(k):
    """Non-trivial rule of (e): the text has to convey where a conditional or a loop ends."""
    for sub in L.subcoms(k):
        if sub[0] == 'seq' and seq_tail_tag(sub[1]) in ('if', 'while'):
            return True
        if sub[0] == 'if' and (sub[2][0] == 'seq' or sub[3][0] == 'seq'):
            return True
    return False


def check_prog(case, H, record=True):
    """Oracle (e).  via ctor: the program is built with the constructors; via text: it is what com_parser reads from the
    one-line text of the tree (that reading is also compared with the reference reader)."""
    com_j, via = case.get('com'), case.get('via', 'ctor')
    L.check_com(com_j)
    if (L.vars_of(com_j) | L.assigned_vars(com_j)) - set(VARS):
        raise CaseInvalid('variables')
    if L.com_depth(com_j) > 4:
        raise CaseInvalid('nesting')
    states = states_for(case)
    klass = []

    def done(nontrivial=False):
        if record:
            H.case(case, nontrivial, klass)
        return klass
    if via == 'text':
        bare = bool(case.get('bare'))
        try:
            text0 = L.std_str_com(com_j, bare)
        except Unsupported:
            raise CaseInvalid('tree cannot be written')
        try:
            c = R['parser2'].com_parser.parse(text0)
        except Exception as e:
            unannotated = bare and any(x[0] == 'while' and x[2] == ['true'] for x in L.subcoms(com_j))
            H.note('com_parser-rejected:%s%s' % (exc_name(e), ':loop-without-invariant' if unannotated else ''))
            klass.append('prog:text:rejected')
            return done()
        try:
            orig = com_obj_to_json(c)
        except Unsupported:
            H.inconc('parsed-object-unsupported')
            return done()
        try:
            mine = L.std_read_com(text0, strict=True)
        except L.Ambiguous:
            mine = None
            klass.append('prog:text:conditional-then-semicolon')
        except ReadError:
            mine = None
            H.inconc('reference-reader-failed')
        if mine is not None:
            klass.append('prog:text:read')
            d = runs_differ(mine, orig, states)
            if d is not None:
                feat = 'other'
                for sub in L.subcoms(mine):
                    try:
                        o2 = com_obj_to_json(R['parser2'].com_parser.parse(L.std_str_com(sub, bare)))
                    except Exception:
                        continue
                    if runs_differ(sub, o2, states) is not None:
                        feat = sub[0]
                        break
                H.violation('com_parser:program-differs-from-text:%s' % feat, case,
                            'text "%s" ; read here as %s ; com_parser reads %s ; state %s: the text ends in %s, the '
                            'parsed program in %s' % (text0, grouped(mine), grouped(orig), d[0], d[1], d[2]))
                klass.append('!text-differs')
    elif via == 'ctor':
        c = build_com(com_j)
        orig = com_j
    else:
        raise CaseInvalid('via')
    try:
        text, k2, exc = print_reparse(c)
    except Unsupported:
        H.inconc('reparsed-object-unsupported')
        return done()
    except Exception as e:
        H.note('print_com-rejected:' + exc_name(e))
        klass.append('prog:print-rejected')
        return done()
    if k2 is None:
        # completeness of the parser is not part of the property
        H.note('print_com:reparse-rejected:' + exc)
        klass.append('prog:reparse-rejected')
        return done()
    nt = layout_matters(orig)
    d = runs_differ(orig, k2, states)
    if d is not None:
        # The statement speaks of the CONDITIONS shown to and re-parsed from the user; the displayed program is not
        # part of it (and only constructor-built programs reach this shape), so this is recorded, not reported.
        H.note('print_com-reparsed-program-runs-differently:%s' % localise_print(orig))
        klass.append('!reparse-runs-differently')
    elif flatten_seq(orig) != flatten_seq(k2):
        # e.g. the re-read program does not terminate any more: judge the smallest misread sub-command, which is a
        # program of the domain in its own right
        found = False
        for sub in L.subcoms(orig):
            if sub is orig or sub[0] in ('skip', 'asg'):
                continue
            try:
                stext, s2, _ = print_reparse(build_com(sub))
            except Exception:
                continue
            if s2 is None or flatten_seq(s2) == flatten_seq(sub):
                continue
            d = runs_differ(sub, s2, states)
            if d is not None:
                H.note('print_com-reparsed-program-runs-differently:%s' % localise_print(sub))
                klass.append('!reparse-runs-differently')
                found = True
                break
        if not found:
            H.inconc('reparsed-structure-differs-but-no-sampled-run-does')
            klass.append('prog:reparse-other-structure-same-runs')
    else:
        klass.append('prog:%s:reparse-same:%s' % (via, 'layout-matters' if nt else 'plain'))
    return done(nt and d is None)


def com_obj_to_json(c):
    cls = type(c).__name__
    if cls == 'Skip':
        return ['skip']
    if cls == 'Assign':
        return ['asg', c.v.name, L.obj_to_json(c.e)]
    if cls == 'Seq':
        return ['seq', com_obj_to_json(c.c1), com_obj_to_json(c.c2)]
    if cls == 'Cond':
        return ['if', L.obj_to_json(c.b), com_obj_to_json(c.c1), com_obj_to_json(c.c2)]
    if cls == 'While':
        return ['while', L.obj_to_json(c.b), L.obj_to_json(c.inv), com_obj_to_json(c.c)]
    raise Unsupported(cls)


def check_cond_case(case, H):
    c = case.get('c')
    L.check_cond(c)
    if L.vars_of(c) - set(VARS):
        raise CaseInvalid('variables')
    states = states_for(case)
    try:
        k = R['com'].Skip()
        k.pre = [R['expr'].Const(True)]
        k.compute_wp(build_cond(c))
        lines = k.get_lines(dict(VARCTX))
    except CaseInvalid:
        raise
    except Exception as e:
        H.note('vcgen-rejected:' + exc_name(e))
        H.case(case, False, 'cond:rejected')
        return
    vcl = [l for l in lines if l['ty'] == 'vc']
    if len(vcl) != 1:
        H.note('vc-count-mismatch')
        H.case(case, False, 'cond:no-vc')
        return
    ks = check_shown(case, 'cond', c, vcl[0]['str'], vcl[0]['prop'], states, H)
    H.case(case, any(k.endswith('needs-brackets') for k in ks), ks)


# ---------------------------------------------------------------- (d) HOL level: imperative.imp over nat => nat states
def nat_check(case_com, pre=None, post=None, params=False):
    """Well-formedness of the nat-level language: slots 0..5, parameters A B (only for vcg), + *, == != <= < & | true."""
    def ex(e):
        t = e[0]
        if t == 'v':
            if isinstance(e[1], int) and 0 <= e[1] < NSLOTS:
                return
            if params and e[1] in PARAMS:
                return
            raise CaseInvalid('nat variable %r' % (e[1],))
        if t == 'n':
            if e[1] > 40:
                raise CaseInvalid('numeral')
            return
        if t in ('+', '*'):
            ex(e[1])
            return ex(e[2])
        raise CaseInvalid('nat expr %r' % (t,))

    def co(c):
        t = c[0]
        if t == 'true':
            return
        if t in ('==', '!=', '<=', '<'):
            ex(c[1])
            return ex(c[2])
        if t in ('&', '|'):
            co(c[1])
            return co(c[2])
        raise CaseInvalid('nat cond %r' % (t,))

    def km(k):
        t = k[0]
        if t == 'skip':
            return
        if t == 'asg':
            if not (isinstance(k[1], int) and 0 <= k[1] < NSLOTS):
                raise CaseInvalid('slot')
            return ex(k[2])
        if t == 'seq':
            km(k[1])
            return km(k[2])
        if t == 'if':
            co(k[1])
            km(k[2])
            return km(k[3])
        if t == 'while':
            co(k[1])
            co(k[2])
            return km(k[3])
    L.check_com(case_com)
    km(case_com)
    for c in (pre, post):
        if c is not None:
            L.check_cond(c)
            co(c)


def nat_expr_term(e, s):
    K = R['kterm']
    t = e[0]
    if t == 'v':
        if isinstance(e[1], int):
            return s(K.Nat(e[1]))
        return K.Var(e[1], R['NatType'])
    if t == 'n':
        return K.Nat(e[1])
    if t == '+':
        return K.plus(R['NatType'])(nat_expr_term(e[1], s), nat_expr_term(e[2], s))
    if t == '*':
        return K.times(R['NatType'])(nat_expr_term(e[1], s), nat_expr_term(e[2], s))
    raise CaseInvalid(t)


def nat_cond_term(c, s):
    K = R['kterm']
    t = c[0]
    if t == 'true':
        return K.true
    if t in ('==', '!=', '<=', '<'):
        a, b = nat_expr_term(c[1], s), nat_expr_term(c[2], s)
        if t == '==':
            return K.Eq(a, b)
        if t == '!=':
            return K.Not(K.Eq(a, b))
        if t == '<=':
            return K.less_eq(R['NatType'])(a, b)
        return K.less(R['NatType'])(a, b)
    if t == '&':
        return K.And(nat_cond_term(c[1], s), nat_cond_term(c[2], s))
    if t == '|':
        return K.Or(nat_cond_term(c[1], s), nat_cond_term(c[2], s))
    raise CaseInvalid(t)


def nat_com_term(k):
    K, imp, T = R['kterm'], R['imp'], R['natFunT']
    s = K.Var('s', T)
    t = k[0]
    if t == 'skip':
        return imp.Skip(T)
    if t == 'asg':
        return imp.Assign(R['NatType'], R['NatType'])(K.Nat(k[1]), K.Lambda(s, nat_expr_term(k[2], s)))
    if t == 'seq':
        return imp.Seq(T)(nat_com_term(k[1]), nat_com_term(k[2]))
    if t == 'if':
        return imp.Cond(T)(K.Lambda(s, nat_cond_term(k[1], s)), nat_com_term(k[2]), nat_com_term(k[3]))
    if t == 'while':
        return imp.While(T)(K.Lambda(s, nat_cond_term(k[1], s)), K.Lambda(s, nat_cond_term(k[2], s)),
                            nat_com_term(k[3]))
    raise CaseInvalid(t)


def nat_state_term(vals):
    K = R['kterm']
    st = R['mk_const_fun'](R['NatType'], R['nat'].zero)
    for i, v in enumerate(vals):
        if v != 0:
            st = R['mk_fun_upd'](st, K.Nat(i), K.Nat(v))
    return st


def check_kernel(pt, H, case, site):
    """The exported proof must be accepted by the checker and yield the claimed theorem.  Returns True if fine."""
    theory = R['theory']
    theory.thy = R['thy']
    try:
        with time_limit(120):
            th = theory.check_proof(pt.export(), R['ProofReport']())
    except Timeout:
        H.inconc('check-timeout')
        return False
    except Exception as e:
        H.violation('%s:proof-rejected:%s' % (site, exc_name(e)), case,
                    'claimed %s ; checker: %s %s' % (pt.th, exc_name(e), str(getattr(e, 'str', e))[:300]))
        return False
    if th.prop != pt.th.prop or not set(th.hyps) <= set(pt.th.hyps):
        H.violation('%s:checked-theorem-differs' % site, case, 'claimed %s ; checked %s' % (pt.th, th))
        return False
    return True


def check_sem(case, H):
    com_j, init = case.get('com'), case.get('init')
    nat_check(com_j)
    if not (isinstance(init, list) and len(init) == NSLOTS and
            all(isinstance(v, int) and not isinstance(v, bool) and 0 <= v <= 40 for v in init)):
        raise CaseInvalid('init')
    st0 = {i: v for i, v in enumerate(init)}
    fin, _, iters = L.run(com_j, st0, fuel=14, limit=5000)
    if fin is None:
        # eval_Sem would not return (or would build numerals of unbounded size)
        H.inconc('reference-out-of-fuel-or-range')
        H.case(case, False, 'sem:diverges-in-reference')
        return
    R['theory'].thy = R['thy']
    com_t = nat_com_term(com_j)
    st_t = nat_state_term(init)
    try:
        with time_limit(60):
            pt = R['imp'].eval_Sem(com_t, st_t)
    except Timeout:
        H.inconc('eval_Sem-timeout')
        H.case(case, False, 'sem:timeout')
        return
    except RecursionError:
        H.inconc('eval_Sem-recursion')
        H.case(case, False, 'sem:recursion')
        return
    except Exception as e:
        H.note('eval_Sem-rejected:' + exc_name(e))
        H.case(case, False, 'sem:rejected')
        return
    nasg = sum(1 for x in L.subcoms(com_j) if x[0] == 'asg')
    nontrivial = nasg >= 2 or iters > 0
    klass = ['sem:ok:%s' % ('loop-iterated' if iters else ('branch' if any(x[0] == 'if' for x in L.subcoms(com_j))
                                                         else 'straight'))]
    prop = pt.prop
    if pt.hyps:
        H.violation('eval_Sem:theorem-has-hypotheses', case, str(pt.th))
    if not (prop.is_comb('Sem', 3) and prop.args[0] == com_t and prop.args[1] == st_t):
        H.violation('eval_Sem:theorem-about-other-program-or-state', case, str(pt.th))
        H.case(case, nontrivial, klass + ['!sem-other'])
        return
    try:
        f = L.hol_eval(prop.args[2], {})
        got = {i: f(i) for i in list(range(NSLOTS + 2)) + [50]}
    except Unsupported as e:
        H.inconc('final-state-unsupported')
        H.case(case, nontrivial, klass)
        return
    want = {i: fin.get(i, 0) for i in got}
    if got != want:
        H.violation('eval_Sem:final-state-differs-from-interpreter', case,
                    'theorem %s ; interpreter final state %s' % (pt.th, want))
        klass.append('!sem-differs')
    if check_kernel(pt, H, case, 'eval_Sem'):
        # the route of parser.process_file: the macro, expanded by the checker
        goal = R['imp'].Sem(R['natFunT'])(com_t, st_t, prop.args[2])
        try:
            with time_limit(120):
                th = R['theory'].check_proof(R['ProofTerm']('eval_Sem', goal, []).export(), R['ProofReport']())
            if th.prop != goal or th.hyps:
                H.violation('eval_Sem_macro:checked-theorem-differs', case, 'goal %s ; checked %s' % (goal, th))
        except Timeout:
            H.inconc('check-timeout')
        except Exception as e:
            H.violation('eval_Sem_macro:proof-rejected:%s' % exc_name(e), case, str(getattr(e, 'str', e))[:300])
    H.case(case, nontrivial, klass)


def nat_states(case):
    """Sampled nat states: slots in 0..5 and parameters A, B in 0..4."""
    base = states_for(case, names=list(range(NSLOTS)) + PARAMS, lo=0, hi=5, n=24)
    # four parameter valuations, six states each (the assumptions are judged per valuation)
    combos = [(0, 0), (1, 2), (3, 1), (base[-1]['A'] % 5, base[-1]['B'] % 5)]
    for i, st in enumerate(base):
        st['A'], st['B'] = combos[i % 4]
    return base


def check_hvcg(case, H):
    com_j, pre_j, post_j = case.get('com'), case.get('pre'), case.get('post')
    nat_check(com_j, pre_j, post_j, params=True)
    K, imp, T = R['kterm'], R['imp'], R['natFunT']
    R['theory'].thy = R['thy']
    s = K.Var('s', T)
    com_t = nat_com_term(com_j)
    goal = imp.Valid(T)(K.Lambda(s, nat_cond_term(pre_j, s)), com_t, K.Lambda(s, nat_cond_term(post_j, s)))
    try:
        with time_limit(60):
            pt = imp.vcg_norm(T, goal)
    except Timeout:
        H.inconc('vcg_norm-timeout')
        H.case(case, False, 'hvcg:timeout')
        return
    except Exception as e:
        H.note('vcg_norm-rejected:' + exc_name(e))
        H.case(case, False, 'hvcg:rejected')
        return
    klass = []
    As, concl = pt.prop.strip_implies()
    if pt.hyps:
        H.violation('vcg_norm:theorem-has-hypotheses', case, str(pt.th))
    if concl != goal:
        H.violation('vcg_norm:conclusion-is-not-the-goal', case, 'goal %s ; theorem %s' % (goal, pt.th))
        H.case(case, False, '!hvcg-other-goal')
        return
    check_kernel(pt, H, case, 'vcg_norm')
    # the tactic / macro route (gaps for the assumptions)
    try:
        with time_limit(120):
            pt2 = imp.vcg_tactic().get_proof_term(R['Thm'](goal), None, [])
            th2 = R['theory'].check_proof(pt2.export(), R['ProofReport']())
        if th2.prop != goal or th2.hyps:
            H.violation('vcg_tactic:checked-theorem-differs', case, 'goal %s ; checked %s' % (goal, th2))
    except Timeout:
        H.inconc('check-timeout')
    except Exception as e:
        H.violation('vcg_tactic:proof-rejected:%s' % exc_name(e), case, str(getattr(e, 'str', e))[:300])

    # semantics: assumptions true on the states => runs satisfy the triple
    states = nat_states(case)
    by_params = {}
    for st in states:
        by_params.setdefault((st['A'], st['B']), []).append(st)
    nontrivial = False
    verdicts = set()
    for (pa, pb), sts in sorted(by_params.items()):
        fixed = {'A': pa, 'B': pb}

        def slots(st):
            return {i: st[i] for i in range(NSLOTS)}
        seen = {}
        bad = None
        iterated = False
        runs = 0
        for st in sts:
            seen.setdefault(harness.canon(slots(st)), slots(st))
            if not L.ev_cond(pre_j, st):
                continue
            fin, visited, iters = L.run(com_j, st, 40, 10 ** 6)
            for v in visited:
                seen.setdefault(harness.canon(slots(v)), slots(v))
            if fin is None:
                continue
            runs += 1
            iterated = iterated or iters > 0
            if not L.ev_cond(post_j, fin) and bad is None:
                bad = (st, fin)
        funs = [L.dict_state_fun(d) for d in seen.values()]
        try:
            hold = all(bool(L.hol_eval(A, fixed, funs)) for A in As)
        except Unsupported:
            H.inconc('assumption-unsupported')
            continue
        if bad is not None and hold:
            # confirm: every assumption valid for these parameter values (symbolic state)
            ok = 'valid'
            for A in As:
                def build(syms, A=A):
                    return L.hol_eval(A, fixed, [lambda i: syms[i] if i in syms else 0])

                def chk(model, A=A):
                    return not L.hol_eval(A, fixed, [L.dict_state_fun(model)])
                r, _ = L.z3_valid(build, list(range(NSLOTS)), nat=True, check=chk)
                if r != 'valid':
                    ok = r
                    break
            if ok == 'valid':
                H.violation('vcg_norm:assumptions-valid-but-run-violates-triple', case,
                            'theorem %s ; A=%d B=%d ; run from %s ends in %s' % (pt.th, pa, pb, slots(bad[0]),
                                                                                 slots(bad[1])))
                verdicts.add('!hvcg-unsound')
            else:
                H.inconc('bad-run-but-assumption-' + ok + '-off-sample')
        elif bad is not None:
            verdicts.add('hvcg:assumption-fails-and-run-fails')
        elif hold:
            if runs and iterated:
                nontrivial = True
                verdicts.add('hvcg:assumptions-hold-loop-iterated')
            elif runs:
                verdicts.add('hvcg:assumptions-hold-runs-ok')
        else:
            verdicts.add('hvcg:assumption-fails-runs-ok')
    klass.extend(sorted(verdicts) or ['hvcg:no-run'])
    H.case(case, nontrivial, klass)


# ---------------------------------------------------------------- (f) program text through imperative/parser.py
SLOT_NAMES = 'abcdef'
_TO_LETTER = {i: SLOT_NAMES[i] for i in range(NSLOTS)}
_TO_SLOT = {SLOT_NAMES[i]: i for i in range(NSLOTS)}
_OPN = ('+', '*', '&', '|')


def subtrees(t):
    """Expression / condition sub-trees in post-order."""
    for x in t[1:]:
        if isinstance(x, list):
            yield from subtrees(x)
    yield t


def cond_roots(k):
    """Expressions and conditions of a command, in text order."""
    out = []
    for sub in L.subcoms(k):
        if sub[0] == 'asg':
            out.append(sub[2])
        elif sub[0] == 'if':
            out.append(sub[1])
        elif sub[0] == 'while':
            out.extend([sub[1], sub[2]])
    return out


def mixes_operators(t):
    """The text of t is only determined by precedence: an operator directly under a different one of its sort."""
    for x in subtrees(t):
        if x[0] in _OPN and any(isinstance(y, list) and y[0] in _OPN and y[0] != x[0] and
                                ((y[0] in '+*') == (x[0] in '+*')) for y in x[1:]):
            return True
    return False


def slot_part(st):
    return {i: st[i] for i in range(NSLOTS)}


def param_part(st):
    return {p: st[p] for p in PARAMS}


def hol_com_mismatch(term, tree, states):
    """Oracle (f) for commands: first (state, final of the tree, final of the HOL command) on which the reference
    interpreter on `tree` (slots as variables) and the HOL interpreter on `term` both terminate and disagree."""
    for st in states:
        f_ref = L.run(tree, st, 40, 10 ** 6)[0]
        if f_ref is None:
            continue
        f_hol = L.hol_com_run(term, slot_part(st), param_part(st), 400, 10 ** 9)
        if f_hol is None:
            continue
        if any(k not in range(NSLOTS) and v != 0 for k, v in f_hol.items()) or \
                any(f_ref[i] != f_hol.get(i, 0) for i in range(NSLOTS)):
            return st, slot_part(f_ref), {k: v for k, v in sorted(f_hol.items())}
    return None


def hol_cond_mismatch(term, tree, states, lam):
    """Oracle (f) for conditions.  lam: the term is an abstraction over the state, else it mentions the variable s."""
    for st in states:
        want = bool(L.ev_cond(tree, st))
        f = L.dict_state_fun(slot_part(st))
        if lam:
            got = bool(L.hol_eval(term, param_part(st))(f))
        else:
            got = bool(L.hol_eval(term, dict(param_part(st), s=f)))
        if want != got:
            return st, want, got
    return None


def ptext_feature(roots, show, states):
    """Which operators the parser groups against the reading: the smallest sub-text that is already misread."""
    P = R['parser']
    for root in roots:
        for x in subtrees(root):
            try:
                xs = rename(x, _TO_SLOT)
                if x[0] in L.ARITH:
                    term = P.parse_com('a := ' + show(x))
                    rhs = L.hol_strip(term)[1][1]
                    bad = any(L.hol_eval(rhs, param_part(st))(L.dict_state_fun(slot_part(st))) != L.ev_expr(xs, st)
                              for st in states)
                elif x[0] in L.BOOL2:
                    bad = hol_cond_mismatch(P.parse_cond(show(x)), xs, states, False) is not None
                else:
                    continue
            except Exception:
                continue
            if bad:
                # the parser groups to the right whatever the operators are; that changes the meaning only where
                # two different operators of one sort meet
                return {'+': 'times-plus', '*': 'times-plus', '&': 'and-or', '|': 'and-or'}.get(x[0], 'other')
    return 'other'


def check_ptext(case, H):
    """A program (and optionally a pre/postcondition) written as text in the language of imperative/parser.py
    (variables a..f = slots 0..5 of the state, parameters A B, + *, == != <= <, & |, true; no brackets in that
    grammar).  The case tree only describes the text; the meaning is the reference reading of the text."""
    com_j, pre_j, post_j = case.get('com'), case.get('pre'), case.get('post')
    nat_check(com_j, pre_j, post_j, params=True)
    bare, brackets = bool(case.get('bare')), bool(case.get('brackets'))
    states = states_for(case, names=list(range(NSLOTS)) + PARAMS, lo=0, hi=3, n=24)
    P = R['parser']
    R['theory'].thy = R['thy']

    def show(t):
        return L.std_str(t) if brackets else L.strip_brackets(L.std_str(t))
    text = L.std_str_com(rename(com_j, _TO_LETTER), bare, show)
    ctexts = [(nm, show(rename(c, _TO_LETTER))) for nm, c in (('pre', pre_j), ('post', post_j)) if c is not None]
    try:
        mine = L.std_read_com(text, strict=True)
        cmine = [(nm, t, L.std_read(t)) for nm, t in ctexts]
    except L.Ambiguous:
        H.note('ptext:conditional-then-semicolon')
        H.case(case, False, 'ptext:ambiguous-text')
        return
    except ReadError:
        H.inconc('reference-reader-failed')
        H.case(case, False, 'ptext:unreadable')
        return
    roots = cond_roots(mine) + [t for _, _, t in cmine]
    mixed = any(mixes_operators(r) for r in roots)
    klass = ['ptext:%s' % ('precedence-decides' if mixed else 'flat')]
    mine_s = rename(mine, _TO_SLOT)
    # -- the command
    try:
        term = P.parse_com(text)
    except Exception as e:
        H.note('parse_com-rejected:' + exc_name(e))
        H.case(case, False, klass + ['ptext:rejected'])
        return
    try:
        d = hol_com_mismatch(term, mine_s, states)
        dc = None
        if d is None:
            mc, hc = shown_conditions(mine_s), L.hol_com_conds(term)
            if [x[0] for x in mc] == [x[0] for x in hc]:
                for (tag, tree), (_, ct) in zip(mc, hc):
                    r = hol_cond_mismatch(ct, tree, states, True)
                    if r is not None:
                        dc = (tag, tree, ct) + r
                        break
            else:
                H.note('ptext:condition-list-differs')
    except L.Malformed:
        H.note('ptext:term-malformed')
        H.case(case, False, klass)
        return
    except Unsupported:
        H.inconc('parsed-term-unsupported')
        H.case(case, False, klass)
        return
    if d is not None:
        feat = ptext_feature(roots, show, states)
        extra = ''
        if not any(p in text for p in PARAMS):
            try:
                with time_limit(20):
                    pt = R['imp'].eval_Sem(term, nat_state_term([d[0][i] for i in range(NSLOTS)]))
                extra = ' ; and imp.eval_Sem proves %s' % (pt.th,)
            except Exception:
                extra = ''
        H.violation('parser_py:term-differs-from-text:%s' % feat, case,
                    'text "%s" ; by precedence that is %s ; parse_com gives %s ; from slots %s the text ends in %s, the '
                    'term (rules of Sem) in %s%s' % (text, grouped(mine, full_paren), term, slot_part(d[0]), d[1], d[2], extra))
        klass.append('!ptext-com-differs')
    elif dc is not None:
        H.violation('parser_py:term-differs-from-text:%s' % ptext_feature(roots, show, states), case,
                    'text "%s" ; the %s condition, by precedence %s, is parsed as %s ; state %s: text %s, term %s' % (
                        text, dc[0], full_paren(rename(dc[1], _TO_LETTER)), dc[2], dc[3], dc[4], dc[5]))
        klass.append('!ptext-cond-differs')
    # -- precondition / postcondition, as process_file reads them for a vcg entry
    for nm, t, tree in cmine:
        try:
            ct = P.parse_cond(t)
        except Exception as e:
            H.note('parse_cond-rejected:' + exc_name(e))
            klass.append('ptext:cond-rejected')
            continue
        try:
            r = hol_cond_mismatch(ct, rename(tree, _TO_SLOT), states, False)
        except Unsupported:
            H.inconc('parsed-term-unsupported')
            continue
        if r is not None:
            H.violation('parser_py:term-differs-from-text:%s' % ptext_feature([tree], show, states), case,
                        '%s "%s" ; by precedence that is %s ; parse_cond gives %s ; state %s: text %s, term %s' % (
                            nm, t, full_paren(tree), ct, r[0], r[1], r[2]))
            klass.append('!ptext-cond-differs')
    iterated = any(L.run(mine_s, st, 40, 10 ** 6)[2] > 0 and L.run(mine_s, st, 40, 10 ** 6)[0] is not None
                   for st in states[:6])
    if iterated:
        klass.append('ptext:loop-iterated')
    H.case(case, mixed and not any(k.startswith('!') for k in klass), klass)


# ---------------------------------------------------------------- case interface
_ROOMY = {'fn': None, 'inside': False}


def with_roomy_stack(f):
    """Performance only.  CPython 3.12 keeps interpreter frames in 16 KB chunks that are mmap'ed / munmap'ed whenever the
    call depth crosses a chunk boundary; Hypothesis and the recursive term functions of holpy cross one constantly
    (hundreds of mmap/munmap pairs per case, very slow on a busy machine).  Calling through a function with ~70000
    local variables makes the interpreter allocate one 1 MB chunk whose free half serves all deeper frames."""
    if _ROOMY['inside']:
        return f()
    if _ROOMY['fn'] is None:
        try:
            ns = {}
            src = 'def roomy(f, %s):\n    return f()\n' % ', '.join('a%d=None' % i for i in range(70000))
            exec(compile(src, '<roomy-stack>', 'exec'), ns)
            _ROOMY['fn'] = ns['roomy']
        except Exception:
            _ROOMY['fn'] = lambda g: g()
    _ROOMY['inside'] = True
    try:
        return _ROOMY['fn'](f)
    finally:
        _ROOMY['inside'] = False


def run_case(case, H):
    if not _ROOMY['inside']:
        return with_roomy_stack(lambda: run_case(case, H))
    if not isinstance(case, dict):
        raise CaseInvalid('case')
    kind = case.get('kind')
    if kind == 'vc':
        check_vc(case, H)
    elif kind == 'cond':
        check_cond_case(case, H)
    elif kind == 'sem':
        check_sem(case, H)
    elif kind == 'hvcg':
        check_hvcg(case, H)
    elif kind == 'prog':
        check_prog(case, H)
    elif kind == 'ptext':
        check_ptext(case, H)
    else:
        raise CaseInvalid('kind')


# ---------------------------------------------------------------- templates with correct inductive invariants
TEMPLATES = [
    ('count', '0 <= n', 'i := 0; while (i < n) {[i <= n] i := i + 1}', 'i == n'),
    ('accum', '0 <= n', 'i := 0; s := 0; while (i < n) {[s == i * a & i <= n] s := s + a; i := i + 1}', 's == n * a'),
    ('down', '0 <= a', 'while (0 < a) {[0 <= a] a := a - 1}', 'a == 0'),
    ('mult', 'a == 0 & b == 0', 'while (a != n) {[b == a * c] b := b + c; a := a + 1}', 'b == n * c'),
    ('condbody', '0 <= n',
     'i := 0; s := 0; while (i < n) {[i <= n & 0 <= s] if (0 <= a) then s := s + a else s := s - a; i := i + 1}',
     '0 <= s & i == n'),
    ('nested', '0 <= n & 0 <= b',
     'i := 0; s := 0; while (i < n) {[s == i * b & i <= n & 0 <= b] c := 0; '
     'while (c < b) {[s == i * b + c & c <= b & i < n & 0 <= b] s := s + 1; c := c + 1}; i := i + 1}',
     's == n * b'),
    ('downacc', '0 <= n', 'i := n; s := 0; while (0 < i) {[0 <= i & s == (n - i) * b] s := s + b; i := i - 1}',
     's == n * b'),
    ('twoloops', '0 <= n',
     'i := 0; while (i < n) {[i <= n & 0 <= n] i := i + 1}; s := 0; '
     'while (0 < i) {[0 <= i & s + i == n] s := s + 1; i := i - 1}', 's == n'),
    ('absif', 'true', 'if (0 <= a) then c := a else c := -a', 'c == abs(a)'),
    ('maxif', 'true', 'if (a <= b) then c := b else c := a', 'c == max(a, b)'),
    ('swap', 'a == i & b == n', 'a := a + b; b := a - b; a := a - b', 'a == n & b == i'),
    ('implinv', '0 <= n', 'i := 0; s := 0; while (i != n) {[(i == n --> s == n * 2) & s == i * 2] s := s + 2; i := i + 1}',
     's == n * 2'),
]

NAT_TEMPLATES = [
    ('mult', 'a == 0 & b == 0', 'while (a != A) {[b == a * B] b := b + B; a := a + 1}', 'b == A * B'),
    ('reach', 'true', 'c := 0; while (c != a) {[true] c := c + 1}', 'c == a'),
    ('ifset', 'true', 'if (a == A) then skip else a := A', 'a == A'),
    ('double', 'true', 'b := 0; c := 0; while (c < a) {[b == c * 2 & c <= a] b := b + 2; c := c + 1}', 'b == a * 2'),
    ('nested', 'true',
     'd := 0; e := 0; while (d < a) {[e == d * b & d <= a] f := 0; '
     'while (f < b) {[e == d * b + f & f <= b & d < a] e := e + 1; f := f + 1}; d := d + 1}', 'e == a * b'),
    ('seq', 'a == A', 'b := a + 1; c := b * 2', 'c == A * 2 + 2'),
    ('sumto', 'true', 'b := 0; c := 0; while (c != A) {[b == c * a] b := b + a; c := c + 1}', 'b == A * a'),
]

_TPL = {}


def template(name, nat=False):
    key = (name, nat)
    if key not in _TPL:
        for nm, pre, com, post in (NAT_TEMPLATES if nat else TEMPLATES):
            if nm == name:
                _TPL[key] = (L.std_read(pre), L.std_read_com(com), L.std_read(post))
    return _TPL[key]


def rename(t, m):
    """Rename variables in any tree (assignment targets included)."""
    if not isinstance(t, list):
        return t
    if t and t[0] == 'v':
        return ['v', m.get(t[1], t[1])]
    if t and t[0] == 'asg':
        return ['asg', m.get(t[1], t[1]), rename(t[2], m)]
    return [t[0]] + [rename(x, m) for x in t[1:]]


_CMP_CYCLE = {'==': '<=', '<=': '<', '<': '!=', '!=': '=='}


def tweak_sites(t, path=()):
    """Paths of nodes that have a small mutation."""
    out = []
    if isinstance(t, list) and t and isinstance(t[0], str):
        if t[0] in _CMP_CYCLE or t[0] == 'n' or t[0] in ('&', '+', '-'):
            out.append(path)
        for i, x in enumerate(t[1:], 1):
            if isinstance(x, list):
                out.extend(tweak_sites(x, path + (i,)))
    return out


def tweak_at(t, path):
    if path:
        t = list(t)
        t[path[0]] = tweak_at(t[path[0]], path[1:])
        return t
    tag = t[0]
    if tag in _CMP_CYCLE:
        return [_CMP_CYCLE[tag], t[1], t[2]]
    if tag == 'n':
        return ['n', t[1] + 1]
    if tag == '&':
        return t[1]
    if tag == '+':
        return ['-', t[1], t[2]]
    if tag == '-':
        return ['+', t[1], t[2]]
    return t


# ---------------------------------------------------------------- strategies (plain JSON)
def strategies(kind):
    from hypothesis import strategies as st
    var = st.sampled_from(VARS).map(lambda v: ['v', v])
    num = st.integers(0, 4).map(lambda k: ['n', k])
    leaf = st.one_of(var, var, var, num)

    def eext(ch):
        return st.one_of(
            st.tuples(st.sampled_from(['-', '+', '-', '*', '-', '*']), ch, ch).map(list),
            st.tuples(st.sampled_from(['-', '+', '-', '*', '-', '*']), ch, ch).map(list),
            st.tuples(st.sampled_from(['-', '+', '-', '*', '-', '*']), ch, ch).map(list),
            st.one_of(st.tuples(st.just('neg'), ch).map(list), st.tuples(st.just('abs'), ch).map(list),
                      st.tuples(st.just('max'), ch, ch).map(list), st.tuples(st.just('neg'), ch).map(list)),
            st.tuples(st.sampled_from(['-', '+', '-', '*', '-', '*']), ch, ch).map(list),
            st.tuples(st.sampled_from(['-', '+', '-', '*', '-', '*']), ch, ch).map(list))
    expr = st.recursive(leaf, eext, max_leaves=5)
    small_expr = st.recursive(leaf, eext, max_leaves=3)
    atom = st.one_of(st.tuples(st.sampled_from(['==', '!=', '<=', '<']), small_expr, small_expr).map(list),
                     st.tuples(st.sampled_from(['==', '!=', '<=', '<']), expr, small_expr).map(list),
                     st.tuples(st.sampled_from(['==', '<=', '<']), expr, st.just(['n', 0])).map(list))

    def cext(ch):
        return st.one_of(
            st.tuples(st.just('~'), ch).map(list),
            st.tuples(st.sampled_from(['&', '|', '-->']), ch, ch).map(list),
            st.tuples(st.sampled_from(['&', '|', '-->']), ch, ch).map(list),
            st.tuples(st.just('ite'), ch, ch, ch).map(list))
    cond_t = st.recursive(st.one_of(atom, st.just(['true']), atom), cext, max_leaves=4)
    cond_f = st.recursive(atom, cext, max_leaves=4)
    # `true` inside a condition makes convert_hol fail on the pinned tree (rejected): keep it rare
    cond = cond_f
    guard = st.recursive(atom, cext, max_leaves=2)
    sseed = st.integers(0, 2 ** 31)

    asg = st.tuples(st.just('asg'), st.sampled_from(VARS), st.one_of(small_expr, expr)).map(list)

    def kext(ch):
        return st.one_of(st.tuples(st.just('seq'), ch, ch).map(list), st.tuples(st.just('seq'), ch, ch).map(list),
                         st.tuples(st.just('if'), guard, ch, ch).map(list))
    lf = st.recursive(st.one_of(asg, asg, asg, st.just(['skip']), asg, asg, asg), kext, max_leaves=6).filter(
        lambda k: L.com_depth(k) <= 4)
    small_lf = st.recursive(st.one_of(asg, asg, st.just(['skip']), asg, asg), kext, max_leaves=3)

    if kind == 'cond':
        big = st.recursive(atom, cext, max_leaves=6)
        return st.builds(lambda c, s: {'kind': 'cond', 'c': c, 'sseed': s}, big, sseed)

    if kind == 'lf':
        return st.builds(lambda k, p, q, s: {'kind': 'vc', 'com': k, 'pre': p, 'post': q, 'sseed': s},
                         lf, st.one_of(st.just(['true']), cond), st.one_of(*([cond] * 10 + [cond_t] + [cond] * 10)),
                         sseed)

    if kind == 'tpl':
        @st.composite
        def tpl(draw):
            name = draw(st.sampled_from([t[0] for t in TEMPLATES]))
            pre, com, post = template(name)
            perm = draw(st.permutations(VARS))
            m = dict(zip(VARS, perm))
            pre, com, post = rename(pre, m), rename(com, m), rename(post, m)
            mode = draw(st.sampled_from(['none', 'none', 'none', 'tweak', 'tweak', 'tweak', 'tweak', 'post', 'inv',
                                         'wrap']))
            if mode == 'tweak':
                whole = ['x', pre, com, post]
                sites = tweak_sites(whole)
                whole = tweak_at(whole, sites[draw(st.integers(0, len(sites) - 1))])
                pre, com, post = whole[1], whole[2], whole[3]
            elif mode == 'post':
                post = draw(cond)
            elif mode == 'inv':
                loops = [p for p in _while_paths(com)]
                if loops:
                    p = loops[draw(st.integers(0, len(loops) - 1))]
                    com = _replace(com, p + (2,), draw(cond))
            elif mode == 'wrap':
                pos = draw(st.sampled_from(['before', 'after', 'if']))
                extra = draw(small_lf)
                if pos == 'before':
                    com = ['seq', extra, com]
                elif pos == 'after':
                    com = ['seq', com, extra]
                elif L.com_depth(com) < 4:
                    com = ['if', draw(guard), com, extra]
            return {'kind': 'vc', 'com': com, 'pre': pre, 'post': post, 'sseed': draw(sseed)}
        return tpl()

    if kind == 'rl':
        @st.composite
        def rloop(draw, depth=0):
            v = draw(st.sampled_from(VARS))
            bound = draw(st.one_of(st.sampled_from([x for x in VARS if x != v]).map(lambda x: ['v', x]),
                                   st.integers(0, 4).map(lambda k: ['n', k])))
            g = [draw(st.sampled_from(['<', '<', '!='])), ['v', v], bound]
            body = draw(small_lf)
            if depth == 0 and draw(st.integers(0, 5)) == 0:
                body = ['seq', body, draw(rloop(depth=1))]
            body = ['seq', body, ['asg', v, ['+', ['v', v], ['n', 1]]]]
            inv = draw(st.one_of(cond, st.just(['<=', ['v', v], bound]),
                                 st.just(['|', ['<=', ['v', v], bound], ['<', bound, ['v', v]]])))
            return ['while', g, inv, body]

        @st.composite
        def stale(draw):
            """Invariant true at loop entry but not inductive; postcondition follows from invariant & ~guard (or is
            drawn).  A generator that does not demand preservation of the invariant accepts these."""
            v = draw(st.sampled_from(VARS))
            others = [x for x in VARS if x != v]
            e0 = draw(st.one_of(st.integers(0, 2).map(lambda k: ['n', k]), st.sampled_from(others).map(lambda x: ['v', x])))
            bound = draw(st.one_of(st.sampled_from(others).map(lambda x: ['v', x]), st.integers(2, 5).map(lambda k: ['n', k])))
            inv = [draw(st.sampled_from(['==', '<=', '=='])), ['v', v], e0]
            g = ['<', ['v', v], bound]
            body = ['asg', v, ['+', ['v', v], ['n', 1]]]
            if draw(st.booleans()):
                w = draw(st.sampled_from(others))
                body = ['seq', ['asg', w, draw(small_expr)], body] if ['v', w] not in (e0, bound) else body
            d = draw(st.integers(0, 2))
            post = draw(st.one_of(st.just(inv), st.just(['<=', ['v', v], ['+', e0, ['n', d]]]),
                                  st.just(['&', inv, ['~', g]]), st.just(['|', ['<=', ['v', v], ['+', e0, ['n', d]]], g])))
            k = ['seq', ['asg', v, e0], ['while', g, inv, body]]
            return {'kind': 'vc', 'com': k, 'pre': draw(st.one_of(st.just(['true']), st.just(['<=', e0, bound]))),
                    'post': post, 'sseed': draw(sseed)}

        @st.composite
        def rl(draw):
            if draw(st.integers(0, 4)) == 2:
                return draw(stale())
            k = draw(rloop())
            if draw(st.booleans()):
                k = ['seq', draw(small_lf), k]
            if draw(st.booleans()):
                k = ['seq', k, draw(small_lf)]
            if L.com_depth(k) > 4:
                k = ['skip']
            return {'kind': 'vc', 'com': k, 'pre': draw(st.one_of(st.just(['true']), cond)), 'post': draw(cond),
                    'sseed': draw(sseed)}
        return rl()

    if kind == 'prog':
        def pkext(ch):
            loop = st.builds(
                lambda v, bnd, inv, body: ['while', ['<', ['v', v], bnd], inv,
                                           ['seq', body, ['asg', v, ['+', ['v', v], ['n', 1]]]]],
                st.sampled_from(VARS), st.one_of(num, var), st.one_of(st.just(['true']), guard, guard), ch)
            return st.one_of(st.tuples(st.just('seq'), ch, ch).map(list), st.tuples(st.just('seq'), ch, ch).map(list),
                             st.tuples(st.just('if'), guard, ch, ch).map(list),
                             st.tuples(st.just('if'), guard, ch, ch).map(list), loop)
        pcom = st.recursive(st.one_of(asg, asg, st.just(['skip']), asg), pkext, max_leaves=6).filter(
            lambda k: L.com_depth(k) <= 4)
        return st.builds(lambda k, s, via, bare: {'kind': 'prog', 'com': k, 'sseed': s, 'via': via,
                                                  'bare': bare and via == 'text'},
                         pcom, sseed, st.sampled_from(['text', 'text', 'ctor']),
                         st.integers(0, 5).map(lambda x: x == 0))

    # ---- nat level
    slot = st.integers(0, NSLOTS - 1)
    nleaf = st.one_of(slot.map(lambda i: ['v', i]), slot.map(lambda i: ['v', i]), st.integers(0, 3).map(lambda k: ['n', k]))

    def next_(ch):
        return st.tuples(st.sampled_from(['+', '+', '*']), ch, ch).map(list)
    nexpr = st.recursive(nleaf, next_, max_leaves=3)
    neq = st.tuples(st.sampled_from(['==', '!=']), nexpr, nexpr).map(list)
    nord = st.tuples(st.sampled_from(['<=', '<']), nexpr, nexpr).map(list)

    def ncext(ch):
        return st.tuples(st.sampled_from(['&', '|']), ch, ch).map(list)
    nasg = st.tuples(st.just('asg'), slot, nexpr).map(list)

    def nkext_with(g):
        def nkext(ch):
            return st.one_of(st.tuples(st.just('seq'), ch, ch).map(list), st.tuples(st.just('seq'), ch, ch).map(list),
                             st.tuples(st.just('if'), g, ch, ch).map(list))
        return nkext

    if kind == 'sem':
        # eval_Sem only decides guards built from == / != (compound and ordered guards end in ConvException)
        g = st.one_of(*([neq] * 6 + [nord, st.just(['true']), st.tuples(st.sampled_from(['&', '|']), neq, neq).map(list)]
                        + [neq] * 6))
        nlf = st.recursive(st.one_of(nasg, nasg, st.just(['skip']), nasg, nasg), nkext_with(g), max_leaves=4)

        @st.composite
        def bounded_loop(draw, depth=0):
            v = draw(slot)
            k = draw(st.integers(0, 4))
            body = _retarget(draw(nlf), v)     # the body does not assign the counter: the loop terminates
            if depth == 0 and draw(st.integers(0, 4)) == 0:
                w = draw(slot)
                inner = ['seq', ['asg', w, ['n', 0]], draw(bounded_loop(depth=1))]
                body = ['seq', body, inner]
            body = ['seq', body, ['asg', v, ['+', ['v', v], ['n', 1]]]]
            loop = ['while', ['!=', ['v', v], ['n', k]], ['true'], body]
            if draw(st.integers(0, 7)) != 3:
                loop = ['seq', ['asg', v, ['n', draw(st.integers(0, k))]], loop]
            return loop

        @st.composite
        def sem(draw):
            shape = draw(st.sampled_from(['lf', 'lf', 'loop', 'loop', 'loop']))
            if shape == 'lf':
                k = draw(nlf)
            else:
                k = draw(bounded_loop())
                if draw(st.booleans()):
                    k = ['seq', draw(nlf), k]
                if draw(st.booleans()):
                    k = ['seq', k, draw(nlf)]
            init = draw(st.lists(st.integers(0, 3), min_size=NSLOTS, max_size=NSLOTS))
            return {'kind': 'sem', 'com': k, 'init': init}
        return sem()

    if kind == 'ptext':
        # text for imperative/parser.py: sums and products, conjunctions and disjunctions in every order, without
        # brackets (that grammar has none); commands in which no conditional is followed by `;`
        tleaf = st.one_of(nleaf, nleaf, nleaf, st.sampled_from(PARAMS).map(lambda p: ['v', p]))
        texpr = st.recursive(tleaf, next_, max_leaves=4)
        tatom = st.tuples(st.sampled_from(['==', '!=', '<=', '<']), st.one_of(tleaf, texpr), st.one_of(tleaf, texpr)).map(list)
        tcond = st.recursive(st.one_of(*([tatom] * 7 + [st.just(['true'])])), ncext, max_leaves=4)
        tasg = st.tuples(st.just('asg'), slot, texpr).map(list)
        simple = st.one_of(tasg, tasg, tasg, st.just(['skip']))

        @st.composite
        def tloop(draw, depth):
            v = draw(slot)
            k = draw(st.integers(0, 3))
            body = _retarget(draw(tblock(depth + 1, False)), v)
            body = ['seq', body, ['asg', v, ['+', ['v', v], ['n', 1]]]]
            g = draw(st.sampled_from([['!=', ['v', v], ['n', k]], ['<', ['v', v], ['n', k]],
                                      ['&', ['<', ['v', v], ['n', k]], draw(tatom)],
                                      ['|', ['<', ['v', v], ['n', k]], ['&', ['<', ['v', v], ['n', k + 1]], draw(tatom)]]]))
            inv = draw(st.one_of(st.just(['true']), st.just(['true']), tcond))
            loop = ['while', g, inv, body]
            return loop

        @st.composite
        def tif(draw, depth):
            def branch():
                opts = [simple, simple]
                if depth < 2:
                    opts += [tif(depth + 1), tloop(depth + 1)]
                return draw(st.one_of(*opts))
            return ['if', draw(tcond), branch(), branch()]

        @st.composite
        def tblock(draw, depth, cond_last=True):
            n = draw(st.integers(1, 3))
            items = []
            for i in range(n):
                opts = [simple, simple, simple]
                if depth < 2:
                    opts.append(tloop(depth))
                    if i == n - 1 and cond_last:
                        opts += [tif(depth), tif(depth)]
                items.append(draw(st.one_of(*opts)))
            k = items[-1]
            for x in reversed(items[:-1]):
                k = ['seq', x, k]
            return k

        @st.composite
        def pt(draw):
            case = {'kind': 'ptext', 'com': draw(tblock(0)), 'sseed': draw(sseed),
                    'bare': draw(st.booleans()), 'brackets': draw(st.integers(0, 7)) == 0}
            if draw(st.booleans()):
                case['pre'] = draw(tcond)
                case['post'] = draw(tcond)
            return case
        return pt()

    if kind == 'hvcg':
        pleaf = st.one_of(nleaf, nleaf, st.sampled_from(PARAMS).map(lambda p: ['v', p]))
        pexpr = st.recursive(pleaf, next_, max_leaves=3)
        patom = st.tuples(st.sampled_from(['==', '!=', '<=', '<']), pexpr, pexpr).map(list)
        pcond = st.recursive(st.one_of(patom, patom, st.just(['true']), patom, patom), ncext, max_leaves=3)
        pasg = st.tuples(st.just('asg'), slot, pexpr).map(list)
        plf = st.recursive(st.one_of(pasg, pasg, st.just(['skip']), pasg, pasg), nkext_with(pcond), max_leaves=4)

        @st.composite
        def hv(draw):
            shape = draw(st.sampled_from(['tpl', 'tpl', 'tpl', 'lf', 'rl']))
            if shape == 'tpl':
                name = draw(st.sampled_from([t[0] for t in NAT_TEMPLATES]))
                pre, com, post = template(name, nat=True)
                perm = draw(st.permutations(list(range(NSLOTS))))
                m = dict(zip('abcdef', perm))
                pre, com, post = rename(pre, m), rename(com, m), rename(post, m)
                mode = draw(st.sampled_from(['none', 'none', 'tweak', 'tweak', 'tweak', 'post', 'inv']))
                if mode == 'tweak':
                    whole = ['x', pre, com, post]
                    sites = [p for p in tweak_sites(whole) if _node(whole, p)[0] != '-' and _node(whole, p)[0] != '+']
                    whole = tweak_at(whole, sites[draw(st.integers(0, len(sites) - 1))])
                    pre, com, post = whole[1], whole[2], whole[3]
                elif mode == 'post':
                    post = draw(pcond)
                elif mode == 'inv':
                    loops = list(_while_paths(com))
                    if loops:
                        p = loops[draw(st.integers(0, len(loops) - 1))]
                        com = _replace(com, p + (2,), draw(pcond))
            elif shape == 'lf':
                pre, com, post = draw(pcond), draw(plf), draw(pcond)
            else:
                v = draw(slot)
                bound = draw(st.one_of(slot.filter(lambda x: x != v).map(lambda x: ['v', x]),
                                       st.sampled_from(PARAMS).map(lambda p: ['v', p]),
                                       st.integers(0, 4).map(lambda k: ['n', k])))
                g = [draw(st.sampled_from(['<', '!='])), ['v', v], bound]
                body = ['seq', draw(plf), ['asg', v, ['+', ['v', v], ['n', 1]]]]
                inv = draw(st.one_of(pcond, st.just(['<=', ['v', v], bound]), st.just(['true'])))
                com = ['while', g, inv, body]
                if draw(st.booleans()):
                    com = ['seq', draw(plf), com]
                pre, post = draw(pcond), draw(pcond)
            return {'kind': 'hvcg', 'com': com, 'pre': pre, 'post': post, 'sseed': draw(sseed)}
        return hv()
    raise ValueError(kind)


def _retarget(k, v):
    """Assignments to slot v go to the next slot instead."""
    if k[0] == 'asg':
        return ['asg', (k[1] + 1) % NSLOTS if k[1] == v else k[1], k[2]]
    if k[0] == 'seq':
        return ['seq', _retarget(k[1], v), _retarget(k[2], v)]
    if k[0] == 'if':
        return ['if', k[1], _retarget(k[2], v), _retarget(k[3], v)]
    if k[0] == 'while':
        return ['while', k[1], k[2], _retarget(k[3], v)]
    return k


def _node(t, path):
    for p in path:
        t = t[p]
    return t


def _while_paths(k, path=()):
    if k[0] == 'while':
        yield path
        yield from _while_paths(k[3], path + (3,))
    elif k[0] == 'seq':
        yield from _while_paths(k[1], path + (1,))
        yield from _while_paths(k[2], path + (2,))
    elif k[0] == 'if':
        yield from _while_paths(k[2], path + (2,))
        yield from _while_paths(k[3], path + (3,))


def _replace(t, path, new):
    if not path:
        return new
    t = list(t)
    t[path[0]] = _replace(t[path[0]], path[1:], new)
    return t


# ---------------------------------------------------------------- exploration
COUNTS = {
    'quick': {'lf': 1200, 'tpl': 1400, 'rl': 600, 'cond': 2400, 'sem': 160, 'hvcg': 240, 'prog': 480, 'ptext': 800},
    'thorough': {'lf': 40000, 'tpl': 40000, 'rl': 20000, 'cond': 60000, 'sem': 5000, 'hvcg': 5000, 'prog': 20000,
                 'ptext': 40000},
}


def shards(tier):
    out = []
    per = 8 if tier == 'quick' else 32
    for kind in ('sem', 'hvcg', 'tpl', 'rl', 'lf', 'cond', 'prog', 'ptext'):
        for i, n in enumerate(harness.split(COUNTS[tier][kind], per)):
            out.append({'kind': kind, 'n': n, 'i': i})
    return out


def run_shard(desc, seed, tier, H):
    def body(case):
        run_case(case, H)
    with_roomy_stack(lambda: harness.hyp_run(strategies(desc['kind']), body, desc['n'], seed))


# ---------------------------------------------------------------- self-test of the oracles
def selftest():
    def need(cond, what):
        if not cond:
            raise SelfTestError(what)
    K = R['kterm']
    from kernel.type import IntType
    # reader / printer
    for s, want in [('a - b - c == 0', ['==', ['-', ['-', ['v', 'a'], ['v', 'b']], ['v', 'c']], ['n', 0]]),
                    ('-a + b * c < 1', ['<', ['+', ['neg', ['v', 'a']], ['*', ['v', 'b'], ['v', 'c']]], ['n', 1]]),
                    ('~a == 0 & b == 0 | c == 0 --> true',
                     ['-->', ['|', ['&', ['~', ['==', ['v', 'a'], ['n', 0]]], ['==', ['v', 'b'], ['n', 0]]],
                              ['==', ['v', 'c'], ['n', 0]]], ['true']])]:
        need(L.std_read(s) == want, 'reference reader wrong on %r' % s)
        need(L.std_read(L.std_str(want)) == want, 'reference printer/reader round trip on %r' % s)
    t1 = ['==', ['-', ['v', 'a'], ['-', ['v', 'b'], ['v', 'c']]], ['n', 0]]
    need(L.std_str(t1) == 'a - (b - c) == 0' and L.needs_brackets(t1), 'reference printer drops brackets')
    # every generated tree is the parse of its fully bracketed text, and the builder builds that object
    for t in [t1, ['&', ['~', ['|', ['<', ['neg', ['v', 'a']], ['n', 2]], ['true']]],
                   ['ite', ['!=', ['v', 'i'], ['n', 0]], ['<=', ['abs', ['v', 's']], ['max', ['v', 'a'], ['n', 1]]],
                    ['-->', ['true'], ['==', ['*', ['+', ['v', 'a'], ['n', 1]], ['v', 'b']], ['v', 'c']]]]]]:
        parsed = L.obj_to_json(R['parser2'].cond_parser.parse(full_paren(t)))
        need(parsed == t, 'fully bracketed text does not parse to the tree: %s' % full_paren(t))
        need(L.obj_to_json(build_cond(t)) == t, 'builder / object reader disagree')
    # evaluation and interpreter
    st = {'a': 5, 'b': 3, 'c': 1, 'i': 0, 'n': 4, 's': 0}
    need(L.ev_expr(t1[1], st) == 3 and L.ev_cond(t1, st) is False, 'evaluator')
    pre, com, post = template('accum')
    fin, visited, iters = L.run(com, st)
    need(fin['s'] == 20 and fin['i'] == 4 and iters == 4 and len(visited) == 11, 'reference interpreter')
    need(L.run(['while', ['true'], ['true'], ['skip']], st, 10)[0] is None, 'fuel')
    # (a): a right and a wrong weakest precondition
    k = ['asg', 'a', ['+', ['v', 'a'], ['n', 1]]]
    q = ['<=', ['v', 'a'], ['n', 3]]
    sts = L.lcg_states(1, 30, VARS, LO, HI)
    need(wp_mismatch(['<=', ['+', ['v', 'a'], ['n', 1]], ['n', 3]], k, q, sts) is None, 'wp oracle rejects a right wp')
    need(wp_mismatch(q, k, q, sts) is not None, 'wp oracle accepts a wrong wp')
    # (b): VC set without the exit condition, wrong postcondition
    pre, com, post = template('count')
    wrong_post = ['==', ['v', 'i'], ['+', ['v', 'n'], ['n', 1]]]
    res = soundness(lambda s: bool(L.ev_cond(pre, s)), lambda s: bool(L.ev_cond(wrong_post, s)),
                    [lambda s: True], com, sts)
    need(res['bad'] is not None and res['vcs_hold'], 'soundness oracle misses an unsound VC set')
    exit_vc = ['-->', ['&', ['<=', ['v', 'i'], ['v', 'n']], ['~', ['<', ['v', 'i'], ['v', 'n']]]], wrong_post]
    res = soundness(lambda s: bool(L.ev_cond(pre, s)), lambda s: bool(L.ev_cond(wrong_post, s)),
                    [lambda s: bool(L.ev_cond(exit_vc, s))], com, sts)
    need(res['bad'] is not None and not res['vcs_hold'], 'soundness oracle: failing VC not seen on the trace')
    res = soundness(lambda s: bool(L.ev_cond(pre, s)), lambda s: bool(L.ev_cond(post, s)), [lambda s: True], com, sts)
    need(res['bad'] is None and res['iterated'] and res['runs'] > 0, 'soundness oracle flags a correct triple')
    # HOL evaluator (terms built with the kernel constructors, not by the code under test)
    a, b = K.Var('a', IntType), K.Var('b', IntType)
    need(L.hol_eval(K.Int(3) - K.Int(5), {}) == -2, 'HOL evaluator: int minus')
    need(L.hol_eval(K.Nat(3) - K.Nat(5), {}) == 0, 'HOL evaluator: nat minus')
    need(L.hol_eval(K.Implies(K.less_eq(IntType)(a, b), K.Not(K.Eq(a - b, K.Int(1)))), {'a': 2, 'b': 1}) is True
         and L.hol_eval(K.And(K.less(IntType)(a, b), K.Eq(-a * b, K.Int(-6))), {'a': 2, 'b': 3}) is True,
         'HOL evaluator: connectives')
    stt = nat_state_term([0, 4, 0, 2, 0, 0])
    f = L.hol_eval(stt, {})
    need([f(i) for i in range(6)] == [0, 4, 0, 2, 0, 0] and f(33) == 0, 'HOL evaluator: fun_upd states')
    s = K.Var('s', R['natFunT'])
    allt = K.Forall(s, K.Implies(K.Eq(s(K.Nat(0)), K.Nat(1)), K.Eq(s(K.Nat(1)), K.Nat(2))))
    need(L.hol_eval(allt, {}, [L.dict_state_fun({0: 1, 1: 2}), L.dict_state_fun({0: 0})]) is True and
         L.hol_eval(allt, {}, [L.dict_state_fun({0: 1, 1: 3})]) is False, 'HOL evaluator: quantifier over states')
    # z3
    tv = K.Eq(a + a, K.Int(2) * a)
    ti = K.less_eq(IntType)(a, a * a - K.Int(1))
    need(confirm_valid([tv], ['a']) == 'valid', 'z3 validity: valid formula')
    need(confirm_valid([tv, ti], ['a']) == 'invalid', 'z3 validity: invalid formula')
    # command printer / readers
    pre, com, post = template('condbody')
    need(L.std_read_com(L.std_str_com(com)) == com, 'command printer / reader round trip')
    try:
        L.std_read_com(L.std_str_com(com), strict=True)
        need(False, 'strict reader accepts a conditional followed by ;')
    except L.Ambiguous:
        pass
    need(L.std_read_com('while (a != 3) {b := b + 5; a := a + 1}; c := 1', strict=True) ==
         ['seq', ['while', ['!=', ['v', 'a'], ['n', 3]], ['true'],
                  ['seq', ['asg', 'b', ['+', ['v', 'b'], ['n', 5]]], ['asg', 'a', ['+', ['v', 'a'], ['n', 1]]]]],
          ['asg', 'c', ['n', 1]]], 'reader: loop without invariant')
    # (e): programs that run alike / differently, structure modulo associativity of ;
    x1, x0 = ['asg', 'a', ['n', 1]], ['asg', 'a', ['n', 0]]
    g = ['==', ['v', 'a'], ['n', 1]]
    k_out, k_in = ['seq', ['if', g, ['skip'], x1], x0], ['if', g, ['skip'], ['seq', x1, x0]]
    need(runs_differ(k_out, k_in, sts) is not None and runs_differ(k_out, k_out, sts) is None, 'run comparison')
    need(flatten_seq(['seq', ['seq', x1, x0], x1]) == flatten_seq(['seq', x1, ['seq', x0, x1]]) and
         flatten_seq(k_out) != flatten_seq(k_in) and layout_matters(k_out) and not layout_matters(['seq', x1, x0]),
         'command structure')
    # (f): HOL command interpreter against the reference interpreter, right and wrong terms
    for nm in ('double', 'nested', 'ifset'):
        _, ncom, _ = template(nm, nat=True)
        ncom = rename(ncom, dict(_TO_SLOT))
        nsts = L.lcg_states(7, 24, list(range(NSLOTS)) + PARAMS, 0, 2)
        need(hol_com_mismatch(nat_com_term(ncom), ncom, nsts) is None, 'HOL command interpreter differs on ' + nm)
    t_text = L.std_read_com('a := a * b + c')
    need(t_text == ['asg', 'a', ['+', ['*', ['v', 'a'], ['v', 'b']], ['v', 'c']]], 'reading of a * b + c')
    t_good = rename(t_text, _TO_SLOT)
    t_bad = ['asg', 0, ['*', ['v', 0], ['+', ['v', 1], ['v', 2]]]]
    need(hol_com_mismatch(nat_com_term(t_good), t_good, nsts) is None and
         hol_com_mismatch(nat_com_term(t_bad), t_good, nsts) is not None, 'text oracle: wrong grouping not seen')
    c_text = L.std_read('a == 0 & b == 0 | c == 0')
    need(c_text[0] == '|' and c_text[1][0] == '&' and mixes_operators(c_text) and
         not mixes_operators(L.std_read('a == 0 & b + 1 == 0 & c == 0')), 'reading of & and |')
    sv = K.Var('s', R['natFunT'])
    c_good = rename(c_text, _TO_SLOT)
    c_bad = ['&', c_good[1][1], ['|', c_good[1][2], c_good[2]]]
    need(hol_cond_mismatch(nat_cond_term(c_good, sv), c_good, nsts, False) is None and
         hol_cond_mismatch(nat_cond_term(c_bad, sv), c_good, nsts, False) is not None and
         hol_cond_mismatch(K.Lambda(sv, nat_cond_term(c_bad, sv)), c_good, nsts, True) is not None,
         'text oracle: wrong grouping of a condition not seen')
    # (c): known-bad shown string
    H = harness.Ctx(ID)
    check_shown({}, 'vc', t1, 'a - b - c == 0', None, sts, H)
    need(any(sg.startswith('display:shown-differs-from-computed:brackets') for sg in H.violations),
         'shown-condition oracle misses a dropped bracket')
    H = harness.Ctx(ID)
    check_shown({}, 'vc', t1, 'a - (b - c) == 0', None, sts, H)
    need(not any(sg.startswith('display:') for sg in H.violations), 'shown-condition oracle flags a correct string')
