"""C08 — type inference returns only well-typed, fully determined terms.

Case (JSON): {"theory": name, "skel": TERM-with-null-types, "ctx": {var name: type}, "orig": TERM | null,
              "kept": {"consts": bool, "binders": bool}}
A skeleton is a codec term in which any type slot of v / sv / c / abs may be null (exactly what the parser builds).
"""
import json

from vlib import harness, codec, ref, gen, libsig
from vlib.harness import CaseInvalid, SelfTestError, time_limit, Timeout
from vlib.codec import BOOL, fun

ID = 'C08'
RULE = ("Skeletons = erasures of generated well-typed terms over the signatures of library theories (list: "
        "nat/set/function/list constants, real: overloaded arithmetic at nat/int/rat/real) under a drawn mask: each "
        "variable occurrence keeps its annotation or loses it (its type then comes from a declared context, or is left "
        "undeclared), each constant type and binder type is erased or kept; plus ill-typed skeletons (self-application "
        "x x, one variable used at two types, swapped arguments, wrong arity). Built with None type fields exactly as the "
        "parser builds them. Oracle (validity predicate + inverse): a returned term must type-check in the reference "
        "calculus, have the skeleton's shape, keep every given annotation and declared variable type, give each variable "
        "name one type, use each constant at an instance of its declared type, contain no internal ?'_tN; for an erasure "
        "of t0 with declared variables the result must be t0 (always, if constant and binder types were kept) unless "
        "TypeInferenceException('Unspecified type') is raised; a failure must be TypeInferenceException or "
        "TheoryException. Non-trivial: >= 1 erased binder or constant type and >= 1 polymorphic/overloaded constant or "
        "higher-order variable; distinct by canonical JSON.")
ASSUMPTIONS = [
    "each variable name is used at one type per term (the context maps names to types)",
    "constants are used at declared instances; overloaded constants only at declared instances",
]
SHRINK_BUDGET = 500

_T = {}
THEORIES = ['list', 'real']


def setup():
    from syntax import infertype  # noqa
    for nm in THEORIES:
        _T[nm] = libsig.sig_for(nm)
    # self-test of the shape comparison
    if not same_shape(["v", "x", None], ["v", "x", BOOL]) or same_shape(["v", "x", None], ["v", "y", BOOL]):
        raise SelfTestError('same_shape')


# ------------------------------------------------------------------ skeleton decoding
def skel_dec(j):
    from kernel.term import Var, SVar, Const, Comb, Abs, Bound
    try:
        tag = j[0]
        if tag in ('v', 'sv', 'c'):
            T = codec.type_dec(j[2]) if j[2] is not None else None
            assert isinstance(j[1], str)
            return {'v': Var, 'sv': SVar, 'c': Const}[tag](j[1], T)
        if tag == 'app' and len(j) == 3:
            return Comb(skel_dec(j[1]), skel_dec(j[2]))
        if tag == 'abs' and len(j) == 4:
            T = codec.type_dec(j[2]) if j[2] is not None else None
            return Abs(str(j[1]), T, skel_dec(j[3]))
        if tag == 'b':
            assert isinstance(j[1], int) and j[1] >= 0
            return Bound(j[1])
    except CaseInvalid:
        raise
    except Exception:
        pass
    raise CaseInvalid('skeleton %r' % (j,))


def same_shape(skel, res):
    """res (JSON term) has the shape of skel and agrees with every annotation skel carries."""
    if skel[0] != res[0]:
        return False
    tag = skel[0]
    if tag in ('v', 'sv', 'c'):
        return skel[1] == res[1] and (skel[2] is None or skel[2] == res[2])
    if tag == 'b':
        return skel[1] == res[1]
    if tag == 'app':
        return same_shape(skel[1], res[1]) and same_shape(skel[2], res[2])
    if tag == 'abs':
        return (skel[2] is None or skel[2] == res[2]) and same_shape(skel[3], res[3])
    return False


def has_internal(T):
    if T[0] == 'stv':
        return T[1].startswith('_t')
    if T[0] == 'tv':
        return False
    return any(has_internal(a) for a in T[2:])


def walk(j, fn, bound=()):
    fn(j, bound)
    if j[0] == 'app':
        walk(j[1], fn, bound)
        walk(j[2], fn, bound)
    elif j[0] == 'abs':
        walk(j[3], fn, (j[2],) + tuple(bound))


def run_case(case, H):
    from kernel import theory
    from kernel.theory import TheoryException
    from logic import context
    from syntax import infertype
    if not isinstance(case, dict) or case.get('theory') not in _T:
        raise CaseInvalid('case')
    sig = _T[case['theory']]
    theory.thy = sig['theory']
    skel_j = case['skel']
    ctx = case.get('ctx') or {}
    orig = case.get('orig')
    skel = skel_dec(skel_j)
    stats = {'erased_c': 0, 'erased_b': 0, 'poly': 0, 'ho': 0}

    def count(j, bound):
        if j[0] == 'c':
            if j[2] is None:
                stats['erased_c'] += 1
            gT = sig['general'].get(j[1])
            if gT is not None and codec.jt_vars(gT):
                stats['poly'] += 1
        elif j[0] == 'abs' and j[2] is None:
            stats['erased_b'] += 1
        elif j[0] == 'app' and j[1][0] in ('v', 'sv'):
            stats['ho'] += 1
    walk(skel_j, count)
    nontrivial = (stats['erased_c'] + stats['erased_b'] >= 1) and (stats['poly'] + stats['ho'] >= 1)
    klass = ['theory:' + case['theory'], 'kind:' + ('erasure' if orig is not None else 'ill-typed')]
    try:
        ctx_types = {str(k): codec.type_dec(v) for k, v in ctx.items()}
    except CaseInvalid:
        raise
    outcome = None
    with context.fresh_context(vars=ctx_types):
        try:
            with time_limit(20):
                try:
                    res = infertype.type_infer(skel)
                    outcome = 'returned'
                except infertype.TypeInferenceException as e:
                    outcome = 'own-error'
                    err = e.err
                except TheoryException as e:
                    outcome = 'own-error'
                    err = 'TheoryException'
                except Timeout:
                    raise
                except RecursionError:
                    if len(harness.canon(skel_j)) > 1500:
                        H.inconc('recursion-on-large-skeleton')
                        return
                    outcome = 'foreign'
                    err = 'RecursionError: unbounded recursion on a small skeleton'
                except Exception as e:
                    outcome = 'foreign'
                    err = '%s: %s' % (type(e).__name__, e)
        except Timeout:
            H.inconc('timeout')
            return
    if outcome == 'foreign':
        H.violation('type_infer:foreign-exception:%s' % err.split(':')[0], case, err)
        H.case(case, nontrivial, klass + ['outcome:foreign-exception'])
        return
    if outcome == 'own-error':
        unspecified = err.startswith('Unspecified type')
        if orig is not None and case.get('kept', {}).get('consts') and case.get('kept', {}).get('binders') \
                and case.get('declared_all'):
            H.violation('type_infer:fails-although-determined', case,
                        'constant and binder types were kept and every variable is declared or annotated, but: %s' % err[:300])
        elif orig is not None and case.get('declared_all') and not unspecified:
            H.violation('type_infer:rejects-erasure-of-well-typed-term', case, err[:400])
        H.case(case, nontrivial, klass + ['outcome:' + ('unspecified' if unspecified else 'error')])
        return
    # ---- a term was returned
    try:
        res_j = codec.term_enc(res)
    except Exception as e:
        H.violation('type_infer:result-has-missing-types', case, repr(e))
        H.case(case, nontrivial, klass + ['outcome:returned'])
        return
    problems = []
    r = ref.from_jterm(res_j)
    if not ref.well_typed(r):
        problems.append(('result-ill-typed', 'result does not type-check'))
    if not same_shape(skel_j, res_j):
        problems.append(('shape-or-annotation-changed', 'result differs in shape or in a given annotation'))
    var_types = {}

    def visit(j, bound):
        if j[0] in ('v', 'sv'):
            key = (j[0], j[1])
            T = json.dumps(j[2])
            if var_types.setdefault(key, T) != T:
                problems.append(('annotation-contradicts-declared-type' if (j[0] == 'v' and j[1] in ctx) else 'variable-at-two-types',
                                 '%s used at %s and %s' % (j[1], var_types[key], T)))
            if j[0] == 'v' and j[1] in ctx:
                pass
        if j[0] in ('v', 'sv', 'c') and has_internal(j[2]):
            problems.append(('internal-type-variable-left', '%s :: %s' % (j[1], codec.jt_str(j[2]))))
        if j[0] == 'abs' and has_internal(j[2]):
            problems.append(('internal-type-variable-left', 'binder %s' % j[1]))
        if j[0] == 'c':
            gT = sig['general'].get(j[1])
            if gT is None:
                gT = next((T for n, T in sig['consts'] if n == j[1]), None)
            if gT is not None and not codec.jt_match(gT, j[2], {}):
                problems.append(('constant-not-at-instance', '%s :: %s is not an instance of %s' % (j[1], codec.jt_str(j[2]), codec.jt_str(gT))))
    walk(res_j, visit)

    # declared variable types: a variable whose annotation was erased must get the declared type
    def declared(sk, rs):
        if sk[0] == 'v' and sk[2] is None and sk[1] in ctx and rs[2] != ctx[sk[1]]:
            problems.append(('declared-variable-type-changed', '%s declared %s, inferred %s' % (sk[1], codec.jt_str(ctx[sk[1]]), codec.jt_str(rs[2]))))
        elif sk[0] == 'app' and rs[0] == 'app':
            declared(sk[1], rs[1])
            declared(sk[2], rs[2])
        elif sk[0] == 'abs' and rs[0] == 'abs':
            declared(sk[3], rs[3])
    if same_shape(skel_j, res_j):
        declared(skel_j, res_j)
    if orig is not None and case.get('declared_all') and not problems:
        if ref.canon(r) != ref.canon(ref.from_jterm(orig)) or res_j != orig and not _same_mod_names(res_j, orig):
            problems.append(('erasure-not-recovered', 'original %s, inferred %s' % (codec.jterm_str(orig), codec.jterm_str(res_j))))
    if orig is None and not problems:
        # an ill-typed skeleton was accepted: the result type-checks, so the "ill-typedness" was only apparent
        klass.append('ill-typed:accepted-welltyped')
    for kind, detail in problems[:1]:
        H.violation('type_infer:%s' % kind, case, detail)
    H.case(case, nontrivial, klass + ['outcome:returned'])


def _same_mod_names(a, b):
    return ref.canon(ref.from_jterm(a)) == ref.canon(ref.from_jterm(b))


# ------------------------------------------------------------------ generation
NAMES = ['x', 'y', 'z', 'f', 'g', 'p', 'q', 'n', 'm', 'xs']


def erase(draw, st, t, mask):
    """mask: dict with probabilities (ints 0..4) for erasing var / const / binder annotations."""
    tag = t[0]
    if tag == 'v':
        return ['v', t[1], None if draw(st.integers(0, 3)) < mask['v'] else t[2]]
    if tag == 'c':
        return ['c', t[1], None if draw(st.integers(0, 3)) < mask['c'] else t[2]]
    if tag == 'app':
        return ['app', erase(draw, st, t[1], mask), erase(draw, st, t[2], mask)]
    if tag == 'abs':
        return ['abs', t[1], None if draw(st.integers(0, 3)) < mask['b'] else t[2], erase(draw, st, t[3], mask)]
    return t


def case_strategy(theory_name):
    from hypothesis import strategies as st
    sig = _T[theory_name]
    NAT = ["tc", "nat"]
    if theory_name == 'list':
        atoms = [BOOL, NAT, gen.A, ["tc", "list", gen.A], ["tc", "set", NAT], ["tc", "list", NAT]]
        keep = None
    else:
        atoms = [BOOL, NAT, ["tc", "int"], ["tc", "real"]]
        keep = {'plus', 'minus', 'times', 'uminus', 'zero', 'one', 'of_nat', 'of_int', 'less', 'less_eq', 'power',
                'real_divide', 'abs', 'max', 'min', 'equals', 'implies', 'all', 'conj', 'disj', 'neg', 'exists', 'IF',
                'Suc', 'sqrt', 'greater', 'greater_eq', 'true', 'false'}
    consts = [c for c in sig['consts'] if keep is None or c[0] in keep]
    # a manageable signature: drop constants whose types mention type constructors outside the atom set
    allowed_tc = {'bool', 'fun', 'nat', 'int', 'real', 'list', 'set', 'prod'}

    def ok(T):
        return T[0] != 'tc' or (T[1] in allowed_tc and all(ok(a) for a in T[2:]))
    consts = [c for c in consts if ok(c[1])]
    # one type per name: the generator draws variable names per type
    name_for = {}

    @st.composite
    def cases(draw):
        T = draw(st.sampled_from(atoms + [BOOL, BOOL]))
        # names partitioned by type so that a name has one type in the term
        pools = {}
        avail = list(NAMES)

        class O(gen.Opts):
            pass
        opts = gen.Opts(sig=consts, svars=False, stvars=False, redex=draw(st.booleans()), atom_types=atoms, max_order=1)
        t0 = draw(gen.terms(opts, T, (), draw(st.integers(1, 4))))
        # rename variables so that each (name) has a single type
        mapping = {}
        used = {}

        def ren(j):
            if j[0] == 'v':
                key = (j[1], json.dumps(j[2]))
                if key not in mapping:
                    base = j[1]
                    cand = base
                    k = 0
                    while cand in used and used[cand] != key[1]:
                        k += 1
                        cand = '%s%d' % (base, k)
                    used[cand] = key[1]
                    mapping[key] = cand
                return ['v', mapping[key], j[2]]
            if j[0] == 'app':
                return ['app', ren(j[1]), ren(j[2])]
            if j[0] == 'abs':
                return ['abs', j[1], j[2], ren(j[3])]
            return j
        t0 = ren(t0)
        kind = draw(st.sampled_from(['erase', 'erase', 'erase', 'erase-vars-only', 'ill']))
        ctx = {nm: json.loads(Ts) for nm, Ts in used.items()}
        # variables must not be named like constants of the theory (the parser would read them as constants)
        if any(sig['theory'].has_term_sig(nm) for nm in ctx):
            ctx = {k: v for k, v in ctx.items()}
        if kind == 'erase-vars-only':
            mask = {'v': 4, 'c': 0, 'b': 0}
        else:
            mask = {'v': draw(st.integers(0, 4)), 'c': draw(st.sampled_from([2, 4, 4])), 'b': draw(st.integers(0, 4))}
        skel = erase(draw, st, t0, mask)
        declared_all = True
        if kind == 'erase' and draw(st.integers(0, 3)) == 0 and ctx:
            # leave some variables undeclared
            drop = draw(st.lists(st.sampled_from(sorted(ctx)), min_size=1, max_size=2, unique=True))
            ctx = {k: v for k, v in ctx.items() if k not in drop}
            declared_all = False
        orig = t0
        if kind == 'ill':
            from props.c03_terms import _paths, _replace
            nodes = [(p, n) for p, n in _paths(skel) if n[0] == 'app']
            how = draw(st.sampled_from(['selfapp', 'swap', 'arity', 'twotypes', 'cycle', 'cycle', 'annotated-twotypes', 'annotated-twotypes']))
            if how == 'selfapp' or not nodes:
                v = ['v', 'x', None]
                skel = ['app', ['app', ['c', 'equals', None], ['app', v, v]], ['v', 'y', None]]
                ctx = {}
            elif how == 'cycle':
                # occurs-check cycles that close through several undeclared variables: x y, y z, z x ...
                k = draw(st.integers(2, 4))
                names = ['x', 'y', 'z', 'w'][:k]
                order = draw(st.permutations(list(range(k))))
                apps = [['app', ['v', names[i], None], ['v', names[(i + 1) % k], None]] for i in order]
                tail = draw(st.sampled_from(['plain', 'cons', 'eq']))
                if tail == 'cons' and theory_name == 'list':
                    apps = [['app', ['app', ['c', 'equals', None], ['v', 'x', None]],
                             ['app', ['app', ['c', 'cons', None], ['v', 'x', None]], ['c', 'nil', None]]]]
                skel = apps[0]
                for a in apps[1:]:
                    skel = ['app', ['app', ['c', 'conj', None], skel], a]
                ctx = {}
            elif how == 'annotated-twotypes':
                # one occurrence of an UNDECLARED variable carries an annotation, another occurrence is forced to a
                # different type by its context
                T1 = draw(st.sampled_from([["tc", "nat"], BOOL]))
                v_ann = ['v', 'w', T1]
                v_bare = ['v', 'w', None]
                if T1 == BOOL:
                    a = ['app', ['app', ['c', 'equals', None], ['app', ['c', 'Suc', None], v_bare]], ['c', 'zero', None]]
                    skel = ['app', ['app', ['c', 'conj', None], v_ann], a]
                else:
                    a = ['app', ['app', ['c', 'equals', None], v_ann], ['c', 'zero', None]]
                    skel = ['app', ['app', ['c', 'conj', None], a], v_bare]
                if draw(st.booleans()):
                    skel = ['app', ['app', ['c', 'conj', None], skel[2]], skel[1][2]]
                ctx = {} if draw(st.booleans()) else {'w': draw(st.sampled_from([["tc", "nat"], BOOL]))}
            elif how == 'swap':
                p, n = draw(st.sampled_from(nodes))
                skel = _replace(skel, p, ['app', n[2], n[1]])
            elif how == 'arity':
                p, n = draw(st.sampled_from(nodes))
                skel = _replace(skel, p, ['app', n, n[2]])
            else:
                p, n = draw(st.sampled_from(nodes))
                skel = ['app', ['app', ['c', 'conj', None], ['v', 'w', None]],
                        ['app', ['app', ['c', 'equals', None], ['app', ['c', 'Suc', None], ['v', 'w', None]]], ['v', 'w', None]]]
                ctx = {}
            orig = None
            declared_all = False
        return {'theory': theory_name, 'skel': skel, 'ctx': ctx, 'orig': orig,
                'kept': {'consts': mask['c'] == 0, 'binders': mask['b'] == 0}, 'declared_all': declared_all}
    return cases()


def shards(tier):
    n, k = (12000, 32) if tier == 'quick' else (500000, 96)
    return [{'n': c, 'i': i, 'theory': THEORIES[i % len(THEORIES)]} for i, c in enumerate(harness.split(n, k))]


def run_shard(desc, seed, tier, H):
    def body(case):
        try:
            run_case(case, H)
        except CaseInvalid:
            H.note('generated-invalid')
    harness.hyp_run(case_strategy(desc['theory']), body, desc['n'], seed)
