"""C15 — SAT verdicts and certificates; Tseitin encoding.

Cases (JSON):
  {"kind": "cnf", "cnf": [[[name, sign], ...], ...]}
  {"kind": "formula", "f": F}     F ::= ["atom", name] | ["not", F] | [op, F, F], op in and/or/imp/iff
"""
import itertools

from vlib import harness
from vlib.harness import time_limit, Timeout, CaseInvalid, SelfTestError

ID = 'C15'
RULE = ("CNFs as lists of clauses of (name, sign) literals. Exhaustive sub-domains: every ordered CNF whose clauses are "
        "multisets of <=3 literals over 2 variables with <=3 (quick) / <=4 (thorough) clauses, and over 3 variables with "
        "<=2 (quick) / <=3 (thorough) clauses (duplicated literals, tautological and empty clauses, empty CNF included). "
        "Random: Hypothesis CNFs up to 12 variables / 60 clauses with duplicate and tautological literals. Oracle: brute "
        "force satisfiability; a 'satisfiable' answer must come with an assignment under which every clause has a true "
        "assigned literal; an 'unsatisfiable' answer must come with chains that replay as resolution (a complementary pair "
        "at every step) and end in the empty clause. Tseitin: formulas over <=5 atoms and depth <=4; encode() must "
        "check in theory 'sat', have only the formula and definitional equations as hypotheses, and its CNF must be "
        "satisfiable iff the formula is. Non-trivial CNF: >=2 clauses, >=2 distinct variables, and unsatisfiable or "
        "falsified by at least one assignment; distinct by canonical JSON (by construction in enumerated domains). "
        "Non-trivial formula: >=2 connectives.")
ASSUMPTIONS = [
    "sat/zchaff.py needs an external binary and is not covered",
    "termination is observed under a timer: a CNF with <=4 variables that exceeds 2 s and then 10 s is reported; "
    "other timer hits are inconclusive",
    "PYTHONHASHSEED=0 pins the decision order of solve_cnf (it iterates a set of names)",
]
SHRINK_SECONDS = 40

sat = tseitin = None
_theory = {}


def setup():
    global sat, tseitin
    from prover import sat as _sat
    from prover import tseitin as _ts
    sat, tseitin = _sat, _ts
    # oracle self-test
    if brute([[('a', True)], [('a', False)]])[0] is not False:
        raise SelfTestError('brute force oracle wrong on a & ~a')
    if brute([[('a', True), ('b', False)]])[0] is not True:
        raise SelfTestError('brute force oracle wrong on a | ~b')
    ok, _ = check_unsat_trace([[('a', True)], [('a', False)]], {2: [1, 0]})
    if not ok:
        raise SelfTestError('trace checker rejects a valid trace')
    ok, _ = check_unsat_trace([[('a', True)], [('b', False)]], {2: [1, 0]})
    if ok:
        raise SelfTestError('trace checker accepts an invalid trace')


# ---------------------------------------------------------------- oracles
def cnf_vars(cnf):
    seen = []
    for cl in cnf:
        for n, _ in cl:
            if n not in seen:
                seen.append(n)
    return seen


def brute(cnf):
    """Return (satisfiable?, number of models, number of assignments)."""
    vs = cnf_vars(cnf)
    n = len(vs)
    idx = {v: i for i, v in enumerate(vs)}
    cls = [[(idx[nm], bool(s)) for nm, s in cl] for cl in cnf]
    models = 0
    for bits in range(1 << n):
        ok = True
        for cl in cls:
            for i, s in cl:
                if ((bits >> i) & 1 == 1) == s:
                    break
            else:
                ok = False
                break
        if ok:
            models += 1
    return models > 0, models, 1 << n


def check_assignment(cnf, assignment):
    """Partial assignment must satisfy every clause on assigned literals alone
    (then every completion satisfies the CNF)."""
    if not isinstance(assignment, dict):
        return False, 'assignment is not a dict'
    for v in assignment.values():
        if not isinstance(v, bool):
            return False, 'non-boolean value in assignment'
    for i, cl in enumerate(cnf):
        if not any(nm in assignment and assignment[nm] == bool(s) for nm, s in cl):
            return False, 'clause %d not satisfied' % i
    return True, ''


def check_unsat_trace(cnf, proofs):
    """Independent replay of the resolution trace returned by solve_cnf."""
    if not isinstance(proofs, dict) or not proofs:
        return False, 'no trace'
    clauses = [frozenset((nm, bool(s)) for nm, s in cl) for cl in cnf]
    n0 = len(clauses)
    ids = sorted(proofs.keys())
    if ids != list(range(n0, n0 + len(ids))):
        return False, 'learned clause ids are not consecutive from %d: %s' % (n0, ids)
    last = None
    for new_id in ids:
        chain = proofs[new_id]
        if not chain:
            return False, 'empty chain'
        for c in chain:
            if not isinstance(c, int) or c < 0 or c >= new_id:
                return False, 'chain %d names clause %r which does not exist yet' % (new_id, c)
        # the set of clauses derivable by following the chain (branch on the pivot when ambiguous)
        cur = {clauses[chain[0]]}
        for c in chain[1:]:
            other = clauses[c]
            nxt = set()
            for cl in cur:
                for (nm, s) in cl:
                    if (nm, not s) in other:
                        nxt.add((cl - {(nm, s)}) | (other - {(nm, not s)}))
            if not nxt:
                return False, 'chain %d: no complementary pair when resolving with clause %d' % (new_id, c)
            cur = nxt
            if len(cur) > 64:
                return False, 'chain too ambiguous'
        # solve_cnf's own resolution removes *all* literals on the pivot name; to index later chains we need one
        # clause: take the smallest derivable (any of them is a valid resolvent).
        best = min(cur, key=lambda s: (len(s), sorted(s)))
        clauses.append(best)
        last = cur
    if frozenset() not in last:
        return False, 'last learned clause is not empty: %s' % sorted(min(last, key=len))
    return True, ''


# ---------------------------------------------------------------- running the solver
_timeouts = [0]


def run_solver(cnf):
    """Returns ('ok', result) | ('timeout', None) | ('exception', text)."""
    tcnf = [[(nm, bool(s)) for nm, s in cl] for cl in cnf]
    for limit in (2, 10):
        try:
            with time_limit(limit):
                return 'ok', sat.solve_cnf(tcnf)
        except Timeout:
            _timeouts[0] += 1
            continue
        except Exception as e:  # the solver has no documented exceptions
            return 'exception', '%s: %s' % (type(e).__name__, e)
    return 'timeout', None


def features(cnf):
    f = []
    if any(len(cl) != len(set(map(tuple, cl))) for cl in cnf):
        f.append('dup-literal')
    if any(any((nm, not s) in [tuple(x) for x in cl] for nm, s in cl) for cl in cnf):
        f.append('tautology')
    if any(len(cl) == 0 for cl in cnf):
        f.append('empty-clause')
    if len(cnf) != len(set(tuple(sorted(map(tuple, cl))) for cl in cnf)):
        f.append('dup-clause')
    return f


def check_cnf(cnf, H, case=None, record=True):
    """Core check; returns (nontrivial, klass)."""
    if case is None:
        case = {'kind': 'cnf', 'cnf': [[[nm, bool(s)] for nm, s in cl] for cl in cnf]}
    vs = cnf_vars(cnf)
    if len(vs) > 16:
        raise CaseInvalid('too many variables for the brute-force oracle')
    is_sat, models, total = brute(cnf)
    feats = features(cnf)
    fsig = feats[0] if feats else 'plain'   # one primary feature: one root cause -> one signature
    status, res = run_solver(cnf)
    nontrivial = len(cnf) >= 2 and len(vs) >= 2 and (not is_sat or models < total)
    klass = ('sat' if is_sat else 'unsat') + ':' + fsig
    if status == 'timeout':
        if len(vs) <= 4:
            H.violation('cnf:nontermination:%s' % fsig, case,
                        'solve_cnf exceeded 2 s and 10 s on a CNF with %d variables, %d clauses' % (len(vs), len(cnf)))
        else:
            H.inconc('timeout')
        return nontrivial, klass
    if status == 'exception':
        H.violation('cnf:exception:%s:%s' % (res.split(':')[0], fsig), case, res)
        return nontrivial, klass
    try:
        verdict, cert = res
    except Exception:
        H.violation('cnf:bad-result', case, repr(res))
        return nontrivial, klass
    if verdict == 'satisfiable':
        if not is_sat:
            H.violation('cnf:wrong-verdict:sat-on-unsat:%s' % fsig, case, 'brute force: no model among %d' % total)
        else:
            ok, why = check_assignment(cnf, cert)
            if not ok:
                H.violation('cnf:bad-assignment:%s' % fsig, case, '%s; assignment=%r' % (why, cert))
    elif verdict == 'unsatisfiable':
        if is_sat:
            H.violation('cnf:wrong-verdict:unsat-on-sat:%s' % fsig, case, 'brute force: %d models' % models)
        else:
            ok, why = check_unsat_trace(cnf, cert)
            if not ok:
                H.violation('cnf:bad-trace:%s' % fsig, case, '%s; trace=%r' % (why, cert))
    else:
        H.violation('cnf:bad-verdict', case, repr(verdict))
    return nontrivial, klass


# ---------------------------------------------------------------- Tseitin
def build_formula(f, atoms):
    from kernel.term import Var, And, Or, Not, Implies, Eq
    from kernel.type import BoolType
    if not isinstance(f, list) or not f:
        raise CaseInvalid('formula')
    tag = f[0]
    if tag == 'atom':
        if not isinstance(f[1], str):
            raise CaseInvalid('atom')
        atoms.add(f[1])
        return Var(f[1], BoolType)
    if tag == 'const' and f[1] in (True, False):
        from kernel.term import true, false
        return true if f[1] else false
    if tag == 'not' and len(f) == 2:
        return Not(build_formula(f[1], atoms))
    if tag in ('and', 'or', 'imp', 'iff') and len(f) == 3:
        a, b = build_formula(f[1], atoms), build_formula(f[2], atoms)
        return {'and': And, 'or': Or, 'imp': Implies, 'iff': Eq}[tag](a, b)
    raise CaseInvalid('formula tag %r' % (tag,))


def eval_formula(f, env):
    tag = f[0]
    if tag == 'atom':
        return env[f[1]]
    if tag == 'const':
        return bool(f[1])
    if tag == 'not':
        return not eval_formula(f[1], env)
    a, b = eval_formula(f[1], env), eval_formula(f[2], env)
    return {'and': a and b, 'or': a or b, 'imp': (not a) or b, 'iff': a == b}[tag]


def n_connectives(f):
    return 0 if f[0] in ('atom', 'const') else 1 + sum(n_connectives(x) for x in f[1:])


def eval_bool_term(t, env):
    """Evaluate a propositional holpy term under env: name -> bool (independent of holpy's own evaluation)."""
    if t.is_var():
        return env[t.name]
    if t.is_not():
        return not eval_bool_term(t.arg, env)
    if t.is_conj():
        return eval_bool_term(t.arg1, env) and eval_bool_term(t.arg, env)
    if t.is_disj():
        return eval_bool_term(t.arg1, env) or eval_bool_term(t.arg, env)
    if t.is_implies():
        return (not eval_bool_term(t.arg1, env)) or eval_bool_term(t.arg, env)
    if t.is_equals():
        return eval_bool_term(t.arg1, env) == eval_bool_term(t.arg, env)
    if t.is_const('true'):
        return True
    if t.is_const('false'):
        return False
    raise ValueError('not propositional: %s' % t)


def dpll_sat(cnf):
    """Small independent DPLL used only for CNFs too wide for brute force."""
    clauses = [frozenset((nm, bool(s)) for nm, s in cl) for cl in cnf]

    def rec(cls, assign):
        cls = list(cls)
        while True:
            unit = None
            new = []
            for cl in cls:
                if any(assign.get(nm) == s for nm, s in cl):
                    continue
                rest = [(nm, s) for nm, s in cl if nm not in assign]
                if not rest:
                    return False
                if len(rest) == 1 and unit is None:
                    unit = rest[0]
                new.append(frozenset(rest))
            cls = new
            if unit is None:
                break
            assign = dict(assign)
            assign[unit[0]] = unit[1]
        if not cls:
            return True
        nm = next(iter(cls[0]))[0]
        for v in (True, False):
            a = dict(assign)
            a[nm] = v
            if rec(cls, a):
                return True
        return False
    return rec(clauses, {})


def check_formula(f, H, case):
    from kernel import theory
    from kernel.report import ProofReport
    from logic import basic
    if 'sat' not in _theory:
        basic.load_theory('sat')
        _theory['sat'] = theory.thy
    theory.thy = _theory['sat']
    atoms = set()
    t = build_formula(f, atoms)
    atoms = sorted(atoms)
    if len(atoms) > 8:
        raise CaseInvalid('too many atoms')
    nontrivial = n_connectives(f) >= 2
    # ground truth for the formula
    models = []
    for bits in itertools.product([False, True], repeat=len(atoms)):
        env = dict(zip(atoms, bits))
        if eval_formula(f, env):
            models.append(env)
    f_sat = bool(models)
    has_const = '"const"' in harness.canon(f)
    klass = 'formula:' + ('sat' if f_sat else 'unsat') + (':with-constants' if has_const else '')
    try:
        with time_limit(60):
            pt = tseitin.encode(t)
    except Timeout:
        H.inconc('tseitin-timeout')
        return nontrivial, klass
    except Exception as e:
        H.violation('tseitin:encode-exception:%s' % type(e).__name__, case, '%s: %s' % (type(e).__name__, e))
        return nontrivial, klass
    th = pt.th
    # 1. checker accepts the exported proof and returns the same sequent
    try:
        with time_limit(120):
            rpt = ProofReport()
            res = theory.thy.check_proof(pt.export(), rpt, no_gaps=True)
    except Timeout:
        H.inconc('check-timeout')
        return nontrivial, klass
    except Exception as e:
        H.violation('tseitin:checker-rejects:%s' % type(e).__name__, case,
                    '%s: %s' % (type(e).__name__, getattr(e, 'str', e)))
        return nontrivial, klass
    if res.prop != th.prop or not set(res.hyps) <= set(th.hyps):
        H.violation('tseitin:checked-sequent-differs', case, 'checked %s vs claimed %s' % (res, th))
        return nontrivial, klass
    # 2. hypotheses: the formula itself plus definitional equations x_i = <term over atoms and x_j>
    defs = {}
    for h in th.hyps:
        if h == t and not (h.is_equals() and h.lhs.is_var() and h.lhs.name not in atoms and h.lhs.name in defs):
            # may also be a definition when t itself is an equation; handled below
            pass
        if h.is_equals() and h.lhs.is_var() and (h.lhs.name not in atoms or h != t):
            if h.lhs.name in defs:
                H.violation('tseitin:hyp-two-definitions', case, 'variable %s defined twice in %s' % (h.lhs.name, th))
                return nontrivial, klass
            defs[h.lhs.name] = h.rhs
        elif h == t:
            pass
        else:
            H.violation('tseitin:foreign-hypothesis', case, 'hypothesis %s is neither the formula nor a definition' % h)
            return nontrivial, klass
    # 3. read off the CNF
    try:
        cnf = tseitin.convert_cnf(th.prop)
        for cl in cnf:
            for nm, s in cl:
                if not isinstance(nm, str) or not isinstance(s, bool):
                    raise ValueError('literal %r' % ((nm, s),))
    except Exception as e:
        H.violation('tseitin:not-a-cnf', case, 'conclusion %s cannot be read as a CNF: %s' % (th.prop, e))
        return nontrivial, klass
    cvars = cnf_vars(cnf)
    # 4. equisatisfiability
    if len(cvars) <= 14:
        c_sat = brute(cnf)[0]
    else:
        c_sat = dpll_sat(cnf)
    if c_sat != f_sat:
        H.violation('tseitin:boolean-constant-treated-as-atom' if has_const else 'tseitin:not-equisatisfiable:%s' % ('formula-sat' if f_sat else 'formula-unsat'), case,
                    'formula satisfiable=%s but CNF %s satisfiable=%s' % (f_sat, sat.str_of_cnf(cnf), c_sat))
        return nontrivial, klass
    # 5. solve_cnf agrees on the encoded CNF
    status, r = run_solver(cnf)
    if status == 'ok':
        verdict = r[0]
        if (verdict == 'satisfiable') != f_sat:
            H.violation('tseitin:boolean-constant-treated-as-atom' if has_const else 'tseitin:solve_cnf-disagrees', case, 'formula satisfiable=%s, solve_cnf says %s' % (f_sat, verdict))
        elif verdict == 'satisfiable':
            ok, why = check_assignment(cnf, r[1])
            if not ok:
                H.violation('cnf:bad-assignment:tseitin', case, why)
        else:
            ok, why = check_unsat_trace(cnf, r[1])
            if not ok:
                H.violation('cnf:bad-trace:tseitin', case, why)
    elif status == 'timeout':
        H.inconc('timeout-on-encoded-cnf')
    else:
        H.violation('cnf:exception:tseitin', case, r)
    return nontrivial, klass


# ---------------------------------------------------------------- case interface
def run_case(case, H):
    if not isinstance(case, dict):
        raise CaseInvalid('case')
    if case.get('kind') == 'cnf':
        try:
            cnf = [[(str(nm), bool(s)) for nm, s in cl] for cl in case['cnf']]
        except Exception:
            raise CaseInvalid('cnf')
        nt, kl = check_cnf(cnf, H, case)
        H.case(case, nt, kl)
    elif case.get('kind') == 'formula':
        nt, kl = check_formula(case['f'], H, case)
        H.case(case, nt, kl)
    else:
        raise CaseInvalid('kind')


# ---------------------------------------------------------------- exploration
def multisets(lits, maxlen):
    out = []
    for k in range(maxlen + 1):
        out.extend(itertools.combinations_with_replacement(lits, k))
    return out


def shards(tier):
    if tier == 'quick':
        ex = [('exh', 2, 3), ('exh', 3, 2)]
        nrand, nform, k = 16000, 400, 16
    else:
        ex = [('exh', 2, 4), ('exh', 3, 3)]
        nrand, nform, k = 400000, 12000, 32
    out = []
    for (_, nv, nc) in ex:
        for i in range(16):
            out.append({'kind': 'exh', 'vars': nv, 'clauses': nc, 'part': i, 'parts': 16})
    for i, n in enumerate(harness.split(nrand, k)):
        out.append({'kind': 'rand', 'n': n, 'i': i})
    for i, n in enumerate(harness.split(nform, k)):
        out.append({'kind': 'formula', 'n': n, 'i': i})
    return out


def cnf_strategy():
    from hypothesis import strategies as st

    @st.composite
    def cnfs(draw):
        nv = draw(st.integers(1, 12))
        names = ['v%d' % i for i in range(1, nv + 1)]
        lit = st.tuples(st.sampled_from(names), st.booleans())
        shape = draw(st.sampled_from(['small', 'small', '3sat', 'wide', 'any']))
        if shape == 'small':
            clause = st.lists(lit, min_size=0, max_size=3)
            ncl = draw(st.integers(0, 12))
        elif shape == '3sat':
            clause = st.lists(lit, min_size=2, max_size=3)
            ncl = draw(st.integers(min(60, 3 * nv), min(60, 5 * nv + 2)))
        elif shape == 'wide':
            clause = st.lists(lit, min_size=1, max_size=6)
            ncl = draw(st.integers(1, 30))
        else:
            clause = st.lists(lit, min_size=0, max_size=5)
            ncl = draw(st.integers(0, 60))
        cnf = draw(st.lists(clause, min_size=ncl, max_size=ncl))
        return {'kind': 'cnf', 'cnf': [[[nm, s] for nm, s in cl] for cl in cnf]}
    return cnfs()


def formula_strategy():
    from hypothesis import strategies as st
    atoms = st.one_of(st.sampled_from(['p', 'q', 'r', 's', 't', 'x1', 'x2', 'x3']).map(lambda a: ['atom', a]),
                      st.sampled_from(['p', 'q', 'r', 's', 't']).map(lambda a: ['atom', a]),
                      st.sampled_from([True, False]).map(lambda b: ['const', b]))

    def ext(children):
        return st.one_of(
            st.tuples(st.just('not'), children).map(list),
            st.tuples(st.sampled_from(['and', 'or', 'imp', 'iff']), children, children).map(list))
    f = st.recursive(atoms, ext, max_leaves=10)

    def depth(x):
        return 0 if x[0] in ('atom', 'const') else 1 + max(depth(y) for y in x[1:])
    # contradictions / tautologies are rare in random formulas: wrap some
    @st.composite
    def wrapped(draw):
        g = draw(f)
        while depth(g) > 3:
            g = g[1]
        mode = draw(st.sampled_from(['plain', 'plain', 'plain', 'contra', 'taut', 'neg']))
        if mode == 'contra':
            g = ['and', g, ['not', g]]
        elif mode == 'taut':
            g = ['or', g, ['not', g]]
        elif mode == 'neg':
            g = ['not', g]
        return {'kind': 'formula', 'f': g}
    return wrapped()


def run_shard(desc, seed, tier, H):
    kind = desc['kind']
    if kind == 'exh':
        nv, nc = desc['vars'], desc['clauses']
        names = ['a', 'b', 'c'][:nv]
        lits = [(n, s) for n in names for s in (True, False)]
        clauses = multisets(lits, 3)
        count = nontriv = 0
        idx = 0
        aborted = False
        for k in range(nc + 1):
            for cnf in itertools.product(clauses, repeat=k):
                idx += 1
                if idx % desc['parts'] != desc['part']:
                    continue
                cnf_l = [list(cl) for cl in cnf]
                nt, kl = check_cnf(cnf_l, H)
                count += 1
                nontriv += 1 if nt else 0
                H.classes[kl] += 1
                if nt and count % 5000 == 1:
                    H.sample('exh:' + kl, {'kind': 'cnf', 'cnf': [[[nm, s] for nm, s in cl] for cl in cnf_l]})
                if _timeouts[0] > 40:
                    aborted = True
                    break
            if aborted:
                break
        H.bulk(count, nontriv)
        if aborted:
            H.note('exhaustive_shard_aborted_after_timeouts')
        else:
            H.mark_exhaustive('all ordered CNFs, <=%d clauses of <=3 literals (multisets) over %d variables' % (nc, nv))
    elif kind == 'rand':
        def body(case):
            if _timeouts[0] > 40:
                H.note('skipped_after_timeouts')
                return
            run_case(case, H)
        harness.hyp_run(cnf_strategy(), body, desc['n'], seed)
    elif kind == 'formula':
        def body(case):
            run_case(case, H)
        harness.hyp_run(formula_strategy(), body, desc['n'], seed)
