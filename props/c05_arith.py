"""C05 - trusted arithmetic evaluation steps only assert true arithmetic facts.

Cases (JSON):
  {"macro": NAME, "goal": G}
  G ::= ["eq"|"lt"|"le"|"gt"|"ge", E, E] | ["not", G] | ["iff", G, G]
  E ::= ["num", T, "p/q"]            numeral of type T in {"nat","int","real"} (normal form, sign allowed)
      | ["var", T, name] | ["pi"]
      | ["plus"|"minus"|"times"|"div", E, E] | ["neg", E] | ["inv", E] | ["suc", E]
      | ["pow", E, Enat]             power with a natural-number exponent
      | ["rpow", E, E]               power with an exponent of the same type as the base (real power)
      | ["of_nat", T, Enat] | ["of_int", Eint]
      | ["fn", f, E]                 f in sqrt exp log sin cos tan cot sec csc abs atn
Binary operators take the type of their operands (which must agree), so the same shape can be instantiated
at nat, int and real by changing the type field of its leaves (`retype`).
"""
import contextlib
import json
import gc
import math
import signal
from fractions import Fraction

from vlib import harness, arith
from vlib.harness import Timeout, CaseInvalid, SelfTestError

ID = 'C05'
RULE = ("One case = one goal term handed to one of the ten macros that theory.check_proof evaluates without expansion at "
        "check_level=0 (nat_eval, int_eval, int_const_ineq, real_eval, real_const_eq, real_compare, real_const_ineq, "
        "real_eq_comparison, real_norm, const_inequality), through a one-item kernel Proof checked by "
        "theory.thy.check_proof (default level) in theory 'realintegral'. (1) Enumerated sub-domain, per macro and per goal "
        "type nat/int/real: every expression with <= 2 nested binary operators (+ - * / real-power) over 3-4 small leaves, "
        "unary operators (Suc, uminus, inverse), powers ^0 ^2 ^3, of_nat / of_int of one-operator expressions, the numerals "
        "1, 1/0, -(1/0); each against its true value, its value under wrong semantics (other truncation rule for minus, one "
        "operator confusion such as x/0 = x) and value + 1; relation rotating through the macro's relations, negated every "
        "third time where the macro handles negation. (2) Hypothesis: goals from a typed expression grammar (numerals "
        "incl. negative, fractions, non-normal n/m and n/0, up to 10^40; + - * /, unary minus, inverse, Suc, ^ with natural / "
        "integer / fractional / negative exponents, of_nat, of_int, sqrt pi sin cos tan cot sec csc exp log abs atn; depth "
        "<= 4 quick, <= 6 thorough); the goal type is the macro's intended one in ~60% of the cases and one of the other two "
        "numeric types otherwise (same grammar, other leaf type). Right-hand sides: the true value (independent evaluator), "
        "the value under the other subtraction semantics, under one operator confusion, the true value +- 1 unit in the "
        "16th..40th significant digit, a rational bound on the certain side of an irrational value at 3..40 digits, the exact "
        "image of the nearest double +- 1 ulp, value +- 1, a random numeral, a random expression. real_norm: an expression over "
        "real/nat variables against a rearrangement of itself (AC moves, distribution, x-y = x+-y, x/c = x*(1/c), x^2 = x*x, "
        "unit insertion, constant folding) with or without one perturbed coefficient / mis-folded ground subterm. "
        "real_eq_comparison: a linear comparison against a rewritten form (sides swapped, terms moved, constant added, scaled, "
        "negated) with or without a flipped / weakened relation or shifted constant. Oracle: vlib/arith.py (exact Fractions, "
        "exact quadratic surds, mpmath.iv at 70 digits, three-valued) evaluates the returned sequent at the types that occur "
        "in it; sequents with free variables are evaluated at 32-40 rational points (small values, constants of the goal, "
        "spread values). Only a sequent evaluated FALSE (all hypotheses true, conclusion false; open terms: at one concrete "
        "point) is a violation; the signature names the root cause (goal-type-not-<T>: the same shape at the macro's intended "
        "type would have been right; float-compare; float-power; in-domain). Non-trivial: the macro returned a theorem and the "
        "goal has >= 2 operators; distinct by the canonical JSON of the case.")
ASSUMPTIONS = [
    "truth of real power, sqrt of negatives, x/0 and inverse 0 follows the library definitions (transcendentals.json: "
    "HOL Light's rpow; real.json: sqrt, real_inv_0); log of a non-positive number, uminus on naturals and "
    "real_divide at nat/int are treated as unspecified (UNKNOWN, never a violation)",
    "a goal outside the macro's intended type that is accepted although TRUE is only counted "
    "(accepted_out_of_domain_true): the last sentence of the property is read as protecting against false assertions",
    "exceptions and Timeouts (4 CPU-seconds per goal, 20 for real_eq_comparison) of the code under test count as 'rejected' / inconclusive",
    "the level-0 solver bridges (z3, sympy, simplex, verit) belong to C06/C16/C18 and are not run here",
]
SHRINK_SECONDS = 15
SHRINK_BUDGET = 150

TYPES = ('nat', 'int', 'real')
FUNS = ('sqrt', 'exp', 'log', 'sin', 'cos', 'tan', 'cot', 'sec', 'csc', 'abs', 'atn')
CMP = ('lt', 'le', 'gt', 'ge')

# intended goal type, relations the macro is written for, operators its evaluator understands
MACROS = {
    'nat_eval': dict(ty='nat', rels=('eq',), neg=False,
                     ops=('plus', 'minus', 'times', 'suc')),
    'int_eval': dict(ty='int', rels=('eq',), neg=False,
                     ops=('plus', 'minus', 'times', 'neg')),
    'int_const_ineq': dict(ty='int', rels=('eq',) + CMP, neg=True,
                           ops=('plus', 'minus', 'times', 'neg')),
    'real_eval': dict(ty='real', rels=('eq',), neg=False,
                      ops=('plus', 'minus', 'times', 'neg', 'div', 'inv', 'pow', 'rpow', 'of_nat', 'of_int')),
    'real_const_eq': dict(ty='real', rels=('eq',) + CMP, neg=False,
                          ops=('plus', 'minus', 'times', 'neg', 'div', 'inv', 'pow', 'rpow', 'of_nat', 'of_int')),
    'real_compare': dict(ty='real', rels=CMP, neg=False,
                         ops=('plus', 'minus', 'times', 'neg', 'div', 'inv', 'pow', 'rpow', 'of_nat', 'of_int')),
    'real_const_ineq': dict(ty='real', rels=('eq',) + CMP, neg=True,
                            ops=('plus', 'minus', 'times', 'neg', 'div', 'pow', 'rpow')),
    'const_inequality': dict(ty='real', rels=('eq',) + CMP, neg=True,
                             ops=('plus', 'minus', 'times', 'neg', 'div', 'inv', 'pow', 'rpow', 'of_nat', 'of_int',
                                  'fn', 'pi')),
    'real_norm': dict(ty='real', rels=('eq',), neg=False, ops=()),
    'real_eq_comparison': dict(ty='real', rels=('iff',), neg=False, ops=()),
}

_K = {}          # holpy names, filled by setup()
_thy = {}


# ---------------------------------------------------------------------------------------------- setup
def setup():
    import warnings
    import hypothesis  # noqa: F401  (imported before the fork: saves ~2.5 s CPU per worker)
    from hypothesis import strategies  # noqa: F401
    warnings.filterwarnings('ignore', category=SyntaxWarning)
    from data import nat, integer, real          # noqa: F401  (registers the macros; must precede load_theory)
    from integral import inequality               # noqa: F401
    from logic import basic
    from kernel import theory, term, type as htype
    from kernel.proof import Proof
    from kernel.thm import Thm
    basic.load_theory('realintegral')
    _thy['thy'] = theory.thy
    _K.update(theory=theory, term=term, htype=htype, Proof=Proof, Thm=Thm,
              T={'nat': htype.NatType, 'int': htype.IntType, 'real': htype.RealType, 'bool': htype.BoolType})
    # every macro must be registered, level 0, and available in the loaded theory
    for m in MACROS:
        if not theory.has_macro(m):
            raise SelfTestError('macro %s not available in theory realintegral' % m)
        if theory.get_macro(m).level != 0:
            raise SelfTestError('macro %s is not level 0' % m)
    bad = arith.self_test()
    if bad:
        raise SelfTestError('arith value layer: ' + '; '.join(bad[:3]))
    self_test_terms()
    # the loaded theories are a large, immutable heap: keep the workers' collector (and copy-on-write) off it
    gc.collect()
    gc.freeze()


def _expect(what, got, want):
    if got != want:
        raise SelfTestError('%s: got %r, expected %r' % (what, got, want))


def self_test_terms():
    """Oracle on known-good / known-bad terms, and the observation point on 2 + 2 = 4 / 5."""
    def P(g):
        return arith.eval_prop(build_goal(g)[0])
    n = lambda T, v: ['num', T, str(v)]
    _expect('nat 1-2=0', P(['eq', ['minus', n('nat', 1), n('nat', 2)], n('nat', 0)]), True)
    _expect('int 1-2=0', P(['eq', ['minus', n('int', 1), n('int', 2)], n('int', 0)]), False)
    _expect('real 1-2=-1', P(['eq', ['minus', n('real', 1), n('real', 2)], n('real', -1)]), True)
    _expect('3/0=0', P(['eq', ['div', n('real', 3), n('real', 0)], n('real', 0)]), True)
    _expect('2/4=1/2', P(['eq', ['div', n('real', 2), n('real', 4)], n('real', '1/2')]), True)
    _expect('sqrt2*sqrt2=2', P(['eq', ['times', ['fn', 'sqrt', n('real', 2)], ['fn', 'sqrt', n('real', 2)]], n('real', 2)]), True)
    _expect('sqrt2*sqrt2>2', P(['gt', ['times', ['fn', 'sqrt', n('real', 2)], ['fn', 'sqrt', n('real', 2)]], n('real', 2)]), False)
    _expect('pi<22/7', P(['lt', ['pi'], n('real', '22/7')]), True)
    _expect('not pi<22/7', P(['not', ['lt', ['pi'], n('real', '22/7')]]), False)
    _expect('2^(1/2) = float image', P(['eq', ['rpow', n('real', 2), n('real', '1/2')],
                                        n('real', Fraction(math.sqrt(2)))]), False)
    _expect('of_nat(2-3)+1=1', P(['eq', ['plus', ['of_nat', 'real', ['minus', n('nat', 2), n('nat', 3)]], n('real', 1)],
                                  n('real', 1)]), True)
    _expect('2^10=1024', P(['eq', ['pow', n('int', -2), n('nat', 10)], n('int', 1024)]), True)
    _expect('log 0 unknown', P(['eq', ['fn', 'log', n('real', 0)], n('real', 0)]), None)
    _expect('neg nat unknown', P(['eq', ['neg', n('nat', 3)], n('nat', 0)]), None)
    _expect('iff', P(['iff', ['lt', n('real', 1), n('real', 2)], ['gt', n('real', 1), n('real', 2)]]), False)
    _expect('10^40+1 > 10^40', P(['gt', n('real', 10 ** 40 + 1), n('real', 10 ** 40)]), True)
    # open terms
    x, y = ['var', 'real', 'x'], ['var', 'real', 'y']
    good = build_goal(['eq', ['times', ['plus', x, y], ['plus', x, y]],
                       ['plus', ['plus', ['times', x, x], ['times', ['times', n('real', 2), x], y]], ['times', y, y]]])[0]
    bad = build_goal(['eq', ['times', ['plus', x, y], ['plus', x, y]], ['plus', ['times', x, x], ['times', y, y]]])[0]
    pts = arith.sample_points(arith.free_vars(good), 24, 1)
    _expect('binomial identity', arith.refute_at_points(good, pts)[0], None)
    if arith.refute_at_points(bad, pts)[0] is None:
        raise SelfTestError('freshman identity not refuted at 24 points')
    # observation point
    st, th = run_macro('nat_eval', build_goal(['eq', ['plus', n('nat', 2), n('nat', 2)], n('nat', 4)])[0])
    if st != 'thm':
        raise SelfTestError('nat_eval does not prove 2 + 2 = 4 through check_proof: %s' % (th,))
    st, th = run_macro('nat_eval', build_goal(['eq', ['plus', n('nat', 2), n('nat', 2)], n('nat', 5)])[0])
    if st == 'thm':
        raise SelfTestError('nat_eval proves 2 + 2 = 5 (observation point broken?)')
    # the generator-side evaluator and the oracle agree on holpy's own numeral constructors
    t = _K['term']
    for T, v in (('nat', 37), ('int', -12), ('real', Fraction(-7, 3)), ('real', 10 ** 30)):
        _expect('numeral %s' % v, arith.eval_num(t.Number(_K['T'][T], v)), Fraction(v))
        if not same_term(t.Number(_K['T'][T], v), build_expr(['num', T, str(v)])[0]):
            raise SelfTestError('numeral builder differs from kernel.term.Number for %s::%s' % (v, T))


# ---------------------------------------------------------------------------------------------- decoding
def _str(x):
    if not isinstance(x, str):
        raise CaseInvalid('string expected')
    return x


def _numeral(T, n):
    """Non-negative integer numeral of type T in holpy's normal form."""
    t, Ty = _K['term'], _K['T'][T]
    if n == 0:
        return t.Const('zero', Ty)
    if n == 1:
        return t.Const('one', Ty)
    return t.of_nat(Ty)(t.Binary(n))


def build_expr(e, rec=None):
    """JSON expression -> (holpy term, type name).  `rec` collects (kind, subterm...) records for features."""
    t = _K.get('term')
    if not isinstance(e, list) or not e or not isinstance(e[0], str):
        raise CaseInvalid('expression')
    tag = e[0]
    if tag == 'num' and len(e) == 3:
        T = _str(e[1])
        if T not in TYPES:
            raise CaseInvalid('type')
        try:
            v = Fraction(_str(e[2]))
        except (ValueError, ZeroDivisionError):
            raise CaseInvalid('numeral')
        if max(abs(v.numerator), v.denominator).bit_length() > 600:
            raise CaseInvalid('numeral too large')
        Ty = _K['T'][T]
        body = _numeral(T, abs(v.numerator))
        if v.denominator != 1:
            body = t.divides(Ty)(body, _numeral(T, v.denominator))
        if v < 0:
            body = t.uminus(Ty)(body)
        if rec is not None:
            rec.append(('num', v, T))
        return body, T
    if tag == 'var' and len(e) == 3:
        T = _str(e[1])
        if T not in TYPES or not _str(e[2]).isidentifier():
            raise CaseInvalid('var')
        if rec is not None:
            rec.append(('var', e[2], T))
        return t.Var(e[2], _K['T'][T]), T
    if tag == 'pi' and len(e) == 1:
        if rec is not None:
            rec.append(('irr',))
        return t.Const('pi', _K['T']['real']), 'real'
    if tag in ('plus', 'minus', 'times', 'div', 'rpow') and len(e) == 3:
        a, Ta = build_expr(e[1], rec)
        b, Tb = build_expr(e[2], rec)
        if Ta != Tb:
            raise CaseInvalid('operand types differ')
        Ty = _K['T'][Ta]
        if tag == 'rpow':
            res = t.Const('power', _K['htype'].TFun(Ty, Ty, Ty))(a, b)
            if rec is not None:
                rec.append(('rpow', a, b))
        else:
            f = {'plus': t.plus, 'minus': t.minus, 'times': t.times, 'div': t.divides}[tag](Ty)
            res = f(a, b)
            if tag == 'div' and rec is not None:
                rec.append(('div', b))
        if rec is not None:
            rec.append(('op', tag))
        return res, Ta
    if tag == 'pow' and len(e) == 3:
        a, Ta = build_expr(e[1], rec)
        b, Tb = build_expr(e[2], rec)
        if Tb != 'nat':
            raise CaseInvalid('pow exponent must be nat')
        if rec is not None:
            rec.append(('pow', a, b))
            rec.append(('op', tag))
        return t.nat_power(_K['T'][Ta])(a, b), Ta
    if tag in ('neg', 'inv', 'suc') and len(e) == 2:
        a, Ta = build_expr(e[1], rec)
        Ty = _K['T'][Ta]
        if tag == 'neg':
            res = t.uminus(Ty)(a)
        elif tag == 'inv':
            res = t.Const('real_inverse', _K['htype'].TFun(Ty, Ty))(a)
            if rec is not None:
                rec.append(('div', a))
        else:
            if Ta != 'nat':
                raise CaseInvalid('Suc on non-nat')
            res = t.Const('Suc', _K['htype'].TFun(Ty, Ty))(a)
        if rec is not None:
            rec.append(('op', tag))
        return res, Ta
    if tag == 'of_nat' and len(e) == 3:
        T = _str(e[1])
        a, Ta = build_expr(e[2], rec)
        if T not in TYPES or Ta != 'nat':
            raise CaseInvalid('of_nat')
        if rec is not None:
            rec.append(('op', tag))
        return t.of_nat(_K['T'][T])(a), T
    if tag == 'of_int' and len(e) == 2:
        a, Ta = build_expr(e[1], rec)
        if Ta != 'int':
            raise CaseInvalid('of_int')
        if rec is not None:
            rec.append(('op', tag))
        return t.of_int(_K['T']['real'])(a), 'real'
    if tag == 'fn' and len(e) == 3:
        f = _str(e[1])
        a, Ta = build_expr(e[2], rec)
        if f not in FUNS or (Ta != 'real' and f != 'abs'):
            raise CaseInvalid('fn')
        Ty = _K['T'][Ta]
        if rec is not None:
            rec.append(('op', 'fn'))
            if f != 'abs':
                rec.append(('irr',))
        return t.Const(f, _K['htype'].TFun(Ty, Ty))(a), Ta
    raise CaseInvalid('expression tag %r' % (tag,))


def build_goal(g, rec=None):
    """JSON goal -> (holpy term, type name of the compared terms)."""
    t = _K['term']
    if not isinstance(g, list) or not g or not isinstance(g[0], str):
        raise CaseInvalid('goal')
    tag = g[0]
    if tag in ('eq',) + CMP and len(g) == 3:
        a, Ta = build_expr(g[1], rec)
        b, Tb = build_expr(g[2], rec)
        if Ta != Tb:
            raise CaseInvalid('sides have different types')
        Ty = _K['T'][Ta]
        f = {'eq': t.equals, 'lt': t.less, 'le': t.less_eq, 'gt': t.greater, 'ge': t.greater_eq}[tag](Ty)
        if rec is not None:
            rec.append(('rel', tag))
        return f(a, b), Ta
    if tag == 'not' and len(g) == 2:
        a, Ta = build_goal(g[1], rec)
        if rec is not None:
            rec.append(('rel', 'not'))
        return t.Not(a), Ta
    if tag == 'iff' and len(g) == 3:
        a, Ta = build_goal(g[1], rec)
        b, Tb = build_goal(g[2], rec)
        if rec is not None:
            rec.append(('rel', 'iff'))
        return t.equals(_K['T']['bool'])(a, b), Ta if Ta == Tb else 'mixed'
    raise CaseInvalid('goal tag %r' % (tag,))


def retype(e, frm, to):
    """The same shape with leaves of type `frm` moved to type `to` (exponents of pow and arguments of
    of_nat / of_int keep their type)."""
    tag = e[0]
    if tag in ('num', 'var'):
        return [tag, to if e[1] == frm else e[1], e[2]]
    if tag == 'pow':
        return [tag, retype(e[1], frm, to), e[2]]
    if tag == 'of_nat':
        return [tag, to if e[1] == frm else e[1], e[2]]
    if tag == 'of_int':
        return e
    if tag == 'fn':
        return [tag, e[1], retype(e[2], frm, to)]
    return [tag] + [retype(x, frm, to) if isinstance(x, list) else x for x in e[1:]]


def same_term(a, b):
    """Structural equality through public fields (independent of Term.__eq__)."""
    stack = [(a, b)]
    while stack:
        x, y = stack.pop()
        if x.ty != y.ty:
            return False
        if x.is_comb():
            stack.append((x.fun, y.fun))
            stack.append((x.arg, y.arg))
        elif x.is_abs():
            if str(x.var_T) != str(y.var_T):
                return False
            stack.append((x.body, y.body))
        elif x.is_bound():
            if x.n != y.n:
                return False
        else:
            if x.name != y.name or str(x.T) != str(y.T):
                return False
    return True


# ---------------------------------------------------------------------------------------------- observation point
_armed = [False]


def _on_cpu_alarm(signum, frame):
    if _armed[0]:
        raise Timeout()


def _disarm():
    _armed[0] = False
    signal.setitimer(signal.ITIMER_PROF, 0)


@contextlib.contextmanager
def cpu_time_limit(seconds):
    """Like harness.time_limit but in CPU seconds of this process (independent of the load of the machine, so that
    a run is a function of the seed), and re-raised every 50 ms in case the first Timeout is swallowed by an
    `except:` of the code under test or lands in a gc callback."""
    signal.signal(signal.SIGPROF, _on_cpu_alarm)
    _armed[0] = True
    signal.setitimer(signal.ITIMER_PROF, seconds, 0.05)
    try:
        yield
    finally:
        _disarm()


def run_macro(macro, goal, seconds=None):
    """One-item Proof invoking `macro` on `goal`, checked by theory.check_proof at the default level.
    Returns ('thm', Thm) | ('rejected', text) | ('timeout', None)."""
    theory = _K['theory']
    theory.thy = _thy['thy']
    if seconds is None:     # CPU seconds; real_eq_comparison runs the auto normaliser (0.1 - 1 s per goal)
        seconds = 20 if macro == 'real_eq_comparison' else 4
    prf = _K['Proof']()
    prf.add_item(0, macro, args=goal, prevs=[])
    try:
        with cpu_time_limit(seconds):
            th = theory.thy.check_proof(prf)
    except Timeout:
        _disarm()
        return 'timeout', None
    except RecursionError:
        _disarm()
        return 'rejected', 'RecursionError'
    except Exception as ex:  # every exception of the code under test is a rejection
        _disarm()
        return 'rejected', type(ex).__name__
    if not isinstance(th, _K['Thm']):
        return 'rejected', 'no theorem returned: %r' % (th,)
    return 'thm', th


def asserted_truth_of_goal(th, goal):
    """What the returned theorem says about the goal: True (goal), False (its negation), None (neither)."""
    p = th.prop
    if same_term(p, goal):
        return True
    if p.is_not() and same_term(p.arg, goal):
        return False
    if goal.is_not() and same_term(p, goal.arg):
        return False
    if p.is_equals() and same_term(p.arg1, goal):
        if p.arg.is_const() and p.arg.name in ('true', 'false'):
            return p.arg.name == 'true'
    return None


def sequent_value(th, points):
    """Three-valued truth of a sequent; (False, env) only with a concrete refutation."""
    fv = set()
    for h in list(th.hyps) + [th.prop]:
        fv.update(arith.free_vars(h))
    envs = points(sorted(fv)) if fv else [None]
    n_true = n_unknown = 0
    for env in envs:
        hv = [arith.eval_prop(h, env) for h in th.hyps]
        if any(v is False for v in hv):
            n_true += 1
            continue
        c = arith.eval_prop(th.prop, env)
        if c is False and all(v is True for v in hv):
            return False, env
        if c is True:
            n_true += 1
        else:
            n_unknown += 1
    if fv:      # open sequent: "true at every point where it could be evaluated" (at least a third of the points)
        return (True if n_true * 3 >= len(envs) else None), None
    return (None if n_unknown else True), None


# ---------------------------------------------------------------------------------------------- features
def features(rec, goalT, macro):
    f = set()
    ops = sum(1 for r in rec if r[0] == 'op')
    intended = MACROS[macro]['ty']
    f.add('intended-type' if goalT == intended else 'foreign-type')
    if any(r[0] == 'var' for r in rec):
        f.add('free-variables')
    if any(r[0] == 'irr' for r in rec):
        f.add('irrational')
    if any(r[0] == 'num' and max(abs(r[1].numerator), r[1].denominator) > 10 ** 18 for r in rec):
        f.add('huge-constant')
    ground = 'free-variables' not in f
    for r in rec:
        if r[0] == 'div' and ground:
            v = arith.eval_num(r[1])
            if isinstance(v, Fraction) and v == 0:
                f.add('zero-divisor')
        elif r[0] == 'rpow' and not ground:
            f.add('real-power')
        elif r[0] == 'rpow' and ground:
            f.add('real-power')
            b, x = arith.eval_num(r[1]), arith.eval_num(r[2])
            if b is not None and arith.compare(b, Fraction(0)) == -1:
                f.add('negative-base')
            if x is not None and not (isinstance(x, Fraction) and x.denominator == 1):
                f.add('non-integer-exponent')
            if isinstance(x, Fraction) and x < 0:
                f.add('negative-exponent')
        elif r[0] == 'pow' and ground:
            b = arith.eval_num(r[1])
            if b is not None and arith.compare(b, Fraction(0)) == -1:
                f.add('negative-base')
    return f, ops


def near_equal(goal, via_irrational=False):
    """Both sides of the innermost relation are distinct but agree to ~15 significant digits."""
    g = goal
    while g.is_not():
        g = g.arg
    if not (g.is_comb() and len(g.args) == 2) or arith.term_type(g.args[0]) not in TYPES:
        return False
    a, b = arith.eval_num(g.args[0]), arith.eval_num(g.args[1])
    if a is None or b is None:
        return False
    ma, mb = arith.midpoint(a), arith.midpoint(b)
    if ma == mb:
        # equal values: near-equal for a float evaluation whenever an intermediate value is irrational
        return not (isinstance(a, Fraction) and isinstance(b, Fraction)) or via_irrational
    scale = max(abs(ma), abs(mb))
    return abs(ma - mb) <= scale / 10 ** 14


def root_cause(macro, goal_json, goalT, feats, asserted):
    """Feature part of the signature: names the root cause, not the input."""
    intended = MACROS[macro]['ty']
    if goalT != intended and goalT in TYPES:
        # counterfactual: is the same shape at the macro's intended type evaluated correctly?
        cf = None
        try:
            cf = arith.eval_prop(build_goal(retype(goal_json, goalT, intended))[0]) \
                if 'free-variables' not in feats else None
        except CaseInvalid:
            cf = None
        if asserted is None or cf is None or cf == asserted:
            return 'goal-type-not-' + intended
    if macro == 'const_inequality' and ('irrational' in feats or 'real-power' in feats) and \
            ('near-equal' in feats or 'huge-constant' in feats):
        # the only way from const_inequality into Python floats: real_eval gives up (sqrt, pi, ..., a real power whose
        # exponent is not a Python int) and real_approx_eval takes over; rounding decides only when the two sides agree
        # to ~14 digits, or when a constant beyond 10^18 loses its low digits as a double (cos 10^26); a grossly wrong
        # value on ordinary constants is another root cause: 'in-domain'
        return 'float-compare'
    if macro == 'real_norm' and 'non-integer-exponent' in feats:
        return 'float-power'      # convert_to_poly: Fraction ** Fraction leaves the rationals
    return 'in-domain'


# ---------------------------------------------------------------------------------------------- one case
def _points_for(goal_json):
    consts = []

    def walk(e):
        if isinstance(e, list):
            if e and e[0] == 'num':
                try:
                    consts.append(Fraction(e[2]))
                except Exception:
                    pass
            for x in e[1:]:
                walk(x)
    walk(goal_json)
    consts = sorted(set(c for c in consts if abs(c) <= 50))[:8]

    def points(fv):
        return arith.sample_points(fv, 40 if len(fv) <= 2 else 32, seed=len(fv), extra=consts)
    return points


def run_case(case, H):
    if not isinstance(case, dict) or case.get('macro') not in MACROS:
        raise CaseInvalid('case')
    macro = case['macro']
    rec = []
    goal, goalT = build_goal(case.get('goal'), rec)
    feats, ops = features(rec, goalT, macro)
    if 'free-variables' not in feats and near_equal(goal, 'irrational' in feats or 'real-power' in feats):
        feats.add('near-equal')
    status, th = run_macro(macro, goal)
    klass = sorted(feats)
    if status == 'timeout':
        H.inconc('timeout:' + macro)
        H.case(case, False, klass + ['!timeout'])
        return
    if status == 'rejected':
        H.case(case, False, klass + ['rejected', 'rejected:' + macro], sample=False)
        return
    # a theorem came back
    asserted = asserted_truth_of_goal(th, goal)
    verdict, env = sequent_value(th, _points_for(case['goal']))
    klass += ['accepted', 'accepted:' + macro]
    if asserted is False:
        klass.append('returned-negation')
    elif asserted is None:
        klass.append('returned-other-statement')
    if verdict is False:
        cause = root_cause(macro, case['goal'], goalT, feats, asserted)
        at = '' if not env else ' at ' + ', '.join('%s=%s' % kv for kv in sorted(env.items()))
        try:
            shown = str(th)
        except Exception:       # holpy's printer re-infers types and can fail on terms the checker accepted
            shown = repr(th)
        H.violation('%s:false-asserted:%s' % (macro, cause), case,
                    'check_proof accepted a one-step proof by %s and returned  %s  which is FALSE%s '
                    '(goal type %s, macro written for %s)' % (macro, shown, at, goalT, MACROS[macro]['ty']))
        klass.append('!false-asserted')
    elif verdict is None:
        H.inconc('oracle-unknown:' + macro)
        klass.append('accepted_oracle_unknown')
    else:
        klass.append('accepted_true')
        if 'foreign-type' in feats:
            klass.append('accepted_out_of_domain_true')
    H.case(case, ops >= 2, klass)


# ---------------------------------------------------------------------------------------------- generators
def _fr(v):
    return str(Fraction(v))


class _TooBig(Exception):
    pass


def _num(T, v):
    v = Fraction(v)
    if max(abs(v.numerator), v.denominator).bit_length() > 500:
        raise _TooBig()
    return ['num', T, _fr(v)]


def _clamp(T, v):
    """A value representable as a numeral of type T close to v."""
    v = Fraction(v)
    if T == 'nat':
        return Fraction(abs(int(v)))
    if T == 'int':
        return Fraction(int(v))
    return v


CONFUSIONS = ('times->plus', 'plus->times', 'minus->plus', 'minus->swapped', 'div0->x', 'div0->1', 'div->times',
              'pow->times', 'neg->id', 'suc->id', 'inv0->1')


def alt_value(e, trunc, conf=None):
    """Generator-side value of a rational expression under a *wrong* semantics; only used to propose right-hand
    sides (never as an oracle).  `trunc`: every minus truncated at 0 (what an evaluator written for naturals
    computes) or never truncated (what one written for integers / reals computes), whatever the type of the leaves.
    `conf`: one operator confusion from CONFUSIONS (the slips a broken evaluator would make)."""
    tag = e[0]
    rec = lambda x, t=trunc: alt_value(x, t, conf)
    try:
        if tag == 'num':
            return Fraction(e[2])
        if tag in ('plus', 'minus', 'times', 'div'):
            a, b = rec(e[1]), rec(e[2])
            if a is None or b is None:
                return None
            if conf == tag + '->plus':
                tag = 'plus'
            elif conf == tag + '->times':
                tag = 'times'
            elif conf == 'minus->swapped' and tag == 'minus':
                a, b = b, a
            if tag == 'plus':
                return a + b
            if tag == 'times':
                return a * b
            if tag == 'div':
                if b == 0:
                    return a if conf == 'div0->x' else Fraction(1) if conf == 'div0->1' else Fraction(0)
                return a / b
            return max(a - b, Fraction(0)) if trunc else a - b
        if tag == 'neg':
            a = rec(e[1])
            return None if a is None else (a if conf == 'neg->id' else -a)
        if tag == 'inv':
            a = rec(e[1])
            if a is None:
                return None
            if a == 0:
                return Fraction(1) if conf == 'inv0->1' else Fraction(0)
            return 1 / a
        if tag == 'suc':
            a = rec(e[1])
            return None if a is None else (a if conf == 'suc->id' else a + 1)
        if tag in ('pow', 'rpow'):
            a, b = rec(e[1]), rec(e[2])
            if a is None or b is None or b.denominator != 1 or abs(b) > 12:
                return None
            if conf == 'pow->times':
                return a * b
            if b < 0:
                return Fraction(0) if a == 0 else (1 / a) ** int(-b)
            return a ** int(b)
        if tag == 'of_nat':
            return rec(e[2])
        if tag == 'of_int':
            return rec(e[1])
    except (ZeroDivisionError, OverflowError, ValueError):
        return None
    return None


def strategies(deep=False):
    from hypothesis import strategies as st

    DEPTHS = [1, 2, 3, 3, 4, 5, 6] if deep else [1, 2, 2, 3, 3, 4]

    small = st.integers(0, 12)
    big = st.one_of(
        st.integers(0, 40).map(lambda k: 10 ** k), st.integers(0, 130).map(lambda k: 2 ** k),
        st.sampled_from([2 ** 31 - 1, 2 ** 32, 2 ** 53, 2 ** 53 + 1, 2 ** 63 - 1, 2 ** 64, 2 ** 64 + 1, 10 ** 18 + 1,
                         10 ** 40 - 1]),
        st.integers(0, 10 ** 40))

    @st.composite
    def leaf_value(draw, T):
        k = draw(st.integers(0, 19))
        if k < 11:
            v = Fraction(draw(small))
        elif k < 13:
            v = Fraction(draw(big))
        elif k < 16:
            v = Fraction(draw(st.integers(0, 30)), draw(st.integers(1, 12)))
        elif k < 18:
            v = Fraction(draw(st.integers(0, 10 ** 9)), 10 ** draw(st.integers(0, 9)))
        else:
            v = Fraction(draw(st.integers(0, 10 ** 24)), draw(st.integers(1, 10 ** 24)))
        if T != 'nat' and draw(st.integers(0, 3)) == 0:
            v = -v
        return _clamp(T, v)

    def ops_for(T, understood, noise):
        allowed = {'nat': ('plus', 'minus', 'times', 'suc', 'pow'),
                   'int': ('plus', 'minus', 'times', 'neg', 'pow', 'of_nat'),
                   'real': ('plus', 'minus', 'times', 'neg', 'div', 'inv', 'pow', 'rpow', 'of_nat', 'of_int', 'fn',
                            'pi')}[T]
        base = [o for o in allowed if o in understood]
        if noise or not base:
            base = list(allowed)
        # arithmetic core weighted up; transcendental functions weighted up where the macro knows them
        extra = ['fn', 'fn', 'fn', 'pi'] if ('fn' in base and 'fn' in understood) else []
        return base + [o for o in base if o in ('plus', 'minus', 'times', 'minus')] + extra

    @st.composite
    def expr(draw, T, understood, depth, var_pool=None):
        if depth <= 0 or draw(st.integers(0, 9)) < 3:
            if var_pool and draw(st.integers(0, 9)) < 6:
                pool = [v for v in var_pool if v[1] == T]
                if pool:
                    nm, vt = draw(st.sampled_from(pool))
                    return ['var', vt, nm]
            return _num(T, draw(leaf_value(T)))
        noise = draw(st.integers(0, 11)) == 0
        op = draw(st.sampled_from(ops_for(T, understood, noise)))
        sub = lambda TT, d=depth - 1: draw(expr(TT, understood, d, var_pool))
        if op in ('plus', 'minus', 'times'):
            return [op, sub(T), sub(T)]
        if op == 'div':
            k = draw(st.integers(0, 9))
            if k == 0:
                den = _num(T, 0)
            elif k == 1:
                a = sub(T, min(depth - 1, 1))
                den = ['minus', a, a]                       # a divisor that is zero but not a literal 0
            else:
                den = sub(T)
            return ['div', sub(T), den]
        if op in ('neg', 'inv', 'suc'):
            return [op, sub(T)]
        if op == 'pow':
            k = draw(st.integers(0, 9))
            if k < 8:
                ex = _num('nat', draw(st.integers(0, 5)))
            else:
                sm = lambda: _num('nat', draw(st.integers(0, 6)))
                ex = [draw(st.sampled_from(['plus', 'minus', 'times'])), sm(), sm()]
            return ['pow', sub(T), ex]
        if op == 'rpow':
            k = draw(st.integers(0, 9))
            if k < 4:
                ex = _num(T, draw(st.integers(-4, 6)))
            elif k < 8:
                ex = _num(T, Fraction(draw(st.integers(-7, 9)), draw(st.integers(2, 6))))
            else:
                sm = lambda: _num(T, Fraction(draw(st.integers(-6, 8)), draw(st.sampled_from([1, 1, 2, 3]))))
                ex = [draw(st.sampled_from(['plus', 'minus', 'times', 'div'])), sm(), sm()]
            return ['rpow', sub(T), ex]
        if op == 'of_nat':
            return ['of_nat', T, draw(expr('nat', understood, min(depth - 1, 2), var_pool))]
        if op == 'of_int':
            return ['of_int', draw(expr('int', understood, min(depth - 1, 2), var_pool))]
        if op == 'fn':
            return ['fn', draw(st.sampled_from(FUNS[:6] + ('abs', 'atn', 'sqrt', 'sqrt', 'exp', 'log') + FUNS[6:9])),
                    sub(T)]
        return ['pi']

    def value_of(e):
        try:
            return arith.eval_num(build_expr(e)[0])
        except CaseInvalid:
            return None

    @st.composite
    def retrying(draw, make, macro):
        for _ in range(20):
            try:
                return draw(make())
            except _TooBig:
                continue
        return {'macro': macro, 'goal': ['eq', _num(MACROS[macro]['ty'], 1), _num(MACROS[macro]['ty'], 1)]}

    def ground_case(macro):
        return retrying(lambda: ground_case_1(macro), macro)

    @st.composite
    def ground_case_1(draw, macro):
        spec = MACROS[macro]
        intended = spec['ty']
        T = intended if draw(st.integers(0, 9)) < 6 else draw(st.sampled_from([x for x in TYPES if x != intended]))
        depth = draw(st.sampled_from(DEPTHS))
        lhs = draw(expr(T, spec['ops'], depth))
        v = value_of(lhs)
        mode = draw(st.sampled_from(['true', 'true', 'true', 'true', 'alt', 'alt', 'alt', 'confuse', 'confuse', 'confuse',
                                     'near', 'near', 'float', 'float', 'off1', 'random', 'expr', 'fnconf', 'fnconf']))
        base = None if v is None else arith.midpoint(v)
        rhs = None
        force_rel = None
        if mode != 'fnconf' and 'fn' in spec['ops'] and draw(st.integers(0, 3)) == 0:
            mode = 'fnconf'
        if mode == 'alt':
            # the value under the other subtraction semantics (what an evaluator written for another type computes)
            w = alt_value(lhs, trunc=(T != 'nat'))
            if w is not None and _clamp(T, w) == w:
                rhs = _num(T, w)
        if mode == 'confuse':
            # the value a slightly broken evaluator would compute (one operator confusion that changes the value),
            # at either minus semantics
            tr = (T == 'nat') if draw(st.integers(0, 3)) else (T != 'nat')
            cands = []
            for c in CONFUSIONS:
                w = alt_value(lhs, tr, c)
                if w is not None and w != v and _clamp(T, w) == w and w not in cands:
                    cands.append(w)
            if cands:
                rhs = _num(T, draw(st.sampled_from(cands)))
        if rhs is None and base is not None and mode in ('true', 'alt', 'confuse'):
            if isinstance(v, Fraction):
                rhs = _num(T, _clamp(T, base))
            else:   # irrational: a rational that is certainly on one side
                lo, hi = arith.endpoints(v)
                digits = draw(st.integers(3, 40))
                q = Fraction(10) ** digits
                rhs = _num(T, Fraction(math.floor(lo * q) - draw(st.integers(0, 1)), q)
                           if draw(st.booleans()) else Fraction(math.ceil(hi * q) + draw(st.integers(0, 1)), q))
        if base is not None and mode == 'fnconf':
            # a rational strictly between the true value and the value with ONE function confused with its sibling
            # (sec <-> csc, sin <-> cos, tan <-> cot, exp <-> log, sqrt -> identity): what a mis-wired evaluator computes
            swaps = {'sec': 'csc', 'csc': 'sec', 'sin': 'cos', 'cos': 'sin', 'tan': 'cot', 'cot': 'tan', 'exp': 'log',
                     'log': 'exp', 'sqrt': 'abs', 'atn': 'tan'}
            sites = []

            def walk(e, path):
                if isinstance(e, list):
                    if e and e[0] == 'fn' and e[1] in swaps:
                        sites.append(path)
                    for i, x in enumerate(e):
                        walk(x, path + (i,))
            walk(lhs, ())
            if not sites and T == 'real' and 'fn' in spec['ops']:
                # no function in the drawn expression: apply one to a small constant
                lhs = ['fn', draw(st.sampled_from(sorted(swaps))), _num(T, Fraction(draw(st.integers(1, 12)), draw(st.sampled_from([1, 2, 3, 4]))))]
                v = value_of(lhs)
                base = None if v is None else arith.midpoint(v)
                sites = [()] if base is not None else []
            if sites:
                site = draw(st.sampled_from(sites))
                conf = json.loads(json.dumps(lhs))
                node = conf
                for i in site:
                    node = node[i]
                node[1] = swaps[node[1]]
                w = value_of(conf)
                if w is not None:
                    wb = arith.midpoint(w)
                    if wb != base:
                        mid = (base + wb) / 2
                        for q in (10, 1000, 10 ** 6, 10 ** 12):       # a short rational strictly in between, if there is one
                            r = Fraction(round(mid * q), q)
                            if min(base, wb) < r < max(base, wb):
                                mid = r
                                break
                        rhs = _num(T, mid) if T == 'real' else None
                        if rhs is not None and draw(st.integers(0, 3)):
                            # false as it stands, true for the confused evaluator
                            force_rel = 'gt' if base < wb else 'lt'
        if rhs is None and base is not None and mode == 'near':
            if T == 'real':
                k = draw(st.integers(16, 40))
                mag = max(abs(base), Fraction(1, 10 ** 30))
                # decimal magnitude from bit lengths (str() of a huge integer exceeds Python's conversion limit)
                e10 = int((mag.numerator.bit_length() - mag.denominator.bit_length()) * 0.30103)
                delta = Fraction(10) ** (e10 - k)
                rhs = _num(T, base + draw(st.sampled_from([-1, 1])) * delta)
            else:
                rhs = _num(T, _clamp(T, base + draw(st.sampled_from([-1, 1]))))
        if rhs is None and base is not None and mode == 'float' and T == 'real':
            try:
                fl = float(base)
                fl = draw(st.sampled_from([fl, fl, math.nextafter(fl, math.inf), math.nextafter(fl, -math.inf)]))
                if math.isfinite(fl):
                    rhs = _num(T, Fraction(fl))
            except OverflowError:
                pass
        if rhs is None and base is not None and mode == 'off1':
            rhs = _num(T, _clamp(T, base + draw(st.sampled_from([-1, 1, 2, -2]))))
        if rhs is None and mode == 'expr':
            rhs = draw(expr(T, spec['ops'], draw(st.integers(0, 2))))
        if rhs is None:
            rhs = _num(T, draw(leaf_value(T)))
        rels = list(spec['rels'])
        rel = draw(st.sampled_from(rels)) if draw(st.integers(0, 14)) else draw(st.sampled_from(('eq',) + CMP))
        a, b = (lhs, rhs) if draw(st.integers(0, 3)) else (rhs, lhs)
        g = [rel, a, b]
        if force_rel is not None and force_rel in rels:
            g = [force_rel, lhs, rhs]
        pneg = 4 if spec['neg'] else 20
        if draw(st.integers(0, pneg - 1)) == 0:
            g = ['not', g]
            if draw(st.integers(0, 19)) == 0:
                g = ['not', g]
        return {'macro': macro, 'goal': g}

    # ---- real_norm: an expression against a rearrangement of itself -------------------------------------------
    VARS = [('x', 'real'), ('y', 'real'), ('z', 'real'), ('n', 'nat'), ('m', 'nat')]
    POLY_OPS = ('plus', 'minus', 'times', 'neg', 'div', 'pow', 'of_nat')

    @st.composite
    def poly_expr(draw, depth):
        k = draw(st.integers(0, 19))
        if k == 0:
            return ['fn', draw(st.sampled_from(('sqrt', 'sin', 'exp', 'abs'))), draw(poly_expr(min(depth, 1)))]
        if k == 1:
            b = _num('real', draw(st.sampled_from([0, 1, 2, 4, 8, 9, 27, Fraction(1, 4), Fraction(9, 4), 3, 10, -8, -1])))
            ex = _num('real', draw(st.sampled_from([Fraction(1, 2), Fraction(1, 3), Fraction(3, 2), Fraction(-1, 2), 2, -1, 0,
                                                    Fraction(2, 3), 3])))
            return ['rpow', b, ex]
        if k == 2:
            den = draw(st.sampled_from([_num('real', 0), ['var', 'real', 'y'], ['minus', _num('real', 2), _num('real', 2)],
                                        ['plus', ['var', 'real', 'x'], _num('real', 1)]]))
            return ['div', draw(poly_expr(min(depth, 1))), den]
        if k in (3, 4, 5):
            # of_nat of a ground natural-number expression (truncated subtraction inside a real polynomial)
            a, b = draw(expr('nat', ('plus', 'minus', 'times'), 1)), draw(expr('nat', ('plus', 'minus', 'times'), 1))
            inner = ['minus', a, b] if k != 4 else draw(expr('nat', ('plus', 'minus', 'times', 'suc'), 2))
            e = ['of_nat', 'real', inner]
            if draw(st.booleans()):
                e = [draw(st.sampled_from(['plus', 'times', 'minus'])), draw(poly_expr(min(depth, 1))), e]
            return e
        e = draw(expr('real', POLY_OPS, depth, VARS))
        return e

    def rearrange(draw, e, budget):
        """A term equal to e in HOL (total real functions), built by local algebraic moves."""
        from hypothesis import strategies as st2
        tag = e[0]
        if budget[0] <= 0 or tag in ('num', 'var', 'pi', 'of_int', 'fn', 'rpow', 'inv', 'suc'):
            if tag in ('num', 'var', 'pi') or budget[0] <= 0:
                k = draw(st2.integers(0, 11))
                if k == 0 and tag != 'pi' and e[1] == 'real':
                    return ['plus', e, _num('real', 0)]
                if k == 1 and tag != 'pi' and e[1] == 'real':
                    return ['times', _num('real', 1), e]
            return e
        budget[0] -= 1
        k = draw(st2.integers(0, 5))
        if "'var'" not in str(e) and draw(st2.integers(0, 3)) == 0:
            # constant folding: a ground subterm against its value (exact values only)
            v = value_of(e)
            Te = build_type(e)
            if isinstance(v, Fraction) and Te is not None and _clamp(Te, v) == v:
                return _num(Te, v)
        if tag in ('plus', 'times'):
            a, b = rearrange(draw, e[1], budget), rearrange(draw, e[2], budget)
            if k == 0:
                return [tag, b, a]
            if k == 1 and a[0] == tag:
                return [tag, a[1], [tag, a[2], b]]
            if k == 2 and b[0] == tag:
                return [tag, [tag, a, b[1]], b[2]]
            if k == 3 and tag == 'times' and b[0] in ('plus', 'minus'):
                return [b[0], ['times', a, b[1]], ['times', a, b[2]]]
            if k == 4 and tag == 'times' and a[0] in ('plus', 'minus'):
                return [a[0], ['times', a[1], b], ['times', a[2], b]]
            return [tag, a, b]
        if tag == 'minus':
            a, b = rearrange(draw, e[1], budget), rearrange(draw, e[2], budget)
            if build_type(a) != 'real':
                return ['minus', a, b]
            if k == 0:
                return ['plus', a, ['neg', b]]
            if k == 1:
                return ['neg', ['minus', b, a]]
            if k == 2:
                return ['plus', ['times', _num('real', -1), b], a]
            return ['minus', a, b]
        if tag == 'neg':
            a = rearrange(draw, e[1], budget)
            if build_type(a) != 'real':
                return ['neg', a]
            if k == 0:
                return ['times', _num('real', -1), a]
            if k == 1:
                return ['minus', _num('real', 0), a]
            return ['neg', a]
        if tag == 'div':
            a, b = rearrange(draw, e[1], budget), e[2]
            if k < 2:
                return ['times', a, ['div', _num('real', 1), b]]
            if k == 2 and a[0] in ('plus', 'minus'):
                return [a[0], ['div', a[1], b], ['div', a[2], b]]
            return ['div', a, b]
        if tag == 'pow':
            a = rearrange(draw, e[1], budget)
            if e[2] == _num('nat', 2) and k < 3:
                return ['times', a, a]
            if e[2] == _num('nat', 3) and k < 2:
                return ['times', a, ['times', a, a]]
            if e[2][0] == 'num' and k == 3:
                nn = int(Fraction(e[2][2]))
                if nn >= 1:
                    return ['times', ['pow', a, _num('nat', nn - 1)], a]
            return ['pow', a, e[2]]
        if tag == 'of_nat':
            a = e[2]
            if a[0] in ('plus', 'times') and k < 3:
                return [a[0], ['of_nat', e[1], a[1]], ['of_nat', e[1], a[2]]]
            return e
        return e

    def build_type(e):
        try:
            return build_expr(e)[1]
        except CaseInvalid:
            return None

    def perturb(draw, e, want_ground=False):
        """Change one numeral (or one operator) somewhere in e; with want_ground: replace a ground subterm by its
        value under a wrong semantics (other truncation rule, or one operator confusion)."""
        from hypothesis import strategies as st2
        paths = []

        def walk(x, p):
            if isinstance(x, list):
                if x and x[0] in ('num', 'plus', 'minus', 'var'):
                    paths.append(p)
                for i, y in enumerate(x[1:], 1):
                    walk(y, p + (i,))
        walk(e, ())
        if not paths:
            return e
        ground = []

        def walk2(x, p):
            if isinstance(x, list) and x and isinstance(x[0], str):
                if x[0] not in ('num', 'var', 'pi') and "'var'" not in str(x):
                    ground.append(p)
                for i, y in enumerate(x[1:], 1):
                    walk2(y, p + (i,))
        walk2(e, ())
        import json
        if ground and want_ground:
            # a ground subterm replaced by its value under a wrong semantics; prefer subterms on which the two
            # subtraction rules disagree
            sens = []
            for q in ground:
                node = e
                for i in q:
                    node = node[i]
                if alt_value(node, True) != alt_value(node, False):
                    sens.append(q)
            p = draw(st2.sampled_from(sens if sens and draw(st2.integers(0, 3)) else ground))
            e = json.loads(json.dumps(e))
            cur = e
            for i in p[:-1]:
                cur = cur[i]
            node = cur[p[-1]] if p else e
            Te = build_type(node)
            v = value_of(node)
            cands = []
            for confs in ((None,), CONFUSIONS):
                for tr in (True, False):
                    for c in confs:
                        w = alt_value(node, tr, c)
                        if w is not None and w != v and Te is not None and _clamp(Te, w) == w and w not in cands:
                            cands.append(w)
                if cands and draw(st2.booleans()):
                    break          # half of the time: only the other truncation rule
            if cands:
                new = _num(Te, draw(st2.sampled_from(cands)))
                if p:
                    cur[p[-1]] = new
                    return e
                return new
        p = draw(st2.sampled_from(paths))
        e = json.loads(json.dumps(e))
        cur = e
        for i in p[:-1]:
            cur = cur[i]
        node = cur[p[-1]] if p else e
        if node[0] == 'num':
            v = Fraction(node[2])
            d = draw(st2.sampled_from([1, -1, Fraction(1, 10 ** 17), 2]))
            new = ['num', node[1], _fr(_clamp(node[1], v + d) if node[1] != 'real' else v + d)]
        elif node[0] == 'var':
            new = ['times', _num(node[1], 2), node] if draw(st2.booleans()) else ['plus', node, _num(node[1], 1)]
        else:
            new = [{'plus': 'minus', 'minus': 'plus'}[node[0]]] + node[1:]
        if p:
            cur[p[-1]] = new
            return e
        return new

    @st.composite
    def norm_case(draw):
        depth = draw(st.sampled_from(DEPTHS[1:]))
        lhs = draw(poly_expr(depth))
        T = build_type(lhs) or 'real'
        rhs = rearrange(draw, lhs, [draw(st.integers(1, 8))])
        mode = draw(st.integers(0, 9))
        if mode < 2:
            rhs = perturb(draw, rhs)
        elif mode < 4:
            rhs = perturb(draw, rhs if draw(st.booleans()) else lhs, want_ground=True)
        elif mode == 4:
            # ground constant on the right: the value under exact / float semantics
            v = value_of(lhs)
            if v is not None:
                base = arith.midpoint(v)
                try:
                    rhs = _num('real', base if isinstance(v, Fraction) else Fraction(float(base)))
                except OverflowError:
                    pass
        if T != 'real' or build_type(rhs) != 'real':
            rhs = lhs
        if draw(st.integers(0, 11)) == 0:     # foreign type: the same identity over nat / int
            to = draw(st.sampled_from(['nat', 'int']))
            lhs, rhs = retype(lhs, 'real', to), retype(rhs, 'real', to)
        g = ['eq', lhs, rhs] if draw(st.integers(0, 3)) else ['eq', rhs, lhs]
        return {'macro': 'real_norm', 'goal': g}

    # ---- real_eq_comparison: a linear comparison against a rewritten form ---------------------------------------
    @st.composite
    def lin(draw, T, nterms):
        vs = ['x', 'y', 'z']
        terms = []
        for _ in range(nterms):
            k = draw(st.integers(0, 9))
            c = draw(st.sampled_from([1, 2, 3, -1, -2, 5, 7])) if T != 'real' or k < 7 else \
                Fraction(draw(st.integers(-9, 9)), draw(st.integers(1, 5)))
            if T == 'nat':
                c = abs(c)
            if k < 8:
                v = ['var', T, draw(st.sampled_from(vs))]
                terms.append(v if c == 1 and draw(st.booleans()) else ['times', _num(T, c), v])
            else:
                terms.append(_num(T, c))
        e = terms[0]
        for t in terms[1:]:
            e = [draw(st.sampled_from(['plus', 'plus', 'minus'])), e, t]
        return e

    FLIP = {'lt': 'gt', 'le': 'ge', 'gt': 'lt', 'ge': 'le', 'eq': 'eq'}
    WEAK = {'lt': 'le', 'le': 'lt', 'gt': 'ge', 'ge': 'gt', 'eq': 'le'}

    @st.composite
    def cmp_case(draw):
        T = 'real' if draw(st.integers(0, 9)) < 8 else draw(st.sampled_from(['int', 'nat']))
        rel = draw(st.sampled_from(CMP + ('lt', 'ge', 'eq')))
        L, R = draw(lin(T, draw(st.integers(1, 3)))), draw(lin(T, draw(st.integers(1, 2))))
        k = draw(st.integers(0, 7))
        if k == 0:
            rel2, L2, R2 = FLIP[rel], R, L
        elif k == 1:
            rel2, L2, R2 = rel, ['minus', L, R], _num(T, 0)
        elif k == 2:
            c = _num(T, draw(st.integers(1, 9)))
            rel2, L2, R2 = rel, ['plus', L, c], ['plus', R, c]
        elif k == 3:
            c = draw(st.sampled_from([2, 3, -1, -2, Fraction(1, 2)])) if T == 'real' else draw(st.sampled_from([2, 3]))
            rel2 = rel if c > 0 else FLIP[rel]
            L2, R2 = ['times', _num(T, c), L], ['times', _num(T, c), R]
        elif k == 4:
            rel2, L2, R2 = FLIP[rel], ['neg', L], ['neg', R]
            if T == 'nat':
                rel2, L2, R2 = rel, L, R
        elif k == 5:
            rel2, L2, R2 = FLIP[rel], ['minus', R, L], _num(T, 0)
        elif k == 6:
            rel2, L2, R2 = rel, L, R
        else:
            rel2, L2, R2 = FLIP[rel], _num(T, 0), ['minus', L, R]
        bad = draw(st.integers(0, 9))
        if bad == 0:
            rel2 = FLIP[rel2] if rel2 != 'eq' else 'le'
        elif bad == 1:
            rel2 = WEAK[rel2]
        elif bad == 2:
            R2 = ['plus', R2, _num(T, draw(st.sampled_from([1, 1, 2])))]
        g = ['iff', [rel, L, R], [rel2, L2, R2]]
        if draw(st.integers(0, 5)) == 0:
            g = ['iff', g[2], g[1]]
        return {'macro': 'real_eq_comparison', 'goal': g}

    def for_macro(macro):
        if macro == 'real_norm':
            return retrying(lambda: st.one_of(norm_case(), norm_case(), norm_case(), ground_case_norm()), macro)
        if macro == 'real_eq_comparison':
            return retrying(cmp_case, macro)
        return ground_case(macro)

    @st.composite
    def ground_case_norm(draw):
        c = draw(ground_case_1('real_eval'))
        g = c['goal']
        while g[0] == 'not':
            g = g[1]
        return {'macro': 'real_norm', 'goal': ['eq', g[1], g[2]]}

    return for_macro


# ---------------------------------------------------------------------------------------------- small enumerated domain
SMALL_LEAVES = {'nat': [0, 1, 3], 'int': [0, 2, -3], 'real': [0, 2, -3, Fraction(1, 2)]}
SMALL_LEAVES_THOROUGH = {'nat': [0, 1, 2, 3], 'int': [0, 1, 2, -3], 'real': [0, 1, 2, -3, Fraction(1, 2)]}
SMALL_BINOPS = {'nat': ['plus', 'minus', 'times'], 'int': ['plus', 'minus', 'times'],
                'real': ['plus', 'minus', 'times', 'div', 'rpow']}


def small_exprs(T, LEAVES=None):
    """Every expression with one or two nested binary operators over SMALL_LEAVES[T] (both nestings), every
    one-operator expression under each unary operator, powers with exponents 0, 2, 3, and of_nat / of_int of
    one-operator natural / integer expressions."""
    LEAVES = LEAVES or SMALL_LEAVES
    L = [_num(T, v) for v in LEAVES[T]]
    B = [[op, a, b] for op in SMALL_BINOPS[T] for a in L for b in L]
    out = list(B)
    for a in L:
        for n in (0, 2, 3):
            out.append(['pow', a, _num('nat', n)])
    unary = ['suc'] if T == 'nat' else ['neg'] if T == 'int' else ['neg', 'inv']
    for u in unary:
        out += [[u, a] for a in L] + [[u, e] for e in B]
    for op in SMALL_BINOPS[T]:
        for e in B:
            for c in L:
                out.append([op, e, c])
                out.append([op, c, e])
    if T != 'nat':
        NL = [_num('nat', v) for v in LEAVES['nat']]
        NB = [[op, a, b] for op in SMALL_BINOPS['nat'] for a in NL for b in NL]
        for nb in NB:
            out.append(['of_nat', T, nb])
            out.append(['plus', ['of_nat', T, nb], L[1]])
    if T == 'real':
        IL = [_num('int', v) for v in LEAVES['int']]
        for ib in [[op, a, b] for op in SMALL_BINOPS['int'] for a in IL for b in IL]:
            out.append(['of_int', ib])
    if T != 'nat':
        # the numeral 1 (special-cased in many places) and, for reals, the only "n / 0" shapes that holpy regards as
        # numerals in normal form: 1 / 0 and -(1 / 0)
        one = _num(T, 1)
        specials = [one]
        if T == 'real':
            d0 = ['div', one, _num(T, 0)]
            specials += [d0, ['neg', d0]]
            out += [d0, ['neg', d0], ['inv', d0], ['div', one, ['minus', one, one]]]
        for sp in specials:
            for op in SMALL_BINOPS[T]:
                for c in L + [one]:
                    out.append([op, sp, c])
                    out.append([op, c, sp])
    return out


def small_cases(macro, T, LEAVES=None):
    """Deterministic enumeration: every small expression of type T against its true value, against its value
    under wrong semantics (other truncation rule, operator confusions) and against value + 1; the relation rotates
    through the relations the macro is written for (negated every third time where the macro handles negation)."""
    spec = MACROS[macro]
    rels = list(spec['rels']) if spec['rels'] != ('iff',) else ['eq']
    idx = 0
    for e in small_exprs(T, LEAVES):
        try:
            v = arith.eval_num(build_expr(e)[0])
        except CaseInvalid:
            continue
        cands = []
        if isinstance(v, Fraction):
            cands.append(v)
        for tr in (True, False):
            for c in (None,) + CONFUSIONS:
                w = alt_value(e, tr, c)
                if w is not None and _clamp(T, w) == w and w not in cands:
                    cands.append(w)
        cands = cands[:3]
        if isinstance(v, Fraction) and v + 1 not in cands:
            cands.append(v + 1)
        for r in cands:
            try:
                rhs = _num(T, r)
            except _TooBig:
                continue
            rel = rels[idx % len(rels)]
            g = [rel, e, rhs] if idx % 4 else [rel, rhs, e]
            if spec['neg'] and idx % 3 == 0:
                g = ['not', g]
            idx += 1
            yield {'macro': macro, 'goal': g}


# ---------------------------------------------------------------------------------------------- exploration
QUICK = {'nat_eval': 600, 'int_eval': 600, 'int_const_ineq': 600, 'real_eval': 800, 'real_const_eq': 600,
         'real_compare': 600, 'real_const_ineq': 600, 'const_inequality': 1200, 'real_norm': 1200,
         'real_eq_comparison': 300}
THOROUGH_FACTOR = 15


def shards(tier):
    out = []
    for macro, n in QUICK.items():
        if tier == 'quick':
            k = 6 if macro == 'real_eq_comparison' else 4 if macro in ('const_inequality', 'real_norm') else 2
        else:
            n, k = n * THOROUGH_FACTOR, 16
        for i, cnt in enumerate(harness.split(n, k)):
            out.append({'kind': 'random', 'macro': macro, 'n': cnt, 'i': i})
    for macro in MACROS:
        if macro != 'real_eq_comparison':
            for T in TYPES:
                if T not in (MACROS[macro]['ty'], 'nat') and macro in ('int_const_ineq', 'real_const_ineq', 'real_norm'):
                    continue        # these three check the goal type first: of the foreign types only nat is enumerated
                parts = (3 if T == 'real' else 1) * (1 if tier == 'quick' else 4)
                for part in range(parts):
                    out.append({'kind': 'small', 'macro': macro, 'ty': T, 'part': part, 'parts': parts})
    # slow shards first so that the pool stays balanced
    out.sort(key=lambda d: (d.get('macro') != 'real_eq_comparison', d['kind'] != 'random'))
    return out


def run_shard(desc, seed, tier, H):
    if desc['kind'] == 'small':
        n = 0
        leaves = SMALL_LEAVES if tier == 'quick' else SMALL_LEAVES_THOROUGH
        for j, case in enumerate(small_cases(desc['macro'], desc['ty'], leaves)):
            if j % desc.get('parts', 1) != desc.get('part', 0):
                continue
            run_case(case, H)
            n += 1
        H.note('small_enumerated_cases', n)
        if desc.get('part', 0) == 0:
            H.mark_exhaustive('%s at %s: every expression with <= 2 nested binary operators over the leaves %s '
                              '(+ - * / real-power, Suc uminus inverse, ^0 ^2 ^3, of_nat, of_int, 1/0) against its true '
                              'value, its value under wrong semantics, and value + 1'
                              % (desc['macro'], desc['ty'], {k: [str(x) for x in v] for k, v in leaves.items()}))
        return
    strat = strategies(deep=(tier == 'thorough'))(desc['macro'])

    def body(case):
        try:
            run_case(case, H)
        except CaseInvalid:
            H.note('generated_case_invalid')
    harness.hyp_run(strat, body, desc['n'], seed)
