"""C04 — every proof macro's expansion checks and proves what its evaluation claims.

Case (JSON): {"theory": name, "thm": name, "item": k, "mut": [MUT...]}
The library theorem's recorded steps are replayed; the k-th macro step (in walk order) of the final proof gives
the triple (macro, args, premise sequents); MUT are deterministic mutations of that triple:
  ["perm", i, j] | ["drop", i] | ["dup", i] | ["weaken", i] | ["thm", n] | ["goal", j] | ["prem", i, j]
"""
import copy

from vlib import harness, ref, edit_lib
from vlib.harness import CaseInvalid, SelfTestError, time_limit, Timeout

ID = 'C04'
RULE = ("Triples (macro, args, premise sequents) harvested from the recorded proofs of library theorems: each theorem is "
        "replayed in its own theory context and every step of the final proof whose rule is a registered macro yields a "
        "triple; then mutated triples (premises permuted / dropped / duplicated / weakened by an extra hypothesis / "
        "replaced by another line's sequent; theorem-name arguments replaced; term arguments replaced by another "
        "line's statement); generated goals for the nat macros (nat_norm, nat_const_*) also at foreign numeric types; "
        "generated apply_theorem_for calls on every theorem of theory nat with a function-typed schematic variable, with "
        "instantiations drawn from a lambda-term grammar with redexes (one third directed: type variables at function "
        "types, predicates that apply their argument, arguments that are redexes contracting to an abstraction). "
        "Oracle (differential, both paths are the repo's own): ev = macro.eval(args, premises); "
        "expansion = macro.expand(...) checked by theory.check_proof at the default trust level inside a proof whose "
        "first lines are placeholders stating the premises. The statement quantifies over inputs for which the expansion "
        "IS produced: violations are: eval returns, macro.expand returns a proof, and the checker refuses that proof; or "
        "both return with different conclusions or with hypotheses not among eval's. "
        "Non-trivial: eval returned and the macro overrides eval, or the checked expansion used >= 3 primitive steps or a "
        "nested macro; distinct by (macro, printed args, printed premises).")
ASSUMPTIONS = [
    "macros are exercised on the argument/premise tuples that occur in recorded library proofs and on their mutations; "
    "macros that no recorded proof uses are listed as uncovered in the evidence notes",
    "macros whose get_proof_term raises NotImplementedError have no expansion and are only counted",
    "eval refusing where the expansion succeeds is outside the statement (counted)",
]
MAXTASKS = 4
SHRINK_BUDGET = 40

_C = {}


def setup():
    from server import server, method  # noqa
    _C['quick'] = edit_lib.load_corpus(edit_lib.QUICK_THEORIES)
    if sum(len(v) for v in _C['quick'].values()) < 50:
        raise SelfTestError('corpus too small')


def corpus_for(tier):
    if tier == 'thorough':
        if 'thorough' not in _C:
            _C['thorough'] = edit_lib.load_corpus(edit_lib.THOROUGH_THEORIES)
        return _C['thorough']
    return _C['quick']


_final_cache = {}


def final_state(theory_name, thm):
    from server import method
    key = (theory_name, thm)
    item, state = edit_lib.init_state(theory_name, thm)
    for s in item.steps:
        try:
            method.apply_method(state, dict(s))
            state.check_proof(compute_only=True)
        except Timeout:
            raise
        except Exception:
            break
    return item, state


def macro_items(state):
    from kernel import theory
    from kernel.thm import primitive_deriv
    out = []
    for pos, it in edit_lib.walk_items(state.prf):
        if it.rule in ('', 'sorry', 'subproof', 'theorem', 'variable') or it.rule in primitive_deriv:
            continue
        if theory.has_macro(it.rule):
            out.append((pos, it))
    return out


def copy_args(args):
    from kernel.term import Inst
    if isinstance(args, Inst):
        return copy.copy(args)
    if isinstance(args, tuple):
        return tuple(copy_args(a) for a in args)
    if isinstance(args, list):
        return [copy_args(a) for a in args]
    return args


def apply_mutations(muts, rule, args, prev_ths, state, pos):
    from kernel.term import Term, Var
    from kernel.thm import Thm
    from kernel.type import BoolType
    from kernel import theory
    prev_ths = list(prev_ths)
    kinds = []
    lines = [it for p, it in edit_lib.walk_items(state.prf) if it.th is not None]
    for m in muts:
        if not isinstance(m, list) or not m:
            raise CaseInvalid('mutation')
        k = m[0]
        n = len(prev_ths)
        if k == 'perm' and n >= 2:
            i, j = m[1] % n, m[2] % n
            prev_ths[i], prev_ths[j] = prev_ths[j], prev_ths[i]
        elif k == 'drop' and n >= 1:
            del prev_ths[m[1] % n]
        elif k == 'dup' and n >= 1:
            prev_ths.insert(m[1] % n, prev_ths[m[1] % n])
        elif k == 'weaken' and n >= 1:
            i = m[1] % n
            th = prev_ths[i]
            prev_ths[i] = Thm(th.prop, th.hyps, Var('verif_extra_hyp', BoolType))
        elif k == 'prem' and n >= 1 and lines:
            prev_ths[m[1] % n] = lines[m[2] % len(lines)].th
        elif k == 'thm':
            names = sorted(theory.thy.get_data('theorems'))
            new = names[m[1] % len(names)]
            if isinstance(args, str):
                args = new
            elif isinstance(args, tuple) and args and isinstance(args[0], str):
                args = (new,) + tuple(args[1:])
            else:
                continue
        elif k == 'goal' and lines:
            t = lines[m[1] % len(lines)].th.prop
            if isinstance(args, Term):
                args = t
            elif isinstance(args, tuple) and any(isinstance(a, Term) for a in args):
                lst = list(args)
                idx = [i for i, a in enumerate(lst) if isinstance(a, Term)]
                lst[idx[-1]] = t
                args = tuple(lst)
            else:
                continue
        else:
            continue
        kinds.append(k)
    return args, prev_ths, kinds


GEN_MACROS = ['nat_norm', 'nat_const_ineq', 'nat_const_less_eq', 'nat_const_less']


def run_gen_case(case, H):
    """Generated goals for the natural-number macros (also at foreign numeric types)."""
    from kernel import theory
    from vlib import codec, libsig
    sig = libsig.sig_for('real')
    theory.thy = sig['theory']
    rule = case.get('macro')
    if rule not in GEN_MACROS or not theory.has_macro(rule):
        raise CaseInvalid('macro')
    goal = codec.term_dec(case['goal'])
    if not ref.well_typed(ref.from_jterm(case['goal']), ref.BOOL):
        raise CaseInvalid('goal ill-typed')
    compare(case, rule, theory.get_macro(rule), goal, [], ['generated:' + case.get('klass', '?')], H)


_INST = {}


def inst_pool():
    """Theorems of theory nat with a function-typed schematic variable: name -> ([(svar, jtype)], [type variables])."""
    if 'pool' not in _INST:
        from kernel import theory
        from vlib import codec, libsig
        sig = libsig.sig_for('nat')
        theory.thy = sig['theory']
        pool = {}
        for name in sorted(theory.thy.get_data('theorems')):
            try:
                th = theory.get_theorem(name)
            except Exception:
                continue
            svars = th.prop.get_svars()
            if not svars or len(svars) > 4 or not any(v.T.is_fun() for v in svars) or th.prop.size() > 60:
                continue
            pool[name] = ([(v.name, codec.type_enc(v.T)) for v in svars], sorted(tv.name for tv in th.prop.get_stvars()))
        _INST['pool'] = pool
    return _INST['pool']


def run_inst_case(case, H):
    """apply_theorem_for on a theorem with higher-order schematic variables and generated instantiations (lambda
    terms with redexes, function-typed instances of the type variables)."""
    from kernel import theory
    from kernel.term import Inst
    from vlib import codec, libsig
    sig = libsig.sig_for('nat')
    theory.thy = sig['theory']
    name = case.get('theorem')
    if name not in inst_pool() or not isinstance(case.get('inst'), dict):
        raise CaseInvalid('theorem')
    inst = Inst()
    for k, j in sorted(case['inst'].items()):
        if not ref.well_typed(ref.from_jterm(j)):
            raise CaseInvalid('instantiation ill-typed')
        inst[k] = codec.term_dec(j)
    compare(case, 'apply_theorem_for', theory.get_macro('apply_theorem_for'), (name, inst), [], ['generated:instantiation'], H)


def run_case(case, H):
    from kernel import theory
    from kernel.proof import Proof, ProofItem, ItemID
    from kernel.report import ProofReport
    from kernel.theory import CheckProofException
    from kernel.macro import Macro
    if not isinstance(case, dict):
        raise CaseInvalid('case')
    if case.get('kind') == 'gen':
        return run_gen_case(case, H)
    if case.get('kind') == 'gen-inst':
        return run_inst_case(case, H)
    try:
        with time_limit(90):
            item, state = final_state(case['theory'], case['thm'])
    except Timeout:
        H.inconc('timeout-replay')
        return
    except CaseInvalid:
        raise
    except Exception as e:
        raise CaseInvalid('cannot replay: %r' % e)
    mis = macro_items(state)
    if not mis:
        H.note('no-macro-step')
        return
    k = case.get('item')
    todo = mis if k is None else [mis[k % len(mis)]]
    for pos, it in todo:
        run_triple(case, state, pos, it, H)


def run_triple(case, state, pos, it, H):
    from kernel import theory
    from kernel.proof import Proof, ProofItem, ItemID
    from kernel.report import ProofReport
    from kernel.macro import Macro
    rule = it.rule
    macro = theory.get_macro(rule)
    try:
        prev_ths = [state.prf.find_item(p).th for p in it.prevs]
    except Exception:
        return
    if any(th is None for th in prev_ths):
        return
    args, prev_ths, kinds = apply_mutations(case.get('mut') or [], rule, it.args, prev_ths, state, pos)
    sub = dict(case, item=None)
    sub['at'] = edit_lib.id_str(pos)
    compare(sub, rule, macro, args, prev_ths, kinds, H)


def compare(sub, rule, macro, args, prev_ths, kinds, H):
    from kernel import theory
    from kernel.proof import Proof, ProofItem, ItemID
    from kernel.report import ProofReport
    from kernel.macro import Macro
    mutated = bool(kinds)
    overrides_eval = type(macro).eval is not Macro.eval
    klass = ['macro:' + rule, 'mutated' if mutated else 'harvested']
    # ---- path 1: evaluation
    ev = None
    try:
        with time_limit(60):
            ev = macro.eval(copy_args(args), list(prev_ths))
    except Timeout:
        H.inconc('timeout-eval')
        return
    except Exception as e:
        ev_exc = e
    # ---- path 2: expansion, checked at the default trust level
    n = len(prev_ths)
    prf = Proof()
    for i, th in enumerate(prev_ths):
        prf.items.append(ProofItem(i, 'sorry', th=th))
    ex = None
    ex_err = None
    no_expansion = False
    not_produced = None
    rpt = ProofReport()
    try:
        with time_limit(120):
            try:
                subprf = macro.expand(ItemID((n,)), copy_args(args), [(ItemID((i,)), th) for i, th in enumerate(prev_ths)])
            except NotImplementedError:
                no_expansion = True
                subprf = None
            except Timeout:
                raise
            except Exception as e:
                # the statement quantifies over inputs for which the expansion IS produced
                not_produced = e
                subprf = None
            if subprf is not None:
                holder = ProofItem(n, 'subproof')
                holder.subproof = subprf
                prf.items.append(holder)
                try:
                    ex = theory.thy.check_proof(prf, rpt, check_level=0)
                except Timeout:
                    raise
                except Exception as e:
                    ex_err = e
    except Timeout:
        H.inconc('timeout-expansion')
        return
    if not_produced is not None:
        H.case(sub, False, klass + ['expansion-not-produced', 'eval-' + ('returned' if ev is not None else 'refused')],
               key=_key(rule, args, prev_ths))
        return
    if no_expansion:
        H.case(sub, False, klass + ['no-expansion'], key=_key(rule, args, prev_ths))
        return
    if ev is None:
        # eval refused: nothing is claimed for this input
        H.case(sub, False, klass + ['eval-refused', 'expansion-' + ('ok' if ex is not None else 'fails')], key=_key(rule, args, prev_ths))
        return
    nontrivial = overrides_eval or rpt.prim_steps >= 3 or bool(rpt.macros_expand) or bool(rpt.macros_eval)
    feat = 'mutated:' + '+'.join(sorted(set(kinds))) if mutated else 'harvested'
    src = feat
    if ex is None:
        H.violation('macro:%s:expansion-rejected-by-checker' % rule, sub,
                    '[%s] eval gives %s but the produced expansion does not check: %s: %s' % (src, ev, type(ex_err).__name__, str(getattr(ex_err, 'str', ex_err))[:300]))
    else:
        kev, kex = edit_lib.thm_key(ev), edit_lib.thm_key(ex)
        if kev[0] != kex[0]:
            H.violation('macro:%s:expansion-proves-other-conclusion' % rule, sub, '[%s] eval %s, expansion %s' % (src, ev, ex))
        elif not kex[1] <= kev[1]:
            H.violation('macro:%s:expansion-needs-extra-hypotheses' % rule, sub, '[%s] eval %s, expansion %s' % (src, ev, ex))
    H.case(sub, nontrivial, klass + (['overrides-eval'] if overrides_eval else []), key=_key(rule, args, prev_ths), sample=nontrivial and not mutated)


def _key(rule, args, prev_ths):
    try:
        return {'r': rule, 'a': str(args), 'p': [str(t) for t in prev_ths]}
    except Exception:
        return {'r': rule, 'a': repr(args)[:200]}


# ------------------------------------------------------------------ generation
def case_strategy(corpus):
    from hypothesis import strategies as st
    pool = [(th, nm) for th in sorted(corpus) for nm in corpus[th]]
    small = st.integers(0, 9)
    mut = st.one_of(st.tuples(st.just('perm'), small, small).map(list), st.tuples(st.just('drop'), small).map(list),
                    st.tuples(st.just('dup'), small).map(list), st.tuples(st.just('weaken'), small).map(list),
                    st.tuples(st.just('thm'), st.integers(0, 400)).map(list), st.tuples(st.just('goal'), small).map(list),
                    st.tuples(st.just('prem'), small, small).map(list))
    return st.tuples(st.sampled_from(pool), st.integers(0, 30), st.lists(mut, max_size=2)).map(
        lambda p: {'theory': p[0][0], 'thm': p[0][1], 'item': p[1], 'mut': p[2]})


def gen_strategy():
    from hypothesis import strategies as st
    from vlib import codec, libsig
    from vlib.codec import fun, BOOL
    NAT, INT, REAL = ["tc", "nat"], ["tc", "int"], ["tc", "real"]

    def binop(name, T, a, b, res=None):
        return ["app", ["app", ["c", name, fun(T, T, res or T)], a], b]

    @st.composite
    def poly(draw, T, depth):
        if depth <= 0 or draw(st.integers(0, 3)) == 0:
            if draw(st.booleans()):
                return ["v", draw(st.sampled_from(['x', 'y', 'z'])), T]
            return libsig.numeral(T, draw(st.integers(0, 5)))
        op = draw(st.sampled_from(['plus', 'plus', 'times', 'times', 'Suc']))
        if op == 'Suc' and T == NAT:
            return ["app", ["c", "Suc", fun(NAT, NAT)], draw(poly(T, depth - 1))]
        if op == 'Suc':
            op = 'plus'
        return binop(op, T, draw(poly(T, depth - 1)), draw(poly(T, depth - 1)))

    def shuffle(draw, t):
        # one AC / distribution-free rearrangement: swap arguments of + and * recursively
        if t[0] == 'app' and t[1][0] == 'app' and t[1][1][0] == 'c' and t[1][1][1] in ('plus', 'times'):
            a, b = shuffle(draw, t[1][2]), shuffle(draw, t[2])
            if draw(st.booleans()):
                a, b = b, a
            return ["app", ["app", t[1][1], a], b]
        return t

    @st.composite
    def cases(draw):
        macro = draw(st.sampled_from(GEN_MACROS))
        T = draw(st.sampled_from([NAT, NAT, NAT, INT, REAL]))
        klass = 'nat' if T == NAT else 'foreign-type'
        if macro == 'nat_norm':
            a = draw(poly(T, 3))
            b = shuffle(draw, a)
            if draw(st.integers(0, 3)) == 0:
                b = binop('plus', T, b, libsig.numeral(T, 1))
                klass += ':near-miss'
            goal = binop('equals', T, a, b, BOOL)
        else:
            m, n = draw(st.integers(0, 40)), draw(st.integers(0, 40))
            a, b = libsig.numeral(T, m), libsig.numeral(T, n)
            if macro == 'nat_const_ineq':
                goal = ["app", ["c", "neg", fun(BOOL, BOOL)], binop('equals', T, a, b, BOOL)]
            elif macro == 'nat_const_less_eq':
                goal = binop('less_eq', T, a, b, BOOL)
            else:
                goal = binop('less', T, a, b, BOOL)
        return {'kind': 'gen', 'macro': macro, 'goal': goal, 'klass': klass}
    return cases()


def inst_strategy():
    from hypothesis import strategies as st
    from vlib import gen
    from vlib.codec import fun, BOOL, jt_subst
    NAT = ["tc", "nat"]
    pool = inst_pool()
    sigc = list(gen.LOGIC_BASE) + [("zero", NAT), ("Suc", fun(NAT, NAT)), ("plus", fun(NAT, NAT, NAT))]
    opts = gen.Opts(sig=sigc, redex=True, atom_types=[NAT, BOOL], names=['x', 'y', 'f', 'g', 'm'], max_order=2)

    @st.composite
    def cases(draw):
        name = draw(st.sampled_from(sorted(pool)))
        svars, tvs = pool[name]
        sigma = {('stv', tv): draw(st.sampled_from([NAT, NAT, BOOL, fun(NAT, NAT), fun(NAT, BOOL)])) for tv in tvs}
        inst = {}
        directed = draw(st.integers(0, 2)) == 0
        if directed:
            # function-typed instances; predicates that APPLY their argument; arguments that are redexes whose
            # contractum is an abstraction (normalisation has to go on after the first contraction)
            sigma = {k: draw(st.sampled_from([fun(NAT, NAT), fun(NAT, BOOL)])) for k in sigma}
        for v, T in svars:
            Tv = jt_subst(T, sigma)
            if directed and Tv[0] == 'tc' and Tv[1] == 'fun' and Tv[2][:2] == ['tc', 'fun']:
                F, R = Tv[2], Tv[3]
                use = ["app", ["b", 0], draw(gen.terms(opts, F[2], (F,), 1))]          # f t
                if F[3] == R:
                    body = use
                elif R == BOOL:
                    body = ["app", ["app", ["c", "equals", fun(F[3], F[3], BOOL)], use], draw(gen.terms(opts, F[3], (F,), 1))]
                else:
                    body = draw(gen.terms(opts, R, (F,), 2))
                inst[v] = ["abs", "f", F, body]
            elif directed and Tv[:2] == ['tc', 'fun']:
                lam = ["abs", "y", Tv[2], draw(gen.terms(opts, Tv[3], (Tv[2],), 1))]
                inst[v] = draw(st.sampled_from([
                    ["app", ["abs", "g", Tv, ["b", 0]], lam],                                   # (%g. g) (%y. t)
                    ["app", ["abs", "d", NAT, ["abs", "y", Tv[2], draw(gen.terms(opts, Tv[3], (Tv[2], NAT), 1))]],
                     draw(gen.terms(opts, NAT, (), 1))],                                         # (%d y. t) e
                    lam]))
            elif draw(st.integers(0, 4)) > 0:
                inst[v] = draw(gen.terms(opts, Tv, (), draw(st.integers(1, 3))))
        return {'kind': 'gen-inst', 'theorem': name, 'inst': inst, 'directed': directed}
    return cases()


def shards(tier):
    if tier == 'quick':
        return [{'kind': 'harvest', 'part': i, 'parts': 16, 'stride': 4} for i in range(16)] + \
               [{'kind': 'mut', 'n': c, 'i': i} for i, c in enumerate(harness.split(900, 16))] + \
               [{'kind': 'gen', 'n': c, 'i': i} for i, c in enumerate(harness.split(1200, 4))] + \
               [{'kind': 'gen-inst', 'n': c, 'i': i} for i, c in enumerate(harness.split(1600, 8))]
    return [{'kind': 'harvest', 'part': i, 'parts': 48, 'stride': 2} for i in range(48)] + \
           [{'kind': 'mut', 'n': c, 'i': i} for i, c in enumerate(harness.split(6000, 48))] + \
           [{'kind': 'gen', 'n': c, 'i': i} for i, c in enumerate(harness.split(20000, 16))] + \
           [{'kind': 'gen-inst', 'n': c, 'i': i} for i, c in enumerate(harness.split(20000, 16))]


def run_shard(desc, seed, tier, H):
    corpus = corpus_for(tier)
    if desc['kind'] == 'harvest':
        pool = [(th, nm) for th in sorted(corpus) for nm in corpus[th]]
        offset = seed % desc['stride']
        mine = [p for i, p in enumerate(pool) if i % desc['parts'] == desc['part']]
        mine = [p for i, p in enumerate(mine) if i % desc['stride'] == offset]
        for th, nm in mine:
            try:
                run_case({'theory': th, 'thm': nm, 'item': None, 'mut': []}, H)
            except CaseInvalid:
                H.note('case-invalid')
        return

    def body(case):
        try:
            run_case(case, H)
        except CaseInvalid:
            H.note('case-invalid')
    strat = gen_strategy() if desc['kind'] == 'gen' else inst_strategy() if desc['kind'] == 'gen-inst' else case_strategy(corpus)
    harness.hyp_run(strat, body, desc['n'], seed)
