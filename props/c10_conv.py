"""C10 - conversions prove equations about the given term; normal forms are canonical.

Cases (JSON):
  {"kind": "conv",  "conv": D, "theory": name, "t": term, "conds": [{"prop": term, "how": "assume"|"sorry"}...], "gen": label}
  {"kind": "canon", "conv": D, "theory": name, "dom": "nat"|"real"|"conj"|"disj", "t": term, "t2": term, "gen": label}
D (conversion descriptor) ::= leaf name (string, see LEAVES) | ["rewr_conv", theorem, {"sym": bool, "conds": [index...]}]
  | ["auto_conv"] | ["real.combine_atom"] | ["real.norm_mult_monomials"]          (take all supplied conditions)
  | ["replace_conv", index] | ["rewr_pt", index, {"sym": bool}]        (the equation is the supplied condition theorem)
  | [c, D] for c in top_conv bottom_conv top_sweep_conv abs_conv sub_conv repeat_conv assums_conv arg_conv arg1_conv
    fun_conv binop_conv comb_conv try_conv | ["argn_conv", n, D] | ["then_conv", D, D] | ["else_conv", D, D]
  | ["every_conv", D, ...]
Terms are in the vlib.codec encoding.
"""
import contextlib
import gc
import json
import resource
import signal
import warnings
from fractions import Fraction

from vlib import harness, codec, ref, gen, arith, model
from vlib import c10_lib as L
from vlib.harness import CaseInvalid, SelfTestError, time_limit, Timeout
from vlib.codec import BOOL, fun
from vlib.c10_lib import NAT, INT, REAL, C, V, app, binop, rel, eq, neg, conj, disj, implies, num
from vlib.libsig import numeral

ID = 'C10'
RULE = ("(conversion, term) cases and canonicity pairs, all built by construction from typed grammars. Conversions: "
        "rewr_conv over a pool of 33 library equations of theories nat / logic (plain, sym=True, conditional with supplied "
        "condition theorems given as assumptions or as gaps, conditions about another instance, higher-order patterns with "
        "beta-redexes in the instance), rewr_conv / replace_conv with a supplied equation theorem, applied directly, along "
        "the exact path to a planted instance (arg/arg1/fun/abs/argn combinators through Suc, + , *, =, connectives, "
        "quantifiers, beta-redexes, if-then-else, lambda; instances mention the bound variables) or by top_conv / "
        "bottom_conv / top_sweep_conv / sub_conv / repeat_conv / assums_conv / then / else / every / binop / comb; beta_conv, "
        "beta_norm_conv, eta_conv over generated lambda terms with redexes; nat binary arithmetic (Suc_conv, add_conv, "
        "mult_conv on binary numerals up to 10^6), nat_conv / nat_eval_conv / nat_eq_conv on ground terms, nat.norm_full on "
        "polynomials with + * Suc numerals variables and atoms f x; integer simp_full / int_norm_conv / omega_simp_full_conv / "
        "omega_form_conv / int_eval_conv / norm_eq / int_simplex_form on integer polynomials and comparisons; real_norm_conv, "
        "real_eval_conv, auto_conv (real polynomials with rational coefficients, natural powers, division by constants, "
        "rational powers of a variable under a supplied x > 0), real comparison normalisers; proplogic nnf_conv / norm_full / "
        "sort_conj / sort_disj, logic conj_norm / disj_norm / norm_bool_expr / norm_conj_assoc on propositional formulas; "
        "fun_upd_eval_conv / fun_upd_norm_conv / fun_upd_norm_one_conv on update chains with numeral keys. Oracle per case: result is an "
        "equation whose left side is the input (holpy == and the independent alpha-equivalence), hypotheses and gaps come "
        "from the supplied conditions only, theory.check_proof accepts the exported proof and returns the same sequent, an "
        "overridden eval returns the same theorem, and both sides agree semantically (exact rational evaluation at those of 14 / 36 "
        "sample points that satisfy the hypotheses; all truth assignments; finite standard models for pure-logic terms; beta-eta "
        "equivalence for beta/eta conversions; table semantics of fun_upd). Canonicity pairs: one polynomial over nat or "
        "real (resp. one set of conjuncts / disjuncts) rendered twice (recursive commutativity, associativity, "
        "distribution, factoring, unit and zero insertion, numeral splitting, Suc x = x + 1, x - y = x + -1 * y, x / c = "
        "x * (1/c), x^k unfolded, a flat expanded rendering in drawn order; duplicated members); the two right-hand sides "
        "must be identical and normalising a right-hand side must return it unchanged. Non-trivial: the conversion "
        "changed the term, or the two renderings differ syntactically; distinct by canonical JSON of the case.")
ASSUMPTIONS = [
    "ConvException, AssertionError, NotImplementedError, RecursionError and holpy's Theory / Matcher / Tactic / type "
    "inference exceptions raised by get_proof_term are 'fails with its own error' and only counted; the kernel's "
    "InvalidDerivationException and Python run-time errors (IndexError, KeyError, TypeError, AttributeError, "
    "ZeroDivisionError, ValueError, ...) are reported as foreign exceptions; an exception of an overridden eval while "
    "get_proof_term succeeds is reported (the fast evaluation does not report the same equation)",
    "each conversion is exercised on its documented domain only: nat.norm_full without subtraction, canonicity only for "
    "nat / real polynomials whose atoms are variables or applications f x and for conjunctions / disjunctions given as "
    "sets of members; integer normalisers are checked for soundness, not for canonicity",
    "checker acceptance is theory.check_proof at the default check_level 0 (level-0 macros such as real_norm, real_eval, "
    "nat_eval, int_eval are evaluated, not expanded); their results are covered by the semantic check here",
    "semantic agreement is refutation only: a certain numeric / boolean disagreement at a concrete point is a violation, "
    "undecided evaluations (transcendental values, non-numeric atoms) are inconclusive",
    "auto's norm / solve caches are cleared before every case so that cases are independent and replayable",
    "a limit of 30 s of user CPU time per conversion call (60 s per proof check; the slowest generated case needs about 1 s) guards against divergence; hits are inconclusive, and a shard stops exploring after 4 of them",
]
SHRINK_SECONDS = 25
SHRINK_BUDGET = 200

_K = {}       # holpy modules
_THY = {}     # theory name -> Theory
RULES = {}    # theorem name -> pattern data (JSON)
THEORIES = ['logic_base', 'logic', 'nat', 'function', 'set', 'int', 'real', 'transcendentals', 'realintegral']

UNARY = ('top_conv', 'bottom_conv', 'top_sweep_conv', 'abs_conv', 'sub_conv', 'repeat_conv', 'assums_conv',
         'arg_conv', 'arg1_conv', 'fun_conv', 'binop_conv', 'comb_conv', 'try_conv')
LEAVES = {}

# rules used by the rewriting generators: name -> (theory, terminating under repetition, usable with sym)
RULE_POOL = {
    'nat': ['nat_plus_def_1', 'nat_plus_def_2', 'add_0_right', 'add_comm', 'add_assoc', 'mult_comm', 'mult_1_left',
            'mult_1_right', 'mult_0_right', 'distrib_l', 'distrib_r', 'add_1_right', 'add_1_left', 'nat_one_def',
            'min_simp1', 'if_P', 'if_not_P', 'eq_sym_eq', 'double_neg', 'de_morgan_thm1', 'conj_comm', 'not_all',
            'not_exists', 'nat_of_nat_def', 'eta_conversion'],
    'logic': ['double_neg', 'de_morgan_thm1', 'de_morgan_thm2', 'conj_comm', 'disj_comm', 'conj_assoc', 'not_all', 'not_exists',
              'if_P', 'if_not_P', 'eq_sym_eq', 'eta_conversion', 'eq_true', 'not_true', 'neg_iff'],
}
TERMINATING = {'nat_plus_def_1', 'nat_plus_def_2', 'add_0_right', 'mult_1_left', 'mult_1_right', 'mult_0_right',
               'add_1_right', 'add_1_left', 'double_neg', 'de_morgan_thm1', 'de_morgan_thm2', 'not_all', 'not_exists', 'if_P',
               'if_not_P', 'min_simp1', 'nat_of_nat_def', 'eta_conversion', 'not_true', 'distrib_l', 'distrib_r'}
SYM_OK = {'nat_plus_def_1', 'add_0_right', 'mult_1_left', 'mult_1_right', 'add_1_right', 'add_1_left', 'nat_one_def',
          'add_assoc', 'add_comm', 'distrib_l', 'mult_0_right', 'double_neg', 'conj_comm', 'conj_assoc', 'not_all',
          'eta_conversion', 'eq_true'}


# ====================================================================================================== setup
def setup():
    import hypothesis  # noqa: F401
    from hypothesis import strategies  # noqa: F401
    warnings.filterwarnings('ignore', category=SyntaxWarning)
    try:
        from hypothesis.errors import HypothesisDeprecationWarning
        warnings.filterwarnings('ignore', category=HypothesisDeprecationWarning)
    except ImportError:
        pass
    from data import nat, integer, real, proplogic, function   # noqa: F401
    from integral import inequality                           # noqa: F401
    from logic import basic, conv, auto, logic
    from kernel import theory, term, thm, proofterm, report
    from kernel import type as htype
    for name in THEORIES:
        basic.load_theory(name)
        _THY[name] = theory.thy
    _K.update(nat=nat, integer=integer, real=real, proplogic=proplogic, function=function, conv=conv, auto=auto,
              logic=logic, theory=theory, term=term, thm=thm, proofterm=proofterm, report=report, htype=htype)
    LEAVES.update({
        'all_conv': conv.all_conv, 'no_conv': conv.no_conv, 'beta_conv': conv.beta_conv,
        'beta_norm_conv': conv.beta_norm_conv, 'eta_conv': conv.eta_conv,
        'nat.Suc_conv': nat.Suc_conv, 'nat.add_conv': nat.add_conv, 'nat.mult_conv': nat.mult_conv,
        'nat.nat_conv': nat.nat_conv, 'nat.nat_eval_conv': nat.nat_eval_conv, 'nat.norm_full': nat.norm_full,
        'nat.nat_eq_conv': nat.nat_eq_conv,
        'integer.int_norm_conv': integer.int_norm_conv, 'integer.simp_full': integer.simp_full,
        'integer.omega_simp_full_conv': integer.omega_simp_full_conv, 'integer.omega_form_conv': integer.omega_form_conv,
        'integer.int_eval_conv': integer.int_eval_conv, 'integer.norm_eq': integer.norm_eq,
        'integer.int_simplex_form': integer.int_simplex_form, 'integer.int_norm_neg_compares': integer.int_norm_neg_compares,
        'integer.int_const_compares': integer.int_const_compares, 'integer.int_norm_eq': integer.int_norm_eq,
        'integer.int_gcd_compares': integer.int_gcd_compares,
        'real.real_norm_conv': real.real_norm_conv, 'real.real_eval_conv': real.real_eval_conv,
        'real.norm_real_ineq_conv': real.norm_real_ineq_conv, 'real.norm_neg_real_ineq_conv': real.norm_neg_real_ineq_conv,
        'real.real_norm_comparison': real.real_norm_comparison, 'real.real_simplex_form': real.real_simplex_form,
        'real.real_const_compares': real.real_const_compares,
        'proplogic.nnf_conv': proplogic.nnf_conv, 'proplogic.norm_full': proplogic.norm_full,
        'proplogic.sort_conj': proplogic.sort_conj, 'proplogic.sort_disj': proplogic.sort_disj,
        'logic.conj_norm': logic.conj_norm, 'logic.disj_norm': logic.disj_norm,
        'logic.norm_bool_expr': logic.norm_bool_expr, 'logic.norm_conj_assoc': logic.norm_conj_assoc,
        'function.fun_upd_eval_conv': function.fun_upd_eval_conv, 'function.fun_upd_norm_conv': function.fun_upd_norm_conv,
        'function.fun_upd_norm_one_conv': function.fun_upd_norm_one_conv,
    })
    # rule patterns as JSON
    for thy_name, names in RULE_POOL.items():
        theory.thy = _THY[thy_name]
        for nm in names:
            try:
                th = theory.get_theorem(nm)
            except Exception:
                raise SelfTestError('rule %s not in theory %s' % (nm, thy_name))
            As, Cn = th.prop.strip_implies()
            if not Cn.is_equals():
                raise SelfTestError('rule %s is not an equation' % nm)
            RULES[nm] = {'As': [codec.term_enc(a) for a in As], 'lhs': codec.term_enc(Cn.lhs), 'rhs': codec.term_enc(Cn.rhs)}
    self_test()
    gc.collect()
    gc.freeze()


def _dec(j, thy=None):
    """JSON -> well-typed holpy term of the current theory (CaseInvalid otherwise)."""
    t = codec.term_dec(j)
    try:
        t.checked_get_type()
        (thy or _K['theory'].thy).check_term(t)
    except CaseInvalid:
        raise
    except Exception as e:
        raise CaseInvalid('ill-formed term: %s' % type(e).__name__)
    return t


def self_test():
    theory = _K['theory']
    bad = arith.self_test()
    if bad:
        raise SelfTestError('arith: ' + '; '.join(bad[:3]))
    theory.thy = _THY['realintegral']
    # polynomial oracle: (x + 1) * (x + Suc 0) = x*x + 2*x + 1 over nat; differs from x*x + x + 1
    e1 = ['*', ['+', ['v', 'x'], ['n', 1]], ['+', ['v', 'x'], ['S', ['n', 0]]]]
    e2 = ['+', ['+', ['*', ['v', 'x'], ['v', 'x']], ['*', ['n', 2], ['v', 'x']]], ['n', 1]]
    e3 = ['+', ['+', ['*', ['v', 'x'], ['v', 'x']], ['v', 'x']], ['n', 1]]
    ps = [L.poly_of_ref(ref.from_term(_dec(L.render(e, 'nat'))), 'nat') for e in (e1, e2, e3)]
    if ps[0] != ps[1] or ps[0] == ps[2] or _shape(ps[0]) != _shape(L.poly_of_e(e1)):
        raise SelfTestError('polynomial oracle wrong on (x+1)*(x+Suc 0)')
    r1 = ['-', ['/', ['v', 'x'], ['n', 2]], ['neg', ['^', ['v', 'y'], 2]]]
    r2 = ['+', ['*', ['q', 1, 2], ['v', 'x']], ['*', ['v', 'y'], ['v', 'y']]]
    pr = [L.poly_of_ref(ref.from_term(_dec(L.render(e, 'real'))), 'real') for e in (r1, r2)]
    if pr[0] != pr[1] or _shape(pr[0]) != _shape(L.poly_of_e(r1)):
        raise SelfTestError('polynomial oracle wrong on x/2 - -(y^2)')
    # truncated subtraction is an atom over nat
    pn = L.poly_of_ref(ref.from_term(_dec(L.render(['-', ['v', 'x'], ['v', 'x']], 'nat'))), 'nat')
    if not pn or L.p_is_const(pn):
        raise SelfTestError('nat subtraction must be an atom')
    # propositional oracle
    f = ['iff', ['not', ['and', ['A', 'A'], ['A', 'B']]], ['or', ['not', ['A', 'A']], ['not', ['A', 'B']]]]
    g = ['iff', ['not', ['and', ['A', 'A'], ['A', 'B']]], ['and', ['not', ['A', 'A']], ['not', ['A', 'B']]]]
    tf, tg = ref.from_jterm(L.render_prop(f)), ref.from_jterm(L.render_prop(g))
    tt = ref.from_jterm(C('true', BOOL))
    if L.prop_refute(tf, tt)[1] != 'agree' or L.prop_refute(tg, tt)[1] != 'refuted':
        raise SelfTestError('truth-table oracle wrong on De Morgan')
    m1 = L.members_ref(ref.from_jterm(L.render_prop(['and', ['and', ['A', 'A'], ['A', 'B']], ['or', ['A', 'C'], ['A', 'A']]])), 'conj')
    if len(m1) != 3:
        raise SelfTestError('members_ref wrong')
    # fun_upd oracle: ((%x. 0)(1 := 5)(2 := 7)) 1 = 5, at 3 = 0
    F = mk_fun_upd(['abs', 'x', NAT, numeral(NAT, 0)], [(1, 5), (2, 7)])
    if L.fu_value(ref.from_jterm(app(F, numeral(NAT, 1)))) != ('num', 5) or \
            L.fu_value(ref.from_jterm(app(F, numeral(NAT, 3)))) != ('num', 0):
        raise SelfTestError('fun_upd oracle wrong')
    # semantic oracle on known-good / known-bad equations
    x = V('x', REAL)
    good = (binop('times', REAL, x, binop('plus', REAL, x, num(REAL, 1))), binop('plus', REAL, binop('times', REAL, x, x), x))
    badp = (good[0], binop('plus', REAL, binop('times', REAL, x, x), num(REAL, 1)))
    if sem_check(_dec(good[0]), _dec(good[1]), [], 1)[0] != 'agree' or sem_check(_dec(badp[0]), _dec(badp[1]), [], 1)[0] != 'refuted':
        raise SelfTestError('semantic oracle wrong on x*(x+1)')
    n = V('n', NAT)
    trunc = (binop('plus', NAT, binop('minus', NAT, n, numeral(NAT, 3)), numeral(NAT, 3)), n)
    if sem_check(_dec(trunc[0]), _dec(trunc[1]), [], 1)[0] != 'refuted':
        raise SelfTestError('semantic oracle misses truncated subtraction')
    # a sequent with a false hypothesis is not refuted by a disagreement of its sides
    z1 = binop('plus', NAT, numeral(NAT, 0), app(C('Suc', fun(NAT, NAT)), numeral(NAT, 0)))
    hyp = eq(NAT, z1, numeral(NAT, 0))
    if sem_check(_dec(app(C('Suc', fun(NAT, NAT)), z1)), _dec(app(C('Suc', fun(NAT, NAT)), numeral(NAT, 0))), [_dec(hyp)], 1)[0] == 'refuted':
        raise SelfTestError('semantic oracle ignores hypotheses')
    # the whole per-case check accepts a correct conversion and rejects doctored ones
    H = harness.Ctx(ID)
    case = {'kind': 'conv', 'conv': 'selftest.identity', 'theory': 'nat', 't': L.render(e1, 'nat'), 'conds': []}
    run_case(case, H)
    if H.violations or H.evaluations != 1:
        raise SelfTestError('check flags the reflexivity conversion on (x+1)*(x+Suc 0): %s' % list(H.violations))
    for fake, want in (('selftest.wrong_lhs', 'lhs-differs'), ('selftest.wrong_value', 'sides-disagree'),
                       ('selftest.extra_hyp', 'foreign-hypothesis'), ('selftest.bad_eval', 'eval-differs'),
                       ('selftest.own_gap', 'foreign-gap')):
        H = harness.Ctx(ID)
        run_case(dict(case, conv=fake), H)
        if not any(want in s for s in H.violations):
            raise SelfTestError('check does not flag %s (%s): %s' % (fake, want, list(H.violations)))
    H = harness.Ctx(ID)
    t_a = L.render(['+', ['v', 'x'], ['v', 'y']], 'nat')
    t_b = L.render(['+', ['v', 'y'], ['v', 'x']], 'nat')
    run_case({'kind': 'canon', 'conv': 'selftest.identity', 'theory': 'nat', 'dom': 'nat', 't': t_a, 't2': t_b}, H)
    if not any('canon:differs' in s for s in H.violations):
        raise SelfTestError('canonicity check does not flag the identity conversion')
    _K['auto'].clear_cache()


def _shape(p):
    return sorted((tuple(sorted(e for _, e in m)), c) for m, c in p.items())


def mk_fun_upd(base, ups):
    FT = fun(fun(NAT, NAT), NAT, NAT, NAT, NAT)
    t = base
    for a, b in ups:
        t = app(C('fun_upd', FT), t, numeral(NAT, a) if isinstance(a, int) else a, numeral(NAT, b) if isinstance(b, int) else b)
    return t


@contextlib.contextmanager
def cpu_limit(seconds):
    """Raise Timeout after `seconds` of user CPU time of this process (independent of the load of the machine).
    Re-entrant: an enclosing limit keeps running.  Periodic: code under test with a bare `except:` may swallow the
    first Timeout."""
    def handler(signum, frame):
        raise Timeout()
    old = signal.signal(signal.SIGVTALRM, handler)
    t0 = resource.getrusage(resource.RUSAGE_SELF).ru_utime
    outer_left, outer_int = signal.setitimer(signal.ITIMER_VIRTUAL, seconds, 0.5)
    if outer_left and outer_left < seconds:
        signal.setitimer(signal.ITIMER_VIRTUAL, outer_left, 0.5)
    try:
        yield
    finally:
        signal.setitimer(signal.ITIMER_VIRTUAL, 0)
        signal.signal(signal.SIGVTALRM, old)
        if outer_left:
            used = resource.getrusage(resource.RUSAGE_SELF).ru_utime - t0
            signal.setitimer(signal.ITIMER_VIRTUAL, max(outer_left - used, 0.05), outer_int or 0.5)


# ====================================================================================================== conversions
def _selftest_convs():
    conv, nat = _K['conv'], _K['nat']
    ProofTerm, Thm = _K['proofterm'].ProofTerm, _K['thm'].Thm
    from kernel.term import Eq, Var
    from kernel.type import BoolType

    # doctored conversions built from kernel primitives only (independent of the conversions under test)
    class wrong_lhs(conv.Conv):
        def get_proof_term(self, t):
            return ProofTerm.reflexive(t.arg1)

    class wrong_value(conv.Conv):
        def get_proof_term(self, t):
            return ProofTerm.sorry(Thm(Eq(t, t.arg1)))

    class extra_hyp(conv.Conv):
        def get_proof_term(self, t):
            P = Var('P', BoolType)
            return ProofTerm.reflexive(t).implies_intr(P).implies_elim(ProofTerm.assume(P))

    class bad_eval(conv.Conv):
        def eval(self, t):
            return Thm(Eq(t, t.arg1))

        def get_proof_term(self, t):
            return ProofTerm.reflexive(t)

    class own_gap(conv.Conv):
        def get_proof_term(self, t):
            return ProofTerm.sorry(Thm(Eq(t, t)))

    class identity(conv.Conv):
        def get_proof_term(self, t):
            return ProofTerm.reflexive(t)

    return {'selftest.wrong_lhs': wrong_lhs, 'selftest.wrong_value': wrong_value, 'selftest.extra_hyp': extra_hyp,
            'selftest.bad_eval': bad_eval, 'selftest.own_gap': own_gap, 'selftest.identity': identity}


def build_conv(d, conds):
    conv = _K['conv']
    if isinstance(d, str):
        if d.startswith('selftest.'):
            return _selftest_convs()[d]()
        if d not in LEAVES:
            raise CaseInvalid('unknown conversion %r' % (d,))
        return LEAVES[d]()
    if not isinstance(d, list) or not d or not isinstance(d[0], str):
        raise CaseInvalid('descriptor %r' % (d,))
    tag = d[0]
    try:
        if tag == 'rewr_conv':
            opts = d[2] if len(d) > 2 and isinstance(d[2], dict) else {}
            idx = opts.get('conds') or []
            if not isinstance(d[1], str) or any((not isinstance(i, int)) or i < 0 or i >= len(conds) for i in idx):
                raise CaseInvalid('rewr_conv descriptor')
            return conv.rewr_conv(d[1], sym=bool(opts.get('sym')), conds=[conds[i] for i in idx])
        if tag in ('replace_conv', 'rewr_pt'):
            if len(d) < 2 or not isinstance(d[1], int) or isinstance(d[1], bool) or not 0 <= d[1] < len(conds):
                raise CaseInvalid(tag)
            if not conds[d[1]].prop.is_equals():
                raise CaseInvalid('%s needs an equation' % tag)
            if tag == 'replace_conv':
                return conv.replace_conv(conds[d[1]])
            o = d[2] if len(d) > 2 and isinstance(d[2], dict) else {}
            return conv.rewr_conv(conds[d[1]], sym=bool(o.get('sym')))
        if tag == 'auto_conv':
            return _K['auto'].auto_conv(list(conds))
        if tag == 'real.combine_atom':
            return _K['real'].combine_atom(list(conds))
        if tag == 'real.norm_mult_monomials':
            return _K['real'].norm_mult_monomials(list(conds))
        if tag in UNARY and len(d) == 2:
            inner = build_conv(d[1], conds)
            f = getattr(conv, tag)
            return f(inner)
        if tag == 'argn_conv' and len(d) == 3 and isinstance(d[1], int) and not isinstance(d[1], bool) and 0 <= d[1] < 8:
            return conv.argn_conv(d[1], build_conv(d[2], conds))
        if tag in ('then_conv', 'else_conv') and len(d) == 3:
            return getattr(conv, tag)(build_conv(d[1], conds), build_conv(d[2], conds))
        if tag == 'every_conv' and len(d) >= 2:
            return conv.every_conv(*[build_conv(x, conds) for x in d[1:]])
    except CaseInvalid:
        raise
    if len(d) == 1 and tag in LEAVES:
        return LEAVES[tag]()
    raise CaseInvalid('descriptor %r' % (d,))


def conv_label(d):
    """Stable label of a descriptor for classes / signatures: combinator skeleton with leaf kinds, no theorem names."""
    if isinstance(d, str):
        return d
    tag = d[0]
    if tag == 'rewr_conv':
        o = d[2] if len(d) > 2 and isinstance(d[2], dict) else {}
        return 'rewr_conv' + ('[sym]' if o.get('sym') else '') + ('[cond]' if o.get('conds') else '')
    if tag in ('arg_conv', 'arg1_conv', 'fun_conv', 'abs_conv', 'argn_conv'):
        # path combinators: collapse the path
        inner = d
        kinds = []
        while isinstance(inner, list) and inner[0] in ('arg_conv', 'arg1_conv', 'fun_conv', 'abs_conv', 'argn_conv'):
            kinds.append(inner[0])
            inner = inner[-1]
        return 'path(%s)/%s' % ('+abs' if 'abs_conv' in kinds else '', conv_label(inner))
    subs = [conv_label(x) for x in d[1:] if isinstance(x, (list, str)) and not isinstance(x, dict)]
    return tag + ('(' + ','.join(subs) + ')' if subs else '')


TRAVERSAL = ('top_conv', 'bottom_conv', 'top_sweep_conv', 'repeat_conv', 'assums_conv', 'sub_conv', 'abs_conv')


def sig_label(d):
    """Label used in signatures: the leaf conversions and the outermost traversal combinator (one root cause in a
    leaf must not spread over every combinator skeleton it was reached through)."""
    leaves, outer = [], []

    def walk(x):
        if isinstance(x, str):
            leaves.append(x)
            return
        tag = x[0]
        if tag in ('rewr_conv', 'rewr_pt'):
            leaves.append('rewr_conv')
            return
        if tag in TRAVERSAL and not outer:
            outer.append(tag)
        subs = [y for y in x[1:] if isinstance(y, (list, str))]
        if not subs:
            leaves.append(tag)
        for y in subs:
            walk(y)
    walk(d)
    return '+'.join(sorted(set(leaves))) + ('@' + outer[0] if outer else '')


def conv_head(d):
    return d if isinstance(d, str) else d[0]


def is_pure_lambda(d):
    """Descriptor built from beta / eta conversions and combinators only."""
    if isinstance(d, str):
        return d in ('beta_conv', 'beta_norm_conv', 'eta_conv', 'all_conv')
    if d[0] == 'rewr_conv':
        return d[1] == 'eta_conversion'
    if d[0] not in UNARY + ('argn_conv', 'then_conv', 'else_conv', 'every_conv'):
        return False
    return all(is_pure_lambda(x) for x in d[1:] if isinstance(x, (list, str)))


# ====================================================================================================== oracles
def term_feature(t):
    """Primary feature of an arithmetic / propositional input (for signatures)."""
    names = set()
    stack = [t]
    has_abs = False
    while stack:
        u = stack.pop()
        if u.is_comb():
            stack.append(u.fun)
            stack.append(u.arg)
        elif u.is_abs():
            has_abs = True
            stack.append(u.body)
        elif u.is_const():
            names.add(u.name)
    for nm, lab in (('fun_upd', 'fun_upd'), ('real_divide', 'division'), ('power', 'power'), ('minus', 'subtraction'),
                    ('uminus', 'negation'), ('Suc', 'Suc'), ('times', 'product'), ('plus', 'sum')):
        if nm in names:
            return lab
    if has_abs:
        return 'binder'
    return 'plain'


def _numeric_vars(ts):
    out = {}
    for t in ts:
        for nm, T in arith.free_vars(t):
            out.setdefault(nm, set()).add(T)
    return out


def sem_check(lhs, rhs, hyps, seed, pure_lambda=False):
    """('refuted', detail) | ('agree', n) | ('unknown', why).  Only certain disagreements refute."""
    rl, rr = ref.from_term(lhs), ref.from_term(rhs)
    rh = [ref.from_term(h) for h in hyps]
    if pure_lambda:
        try:
            if not ref.beta_eta_eq(rl, rr):
                return 'refuted', 'sides are not beta-eta-equivalent in the reference calculus'
        except ref.RefError:
            pass
        except RecursionError:
            pass
    T = arith.term_type(lhs)
    vs = _numeric_vars([lhs, rhs] + list(hyps))
    clash = any(len(Ts) > 1 for Ts in vs.values())
    unknown = 'no-oracle'
    if T in ('nat', 'int', 'real', 'bool') and not clash:
        variables = sorted((nm, next(iter(Ts))) for nm, Ts in vs.items())
        numeric_only = all(Tn in ('nat', 'int', 'real') for _, Tn in variables)
        if numeric_only:
            pts = arith.sample_points(variables, (36 if hyps else 14) if variables else 1, seed=seed & 0xffffffff)
            agree = unk = 0
            for env in pts:
                ok = True
                for h in hyps:
                    if arith.eval_prop(h, env) is not True:
                        ok = False
                        break
                if not ok:
                    continue
                if T == 'bool':
                    a, b = arith.eval_prop(lhs, env), arith.eval_prop(rhs, env)
                    if a is None or b is None:
                        unk += 1
                    elif a != b:
                        return 'refuted', 'at %s the left side is %s and the right side is %s' % (_show_env(env), a, b)
                    else:
                        agree += 1
                else:
                    r = arith.check_identity(lhs, rhs, [env])
                    if r['refuted'] is not None:
                        va, vb = arith.eval_num(lhs, env), arith.eval_num(rhs, env)
                        return 'refuted', 'at %s the left side is %s and the right side is %s' % (_show_env(env), va, vb)
                    agree += r['agree']
                    unk += r['unknown']
            if agree:
                return 'agree', agree
            unknown = 'arith-undecided'
    if T == 'bool':
        env, status = L.prop_refute(rl, rr, tuple(rh))
        if status == 'refuted':
            return 'refuted', 'under %s the two sides have different truth values' % env
        if status == 'agree':
            return 'agree', 1
    # fun_upd tables
    sl = repr(rl)
    if ("'fun_upd'" in sl or T == 'nat') and not hyps:
        vl, vr = L.fu_value(rl), L.fu_value(rr)
        if vl[0] == 'num' and vr[0] == 'num':
            if vl != vr:
                return 'refuted', 'left side denotes %s, right side %s' % (vl[1], vr[1])
            return 'agree', 1
        if vl == vr:
            return 'agree', 1
        tl, tr = L.fu_table(rl), L.fu_table(rr)
        if tl is not None and tr is not None and ref.canon(tl[0]) == ref.canon(tr[0]) and (tl[1] or tr[1]):
            base = tl[0]
            bad = None
            for k in sorted(set(tl[1]) | set(tr[1])):
                a = tl[1].get(k) or L.fu_value(('app', base, ref.from_jterm(numeral(NAT, k))))
                b = tr[1].get(k) or L.fu_value(('app', base, ref.from_jterm(numeral(NAT, k))))
                if a[0] == 'num' and b[0] == 'num' and a != b:
                    bad = (k, a[1], b[1])
                    break
            if bad:
                return 'refuted', 'the two functions differ at %d: %s vs %s' % bad
            return 'agree', 1
        unknown = 'fun_upd-undecided'
    # finite standard models (pure logic)
    try:
        prop = ('app', ('app', ('const', 'equals', ref.tfun(ref.typeof(rl), ref.tfun(ref.typeof(rl), ref.BOOL))), rl), rr)
        status, info = model.refute(rh, prop, k=2, max_assign=3000)
        if status == 'refuted':
            return 'refuted', 'finite model: %s' % (info,)
        if status == 'held':
            return 'agree', info
    except (model.Unsupported, ref.RefError, RecursionError):
        pass
    return 'unknown', unknown


def _show_env(env):
    return '{' + ', '.join('%s=%s' % (k, env[k]) for k in sorted(env)) + '}'


def build_conds(case):
    ProofTerm, Thm = _K['proofterm'].ProofTerm, _K['thm'].Thm
    from kernel.type import BoolType
    pts, allowed_hyps, allowed_gaps = [], [], []
    for c in case.get('conds') or []:
        if not isinstance(c, dict) or 'prop' not in c:
            raise CaseInvalid('cond')
        p = _dec(c['prop'])
        if p.get_type() != BoolType:
            raise CaseInvalid('cond is not a proposition')
        if c.get('how') == 'sorry':
            pts.append(ProofTerm.sorry(Thm(p)))
            allowed_gaps.append(p)
        else:
            pts.append(ProofTerm.assume(p))
            allowed_hyps.append(p)
    return pts, allowed_hyps, allowed_gaps


def _canon_set(ts):
    return set(repr(ref.canon(ref.from_term(t))) for t in ts)


_TIMEOUTS = [0]


# Failing "with its own error": ConvException and the project's own failure idioms (AssertionError on a precondition,
# NotImplementedError, Theory/Matcher/Tactic exceptions). Errors of the kernel about an invalid derivation and Python's
# run-time errors mean that the conversion broke down half-way rather than declined the term.
FOREIGN_ERRORS = ('InvalidDerivationException', 'IndexError', 'KeyError', 'TypeError', 'AttributeError', 'ZeroDivisionError',
                  'ValueError', 'NameError', 'UnboundLocalError', 'OverflowError')


def _has_constant_power(t):
    if t.is_comb():
        if t.is_comb('power', 2) and not t.arg1.get_vars():
            return True
        return any(_has_constant_power(a) for a in t.args)
    if t.is_abs():
        return _has_constant_power(t.body)
    return False


def _bound_name_clash(case):
    """A binder of the input carries the name of a free variable of a supplied equation that has another type
    (Thm.abstraction cannot abstract over such a name)."""
    free = {}

    def fv(j):
        if j[0] == 'v':
            free.setdefault(j[1], set()).add(json.dumps(j[2]))
        elif j[0] == 'app':
            fv(j[1]), fv(j[2])
        elif j[0] == 'abs':
            fv(j[3])
    for c in case.get('conds') or []:
        if isinstance(c, dict) and 'prop' in c:
            fv(c['prop'])

    def clash(j):
        if j[0] == 'app':
            return clash(j[1]) or clash(j[2])
        if j[0] == 'abs':
            if j[1] in free and free[j[1]] != {json.dumps(j[2])}:
                return True
            return clash(j[3])
        return False
    return clash(case['t'])


def apply_conv(cv, t, H, label):
    """get_proof_term under a timer: ('ok', pt) | ('fail', exception name) | ('inconc', reason)."""
    try:
        with cpu_limit(30):
            try:
                return 'ok', cv.get_proof_term(t)
            except Timeout:
                raise
            except RecursionError:
                return 'fail', 'RecursionError'
            except Exception as e:
                return 'fail', type(e).__name__
    except Timeout:
        H.inconc('timeout:' + label)
        _TIMEOUTS[0] += 1
        return 'inconc', 'timeout'


def basic_result_checks(pt, t, case, H, label, allowed_hyps):
    """Equation with the exact left side and only supplied hypotheses; returns True when all hold."""
    try:
        prop = pt.prop
        is_eq = prop.is_equals()
    except Exception as e:
        H.violation('conv:bad-result:%s' % label, case, 'result has no proposition: %r' % (e,))
        return False
    if not is_eq:
        H.violation('conv:not-an-equation:%s' % label, case, 'result %s' % pt.th)
        return False
    ok = True
    same_h = (prop.lhs == t)
    same_r = ref.alpha_eq(ref.from_term(prop.lhs), ref.from_term(t))
    if not same_r:
        H.violation('conv:lhs-differs:%s' % label, case, 'input %s but the result is %s' % (t, pt.th))
        ok = False
    elif not same_h:
        H.violation('conv:lhs-differs-holpy-eq:%s' % label, case,
                    'holpy == says the left side of %s differs from the input %s, the reference says alpha-equal' % (pt.th, t))
        ok = False
    extra = _canon_set(pt.hyps) - _canon_set(allowed_hyps)
    if extra:
        H.violation('conv:foreign-hypothesis:%s' % label, case,
                    'result %s has hypotheses that no supplied condition has' % (pt.th,))
        ok = False
    return ok


def check_conv(case, H):
    theory = _K['theory']
    thy_name = case.get('theory')
    if thy_name not in _THY:
        raise CaseInvalid('theory')
    theory.thy = _THY[thy_name]
    t = _dec(case['t'])
    conds, allowed_hyps, allowed_gaps = build_conds(case)
    d = case.get('conv')
    cv = build_conv(d, conds)
    label = sig_label(d)
    head = conv_head(d)
    _K['auto'].clear_cache()
    klass = ['conv:' + label, 'gen:' + str(case.get('gen', '?'))[:40]]
    seed = harness.digest(case)

    status, pt = apply_conv(cv, t, H, label)
    overrides_eval = type(cv).eval is not _K['conv'].Conv.eval
    if status == 'inconc':
        H.case(case, False, klass + ['outcome:timeout'])
        return
    if status == 'fail':
        H.note('fails:%s:%s' % (label, pt))
        if pt not in ('ConvException',):
            H.sample('!fails:%s:%s' % (label, pt), case)
        if pt in FOREIGN_ERRORS:
            feat = ''
            if pt == 'InvalidDerivationException' and _bound_name_clash(case):
                feat = ':bound-name-is-free-variable-of-supplied-equation-at-another-type'
            elif str(head).startswith('integer.') and _has_constant_power(t):
                feat = ':power-of-a-constant'
            H.violation('conv:foreign-exception:%s:%s%s' % (head, pt, feat), case,
                        '%s on %s raised %s, which is not an error of the conversion itself' % (label, t, pt))
        # a fast evaluation that answers where the proof fails must at least be true
        if overrides_eval:
            try:
                th2 = cv.eval(t)
                if th2.prop.is_equals() and th2.prop.lhs == t:
                    r, detail = sem_check(th2.prop.lhs, th2.prop.rhs, list(th2.hyps), seed)
                    H.note('eval-answers-where-proof-fails:%s' % label)
                    if r == 'refuted':
                        H.violation('conv:eval-false-equation:%s' % label, case, 'eval returned %s; %s' % (th2, detail))
            except Exception:
                pass
        H.case(case, False, klass + ['outcome:fails'])
        return

    good = basic_result_checks(pt, t, case, H, label, allowed_hyps)
    changed = False
    if good:
        changed = pt.prop.rhs != t
        # ---- checker
        rpt = _K['report'].ProofReport()
        try:
            with cpu_limit(60):
                try:
                    res = theory.thy.check_proof(pt.export(), rpt)
                    err = None
                except Timeout:
                    raise
                except RecursionError:
                    err = 'RecursionError'
                    res = None
                except Exception as e:
                    err = '%s: %s' % (type(e).__name__, getattr(e, 'str', e))
                    res = None
        except Timeout:
            H.inconc('check-timeout:' + label)
            err, res = 'timeout', None
        if err == 'RecursionError':
            H.inconc('check-recursion:' + label)
        elif err and err != 'timeout':
            H.violation('conv:checker-rejects:%s' % label, case, 'check_proof on the exported proof of %s raised %s' % (pt.th, err[:300]))
        elif res is not None:
            if res.prop != pt.th.prop or not (_canon_set(res.hyps) <= _canon_set(pt.th.hyps)) or \
                    not ref.alpha_eq(ref.from_term(res.prop), ref.from_term(pt.th.prop)):
                H.violation('conv:checked-theorem-differs:%s' % label, case, 'checker returned %s, conversion claimed %s' % (res, pt.th))
            gaps = []
            for g in rpt.gaps:
                gaps.append(g.prop if hasattr(g, 'prop') else g)
            if _canon_set(gaps) - _canon_set(allowed_gaps):
                H.violation('conv:foreign-gap:%s' % label, case, 'the proof of %s contains gaps %s that were not supplied' % (pt.th, rpt.gaps))
        # ---- fast evaluation
        if overrides_eval:
            try:
                th2 = cv.eval(t)
                e_err = None
            except RecursionError:
                e_err, th2 = 'RecursionError', None
            except Exception as e:
                e_err, th2 = type(e).__name__, None
            if e_err:
                H.violation('conv:eval-raises:%s:%s' % (label, e_err), case,
                            'get_proof_term returned %s but eval raised %s' % (pt.th, e_err))
            elif not (th2.prop == pt.th.prop and set(th2.hyps) == set(pt.th.hyps)):
                H.violation('conv:eval-differs:%s' % label, case, 'eval returned %s, get_proof_term %s' % (th2, pt.th))
        # ---- semantics
        r, detail = sem_check(pt.prop.lhs, pt.prop.rhs, list(pt.hyps) + allowed_gaps, seed, pure_lambda=is_pure_lambda(d))
        if r == 'refuted':
            H.violation('conv:sides-disagree:%s:%s' % (label, term_feature(t)), case, 'result %s; %s' % (pt.th, detail))
        elif r == 'unknown':
            H.note('semantic-unknown:%s' % label)
        else:
            H.note('semantic-agree')
        # ---- idempotence for the normalisers that decide equalities (also covered on pairs)
        if head in CANON_CONVS and changed:
            idem_check(cv, pt.prop.rhs, case, H, label, input_feature(t, head))
    H.case(case, changed, klass + ['outcome:changed' if changed else 'outcome:unchanged'])


CANON_CONVS = ('nat.norm_full', 'real.real_norm_conv', 'auto_conv', 'proplogic.norm_full', 'proplogic.sort_conj',
               'proplogic.sort_disj', 'logic.conj_norm', 'logic.disj_norm', 'selftest.identity')


def idem_check(cv, rhs, case, H, label, feature):
    st2, pt2 = apply_conv(cv, rhs, H, label)
    if st2 == 'fail':
        H.note('fails-on-own-normal-form:%s:%s' % (label, pt2))
        return
    if st2 != 'ok':
        return
    try:
        r2 = pt2.prop.rhs
    except Exception:
        return
    if r2 != rhs or not ref.alpha_eq(ref.from_term(r2), ref.from_term(rhs)):
        H.violation('canon:not-idempotent:%s:%s' % (label, feature), case,
                    'normal form %s is normalised again to %s' % (rhs, r2))


def prop_feature(rt, prefer_compound=False):
    """Feature of a propositional input of the conj / disj normalisers (computed from the term).  For sort_conj /
    sort_disj (which treat non-literal members specially) compound members take precedence."""
    s = repr(rt)
    h, args = L.r_head_args(rt)
    op = h[1] if h[0] == 'const' and h[1] in ('conj', 'disj') and len(args) == 2 else None
    collapses = None
    if op is not None:
        tt = ('const', 'true', ref.BOOL) if op == 'disj' else ('const', 'false', ref.BOOL)
        if L.prop_refute(rt, tt)[1] == 'agree':
            collapses = 'contradictory-conjunction' if op == 'conj' else 'valid-disjunction'
        ms = L.members_ref(rt, op)
    else:
        ms = [repr(ref.canon(rt))]
    if collapses and not prefer_compound:
        return collapses
    if "'equals'" in s and not prefer_compound:
        return 'with-iff'

    def literal(m):
        return m.startswith("('var'") or (m.startswith("('app', ('const', 'neg'") and "('var'" in m and m.count("'const'") == 1)

    def const(m):
        return m.startswith("('const', 'true'") or m.startswith("('const', 'false'")
    if any(not literal(m) and not const(m) for m in ms):
        return 'compound-members'
    if collapses:
        return collapses
    if any(const(m) for m in ms):
        return 'with-true-false'
    return 'literals'


def input_feature(t, head=None):
    if arith.term_type(t) == 'bool':
        return prop_feature(ref.from_term(t), head in ('proplogic.sort_conj', 'proplogic.sort_disj'))
    rt = ref.from_term(t)
    kind = arith.term_type(t)
    if kind in ('nat', 'real'):
        try:
            return poly_feature(L.poly_of_ref(rt, kind), codec.term_enc(t), None)
        except L.NotPoly:
            pass
    return term_feature(t)


def poly_feature(p, j1=None, j2=None):
    deg = max([sum(e for _, e in m) for m in p] or [0])
    if not p:
        return 'zero-polynomial'
    if deg == 0:
        return 'constant'
    if deg == 1:
        return 'linear'
    return 'nonlinear'


def poly_ops(j1, j2):
    s = json.dumps([j1, j2])
    return '+'.join(lab for nm, lab in (('"power"', 'power'), ('"real_divide"', 'division'), ('"minus"', 'subtraction'),
                                        ('"uminus"', 'negation'), ('"Suc"', 'Suc'), ('"f"', 'atoms')) if nm in s) or 'plain'


def check_canon(case, H):
    theory = _K['theory']
    thy_name = case.get('theory')
    if thy_name not in _THY:
        raise CaseInvalid('theory')
    theory.thy = _THY[thy_name]
    dom = case.get('dom')
    t1, t2 = _dec(case['t']), _dec(case['t2'])
    r1, r2 = ref.from_term(t1), ref.from_term(t2)
    d = case.get('conv')
    label = sig_label(d)
    if conv_head(d) not in CANON_CONVS:
        raise CaseInvalid('not a canonical normaliser')
    # ---- the two renderings must denote the same object (independent of the generator)
    if dom in ('nat', 'real'):
        if arith.term_type(t1) != dom or arith.term_type(t2) != dom:
            raise CaseInvalid('type')
        try:
            p1, p2 = L.poly_of_ref(r1, dom), L.poly_of_ref(r2, dom)
        except L.NotPoly:
            raise CaseInvalid('polynomial too large')
        if p1 != p2:
            raise CaseInvalid('renderings are different polynomials')
        # subtraction and powers on naturals are opaque atoms of both polynomials (p1 == p2 compares them as such)
        feature = poly_feature(p1)
        extra_class = ['canon-ops:%s:%s' % (dom, poly_ops(case['t'], case['t2']))]
    elif dom in ('conj', 'disj'):
        m1, m2 = L.members_ref(r1, dom), L.members_ref(r2, dom)
        if set(m1) != set(m2):
            raise CaseInvalid('different member sets')
        if len(m1) < 2 or len(m2) < 2:
            raise CaseInvalid('not a %sunction' % dom)
        feature = prop_feature(r1, conv_head(d) in ('proplogic.sort_conj', 'proplogic.sort_disj'))
        extra_class = []
    else:
        raise CaseInvalid('dom')
    conds, allowed_hyps, allowed_gaps = build_conds(case)
    cv = build_conv(d, conds)
    _K['auto'].clear_cache()
    differ = not ref.alpha_eq(r1, r2)
    klass = ['canon:' + label, 'canon-feature:%s:%s' % (dom, feature)] + extra_class
    outs = []
    for t in (t1, t2):
        status, pt = apply_conv(cv, t, H, label)
        if status != 'ok':
            if status == 'fail':
                H.note('fails:%s:%s' % (label, pt))
            H.case(case, False, klass + ['outcome:fails'])
            return
        if not basic_result_checks(pt, t, case, H, label, allowed_hyps):
            H.case(case, differ, klass + ['outcome:bad-result'])
            return
        r, detail = sem_check(pt.prop.lhs, pt.prop.rhs, list(pt.hyps) + allowed_gaps, harness.digest(case))
        if r == 'refuted':
            H.violation('conv:sides-disagree:%s:%s' % (label, term_feature(t)), case, 'result %s; %s' % (pt.th, detail))
        outs.append(pt.prop.rhs)
    n1, n2 = outs
    if n1 != n2 or not ref.alpha_eq(ref.from_term(n1), ref.from_term(n2)):
        H.violation('canon:differs:%s:%s' % (label, feature), case,
                    '%s and %s denote the same %s but are normalised to %s and %s' % (
                        t1, t2, 'polynomial' if dom in ('nat', 'real') else 'set of members', n1, n2))
    idem_check(cv, n1, case, H, label, feature)
    H.case(case, differ, klass + ['outcome:pair'])


def run_case(case, H):
    if not isinstance(case, dict):
        raise CaseInvalid('case')
    kind = case.get('kind', 'conv')
    try:
        if kind == 'conv':
            check_conv(case, H)
        elif kind == 'canon':
            check_canon(case, H)
        else:
            raise CaseInvalid('kind')
    except (KeyError, IndexError, TypeError, AttributeError) as e:
        # malformed JSON produced by shrinking
        if isinstance(e, (KeyError, IndexError)):
            raise CaseInvalid('malformed case: %r' % (e,))
        raise


# ====================================================================================================== generation
def _st():
    from hypothesis import strategies as st
    return st


def _rename_by_type(j, table=None):
    """Make variable names unique per type (callers never use one name at two types)."""
    if table is None:
        table = {}
    tag = j[0]
    if tag == 'v':
        key = json.dumps(j[2])
        types = table.setdefault(j[1], [])
        if key not in types:
            types.append(key)
        i = types.index(key)
        return ['v', j[1] if i == 0 else '%s_%d' % (j[1], i), j[2]]
    if tag == 'app':
        return ['app', _rename_by_type(j[1], table), _rename_by_type(j[2], table)]
    if tag == 'abs':
        return ['abs', j[1], j[2], _rename_by_type(j[3], table)]
    return j


def _subst_sv(j, sigma, tysig):
    tag = j[0]
    if tag == 'sv':
        return sigma[j[1]]
    if tag in ('v', 'c'):
        return [tag, j[1], codec.jt_subst(j[2], tysig)]
    if tag == 'app':
        return ['app', _subst_sv(j[1], sigma, tysig), _subst_sv(j[2], sigma, tysig)]
    if tag == 'abs':
        return ['abs', j[1], codec.jt_subst(j[2], tysig), _subst_sv(j[3], sigma, tysig)]
    return j


def _svars(j, acc, tysig):
    tag = j[0]
    if tag == 'sv':
        acc.setdefault(j[1], codec.jt_subst(j[2], tysig))
    elif tag == 'app':
        _svars(j[1], acc, tysig)
        _svars(j[2], acc, tysig)
    elif tag == 'abs':
        _svars(j[3], acc, tysig)
    return acc


def _stvars(j, acc):
    tag = j[0]
    if tag in ('sv', 'v', 'c'):
        for k in codec.jt_vars(j[2]):
            if k[0] == 'stv' and k not in acc:
                acc.append(k)
    elif tag == 'app':
        _stvars(j[1], acc)
        _stvars(j[2], acc)
    elif tag == 'abs':
        for k in codec.jt_vars(j[2]):
            if k[0] == 'stv' and k not in acc:
                acc.append(k)
        _stvars(j[3], acc)
    return acc


def _has_abs(j):
    if j[0] == 'abs':
        return True
    if j[0] == 'app':
        return _has_abs(j[1]) or _has_abs(j[2])
    return False


def nat_sig():
    return [("zero", NAT), ("one", NAT), ("plus", fun(NAT, NAT, NAT)), ("times", fun(NAT, NAT, NAT)), ("Suc", fun(NAT, NAT)),
            ("true", BOOL), ("false", BOOL), ("neg", fun(BOOL, BOOL)), ("conj", fun(BOOL, BOOL, BOOL)),
            ("disj", fun(BOOL, BOOL, BOOL)), ("implies", fun(BOOL, BOOL, BOOL)), ("equals", fun(NAT, NAT, BOOL)),
            ("less_eq", fun(NAT, NAT, BOOL)), ("all", fun(fun(NAT, BOOL), BOOL)), ("exists", fun(fun(NAT, BOOL), BOOL)),
            ("IF", fun(BOOL, NAT, NAT, NAT))]


def rewrite_cases(world):
    """Planted instances of library equations under contexts; world in 'nat' | 'logic'."""
    st = _st()
    X = NAT if world == 'nat' else gen.A
    if world == 'nat':
        opts = gen.Opts(sig=nat_sig(), redex=True, atom_types=[NAT, BOOL], names=['x', 'y', 'z', 'm', 'n', 'p', 'u'])
    else:
        opts = gen.Opts(sig=gen.LOGIC_BASE, redex=True, atom_types=[BOOL, gen.A], names=['x', 'y', 'z', 'f', 'g', 'p', 'q', 'P'])
    names = RULE_POOL[world]

    # layers: (kind, outer type, hole type, binder type or None)
    def layer_choices(hole_T):
        out = []
        if hole_T == X:
            out += [('app1', X), ('op2', X), ('redex', X), ('if', X), ('eqL', BOOL), ('eqR', BOOL), ('lam', fun(X, X))]
            if world == 'nat':
                out += [('sucL', X), ('plusL', X), ('plusR', X), ('timesR', X)]
        if hole_T == BOOL:
            out += [('not', BOOL), ('andL', BOOL), ('andR', BOOL), ('orR', BOOL), ('impL', BOOL), ('impR', BOOL),
                    ('all', BOOL), ('ex', BOOL), ('redex', BOOL), ('lam', fun(X, BOOL))]
        if codec.jt_is_fun(hole_T):
            out += [('appfun', hole_T[3])]
        return out

    @st.composite
    def cases(draw):
        nm = draw(st.sampled_from(names))
        rule = RULES[nm]
        sym = nm in SYM_OK and draw(st.integers(0, 4)) == 0
        pat = rule['rhs'] if sym else rule['lhs']
        # type instantiation
        tysig = {}
        stv = []
        for part in [rule['lhs'], rule['rhs']] + rule['As']:
            _stvars(part, stv)
        for k in stv:
            tysig[k] = draw(st.sampled_from([X, X, BOOL] if world == 'nat' else [X, BOOL, gen.B]))
        hole_T0 = codec.jt_subst(gen.jterm_type(pat), tysig)
        # layers, inside-out
        mode = draw(st.sampled_from(['path', 'path', 'top', 'top', 'bottom', 'bottom', 'sweep', 'sweep', 'direct', 'sub',
                                     'repeat', 'assums', 'combo', 'replace', 'rewrpt']))
        given_eq = mode in ('replace', 'rewrpt')      # the equation is a supplied theorem  inst = s  (an assumption)
        nlayers = 0 if mode == 'direct' else draw(st.integers(1, 3))
        kinds = []
        cur = hole_T0
        for _ in range(nlayers):
            ch = layer_choices(cur)
            if not ch:
                break
            k, outer = draw(st.sampled_from(ch))
            kinds.append((k, cur, outer))
            cur = outer
        kinds.reverse()          # now outside-in
        # binder context of the hole
        bound = ()
        for k, inner, outer in kinds:
            if k in ('redex', 'lam', 'all', 'ex'):
                bound = (X,) + bound
        sv = {}
        _svars(pat, sv, tysig)
        cond_sv = {}
        for a in rule['As']:
            _svars(a, cond_sv, tysig)
        first_order = not _has_abs(pat)
        sigma = {}
        for n_, T_ in sorted({**cond_sv, **sv}.items()):
            closed = (n_ in cond_sv) or not first_order or given_eq or draw(st.integers(0, 3)) == 0
            sigma[n_] = draw(gen.terms(opts, T_, () if closed else bound, draw(st.integers(0, 2))))
        inst = _subst_sv(pat, sigma, tysig)
        if not first_order and not given_eq and draw(st.booleans()):
            try:
                inst = ref.to_jterm(ref.beta_norm(ref.from_jterm(inst)))
            except Exception:
                pass
        use_conds = bool(rule['As']) and not sym
        conds = []
        if rule['As'] and not sym:
            sig2 = sigma
            if draw(st.integers(0, 9)) == 0:     # conditions about another instance: must fail or be ignored
                sig2 = {n_: draw(gen.terms(opts, T_, (), 1)) for n_, T_ in sorted({**cond_sv, **sv}.items())}
            how = draw(st.sampled_from(['assume', 'assume', 'sorry']))
            conds = [{'prop': _subst_sv(a, sig2, tysig), 'how': how} for a in rule['As']]
            if draw(st.integers(0, 9)) == 0:
                conds, use_conds = [], False
        R = ['rewr_conv', nm, {'sym': sym, 'conds': list(range(len(conds))) if use_conds else []}]
        # assemble outside-in
        depth_bound = []
        b = ()
        for k, inner, outer in kinds:
            depth_bound.append(b)
            if k in ('redex', 'lam', 'all', 'ex'):
                b = (X,) + b
        term = inst
        path = R
        for (k, inner, outer), bctx in reversed(list(zip(kinds, depth_bound))):
            def sib(T, fuel=1, bctx=bctx):
                return draw(gen.terms(opts, T, bctx, fuel))
            if k == 'app1':
                term, path = app(V('g', fun(X, X)), term), ['arg_conv', path]
            elif k == 'sucL':
                term, path = app(C('Suc', fun(NAT, NAT)), term), ['arg_conv', path]
            elif k == 'op2':
                term, path = app(V('h', fun(X, X, X)), sib(X), term), ['arg_conv', path]
            elif k == 'plusL':
                term, path = binop('plus', NAT, term, sib(NAT)), ['arg1_conv', path]
            elif k == 'plusR':
                term, path = binop('plus', NAT, sib(NAT), term), ['arg_conv', path]
            elif k == 'timesR':
                term, path = binop('times', NAT, sib(NAT), term), ['arg_conv', path]
            elif k == 'redex':
                term, path = app(['abs', draw(st.sampled_from(['x', 'y', 'v', 'n'])), X, term], sib(X)), ['fun_conv', ['abs_conv', path]]
            elif k == 'if':
                term = app(C('IF', fun(BOOL, X, X, X)), sib(BOOL), term, sib(X))
                path = ['argn_conv', 1, path]
            elif k == 'eqL':
                term, path = eq(X, term, sib(X)), ['arg1_conv', path]
            elif k == 'eqR':
                term, path = eq(X, sib(X), term), ['arg_conv', path]
            elif k == 'lam':
                term, path = ['abs', draw(st.sampled_from(['x', 'y', 'v', 'n'])), X, term], ['abs_conv', path]
            elif k == 'not':
                term, path = neg(term), ['arg_conv', path]
            elif k == 'andL':
                term, path = conj(term, sib(BOOL)), ['arg1_conv', path]
            elif k == 'andR':
                term, path = conj(sib(BOOL), term), ['arg_conv', path]
            elif k == 'orR':
                term, path = disj(sib(BOOL), term), ['arg_conv', path]
            elif k == 'impL':
                term, path = implies(term, sib(BOOL)), ['arg1_conv', path]
            elif k == 'impR':
                term, path = implies(sib(BOOL), term), ['arg_conv', path]
            elif k in ('all', 'ex'):
                q = C('all' if k == 'all' else 'exists', fun(fun(X, BOOL), BOOL))
                term = app(q, ['abs', draw(st.sampled_from(['x', 'y', 'v', 'n'])), X, term])
                path = ['arg_conv', ['abs_conv', path]]
            elif k == 'appfun':
                term, path = app(term, sib(inner[2])), ['fun_conv', path]
        table = {}
        term = _rename_by_type(term, table)
        conds = [dict(c, prop=_rename_by_type(c['prop'], table)) for c in conds]
        if given_eq:
            other_side = draw(gen.terms(opts, hole_T0, (), draw(st.integers(0, 2))))
            swap = draw(st.booleans()) and mode == 'rewrpt'
            sides = (other_side, inst) if swap else (inst, other_side)
            conds = [{'prop': _rename_by_type(eq(hole_T0, sides[0], sides[1]), table), 'how': 'assume'}]
            leaf = ['replace_conv', 0] if mode == 'replace' else ['rewr_pt', 0, {'sym': swap}]
            d = draw(st.sampled_from([['top_conv', leaf], ['top_sweep_conv', leaf], ['bottom_conv', leaf], ['try_conv', leaf]]))
            if d[0] == 'top_conv' and json.dumps(sides[0]) in json.dumps(sides[1]):
                d = ['top_sweep_conv', leaf]        # a = f a  would be unfolded for ever
            return {'kind': 'conv', 'conv': d, 'theory': world, 't': term, 'conds': conds, 'gen': 'rewrite:' + mode}
        def TOP(r):
            # a rule whose left side is a bare variable matches its own result: top_conv would never end
            nm_, o_ = r[1], r[2]
            lhs_ = RULES[nm_]['rhs'] if o_.get('sym') else RULES[nm_]['lhs']
            return ['top_sweep_conv', r] if lhs_[0] == 'sv' else ['top_conv', r]
        if mode in ('path', 'direct'):
            d = path
        elif mode == 'top':
            d = TOP(R)
        elif mode == 'bottom':
            d = ['bottom_conv', R]
        elif mode == 'sweep':
            d = ['top_sweep_conv', R]
        elif mode == 'sub':
            d = ['sub_conv', ['try_conv', ['top_sweep_conv', R]]]
        elif mode == 'repeat':
            d = ['repeat_conv', ['top_sweep_conv', R]] if nm in TERMINATING and not sym else ['try_conv', ['top_sweep_conv', R]]
        elif mode == 'assums':
            hyp1 = draw(gen.terms(opts, BOOL, (), 1))
            if gen.jterm_type(term) == BOOL:
                hyp1 = _rename_by_type(hyp1, table)
                term = implies(term, implies(hyp1, term)) if draw(st.booleans()) else implies(hyp1, implies(term, hyp1))
            d = ['assums_conv', ['try_conv', TOP(R)]]
        else:
            other = draw(st.sampled_from(names))
            R2 = ['rewr_conv', other, {'sym': False, 'conds': []}]
            d = draw(st.sampled_from([
                ['then_conv', ['top_sweep_conv', R], ['try_conv', ['top_sweep_conv', R2]]],
                ['else_conv', R2, ['top_sweep_conv', R]],
                ['every_conv', ['try_conv', R2], TOP(R), ['try_conv', ['bottom_conv', R2]]],
                ['top_conv', ['else_conv', R2, R]] if TOP(R)[0] == 'top_conv' and TOP(R2)[0] == 'top_conv' else ['top_sweep_conv', ['else_conv', R2, R]],
                ['binop_conv', ['try_conv', ['top_sweep_conv', R]]],
                ['comb_conv', ['try_conv', ['bottom_conv', R]]],
            ]))
        return {'kind': 'conv', 'conv': d, 'theory': world, 't': term, 'conds': conds, 'gen': 'rewrite:' + mode}
    return cases()


def lambda_cases():
    st = _st()
    opts = gen.Opts(sig=gen.LOGIC_BASE, redex=True, max_order=1, names=['x', 'y', 'z', 'f', 'g', 'p', 'q', 'P'])
    beta = ['beta_norm_conv', ['top_conv', 'beta_conv'], ['bottom_conv', 'beta_conv'], ['top_sweep_conv', 'beta_conv'],
            ['top_conv', 'eta_conv'], ['bottom_conv', 'eta_conv'], ['top_sweep_conv', 'eta_conv'],
            ['then_conv', 'beta_norm_conv', ['top_conv', 'eta_conv']],
            ['repeat_conv', ['top_sweep_conv', 'beta_conv']], ['sub_conv', ['try_conv', 'beta_conv']],
            ['abs_conv', 'beta_norm_conv'], ['top_conv', ['else_conv', 'beta_conv', 'eta_conv']],
            ['top_conv', ['rewr_conv', 'eta_conversion', {}]], ['bottom_conv', ['rewr_conv', 'eta_conversion', {}]],
            'beta_conv', 'eta_conv', ['try_conv', 'beta_conv'], ['comb_conv', ['try_conv', 'beta_norm_conv']],
            ['every_conv', ['top_sweep_conv', 'beta_conv'], ['top_sweep_conv', 'beta_conv'], 'beta_norm_conv'],
            ['arg_conv', 'beta_norm_conv'], ['fun_conv', ['try_conv', 'eta_conv']]]

    @st.composite
    def cases(draw):
        T = draw(st.sampled_from([BOOL, BOOL, gen.A, fun(gen.A, BOOL), fun(gen.A, gen.A), fun(BOOL, BOOL), fun(gen.A, gen.A, BOOL)]))
        shape = draw(st.sampled_from(['plain', 'redex', 'redex', 'redex2', 'eta', 'eta-redex', 'eta-nested']))
        fuel = draw(st.integers(1, 3))
        if shape == 'plain':
            t = draw(gen.terms(opts, T, (), fuel + 1))
        elif shape in ('redex', 'redex2'):
            # (%w. body[w]) a, possibly with a function-typed argument that is itself applied in the body
            aT = draw(st.sampled_from([gen.A, BOOL, fun(gen.A, gen.A), fun(gen.A, BOOL)]))
            body = draw(gen.terms(opts, T, (aT,), fuel))
            a = draw(gen.terms(opts, aT, (), fuel))
            t = ['app', ['abs', 'w', aT, body], a]
            if shape == 'redex2':
                bT = draw(st.sampled_from([gen.A, BOOL]))
                t = ['app', ['abs', 'k', bT, draw(st.sampled_from([t, ['app', ['abs', 'w', aT, draw(gen.terms(opts, T, (aT, bT), fuel))], a]]))],
                     draw(gen.terms(opts, bT, (), 1))]
        else:
            if not codec.jt_is_fun(T):
                T = fun(gen.A, T)
            f = draw(gen.terms(opts, T, (), fuel))
            if shape == 'eta-nested':
                f = ['abs', 'v', T[2], ['app', f, ['b', 0]]]  # the contractum is again an abstraction (and an eta-redex)
            t = ['abs', 'u', T[2], ['app', f, ['b', 0]]]      # eta-redex (f closed)
            if shape == 'eta-redex':
                t = ['app', t, draw(gen.terms(opts, T[2], (), 1))]
        d = draw(st.sampled_from(beta))
        return {'kind': 'conv', 'conv': d, 'theory': 'logic', 't': _rename_by_type(t), 'conds': [], 'gen': 'lambda'}
    return cases()


def nat_ground_cases():
    st = _st()

    def binary(n):
        if n == 0:
            return C('zero', NAT)
        if n == 1:
            return C('one', NAT)
        return app(C('bit0' if n % 2 == 0 else 'bit1', fun(NAT, NAT)), binary(n // 2))
    nums = st.one_of(st.integers(0, 40), st.integers(0, 40), st.integers(0, 1100), st.integers(0, 10 ** 6),
                     st.sampled_from([0, 1, 2, 3, 7, 8, 15, 16, 31, 127, 255, 256, 1023, 1024, 65535]))

    @st.composite
    def cases(draw):
        which = draw(st.sampled_from(['Suc', 'Suc', 'add', 'add', 'mult', 'mult', 'nat_conv', 'nat_conv', 'nat_eval', 'auto', 'eq',
                                      'nat_conv_minus', 'argsuc']))
        if which == 'Suc':
            return mk('nat.Suc_conv', app(C('Suc', fun(NAT, NAT)), binary(draw(nums))))
        if which == 'argsuc':
            # Suc_conv inside combinators, on of_nat-wrapped numerals it must fail or be right
            return mk(['try_conv', 'nat.Suc_conv'], app(C('Suc', fun(NAT, NAT)), numeral(NAT, draw(nums))))
        if which == 'add':
            return mk('nat.add_conv', binop('plus', NAT, binary(draw(nums)), binary(draw(nums))))
        if which == 'mult':
            a = draw(st.one_of(st.integers(0, 40), st.integers(0, 3000)))
            b = draw(st.one_of(st.integers(0, 40), st.integers(0, 3000)))
            return mk('nat.mult_conv', binop('times', NAT, binary(a), binary(b)))
        if which == 'eq':
            a, b = draw(st.integers(0, 20)), draw(st.integers(0, 20))
            if draw(st.booleans()):
                b = a
            return mk('nat.nat_eq_conv', eq(NAT, numeral(NAT, a), numeral(NAT, b)))
        ops = ['+', '+', '*', 'S'] + (['-'] if which in ('nat_eval', 'auto', 'nat_conv_minus') else [])
        e = draw(L.arith_exprs('nat', ground=True, ops=ops, max_leaves=draw(st.sampled_from([3, 6, 10])), big=draw(st.booleans())))
        d = {'nat_conv': 'nat.nat_conv', 'nat_conv_minus': 'nat.nat_conv', 'nat_eval': 'nat.nat_eval_conv', 'auto': ['auto_conv']}[which]
        return mk(d, L.render(e, 'nat'))

    def mk(d, t):
        return {'kind': 'conv', 'conv': d, 'theory': 'nat', 't': t, 'conds': [], 'gen': 'nat-ground'}
    return cases()


def nat_poly_cases(pairs):
    st = _st()

    @st.composite
    def cases(draw):
        fv = draw(st.integers(0, 4)) == 0
        e = draw(L.arith_exprs('nat', nvars=draw(st.integers(1, 4)), max_leaves=draw(st.sampled_from([4, 6, 9])), fvar=fv))
        if not pairs:
            d = draw(st.sampled_from(['nat.norm_full', 'nat.norm_full', 'nat.norm_full', ['top_conv', 'nat.norm_full'],
                                      ['arg_conv', 'nat.norm_full']]))
            t = L.render(e, 'nat')
            if isinstance(d, list) and d[0] == 'arg_conv':
                t = eq(NAT, V('w', NAT), t)
            return {'kind': 'conv', 'conv': d, 'theory': 'nat', 't': t, 'conds': [], 'gen': 'nat-poly'}
        e2 = draw(second_rendering(e, 'nat'))
        if draw(st.integers(0, 2)) == 0:
            e, e2 = draw(monomial_renderings('nat'))
        return {'kind': 'canon', 'conv': 'nat.norm_full', 'theory': 'nat', 'dom': 'nat', 't': L.render(e, 'nat'),
                't2': L.render(e2, 'nat'), 'gen': 'nat-pair'}
    return cases()


def second_rendering(e, kind):
    st = _st()

    @st.composite
    def s(draw):
        how = draw(st.sampled_from(['moves', 'moves', 'moves2', 'flat', 'flat-moves']))
        if how in ('flat', 'flat-moves'):
            try:
                p = L.poly_of_e(e)
            except L.NotPoly:
                p = None
            e2 = draw(L.flat_rendering(p, kind)) if p is not None and len(p) <= 14 else None
            if e2 is None:
                e2 = draw(L.rearranged(e, kind))
            elif how == 'flat-moves':
                e2 = draw(L.rearranged(e2, kind))
            return e2
        e2 = draw(L.rearranged(e, kind))
        if how == 'moves2':
            e2 = draw(L.rearranged(e2, kind))
        return e2
    return s()


def monomial_renderings(kind):
    """Two flat renderings (drawn monomial order, factor order, association; the second optionally rearranged) of one
    drawn polynomial whose monomials share variables."""
    st = _st()

    @st.composite
    def s(draw):
        p = draw(L.poly_dicts(kind))
        e1 = draw(L.flat_rendering(p, kind))
        e2 = draw(L.flat_rendering(p, kind))
        if draw(st.integers(0, 2)) == 0:
            e2 = draw(L.rearranged(e2, kind))
        return e1, e2
    return s()


def int_cases():
    st = _st()
    REL = ['less', 'less_eq', 'greater', 'greater_eq']

    def linear(draw, nv):
        # c1*x + c2*y + ... + k in drawn shapes
        names = L.VARS[:nv]
        terms = []
        for n_ in names:
            c = draw(st.integers(-4, 4))
            if c == 0:
                continue
            v = ['v', n_]
            terms.append(v if c == 1 and draw(st.booleans()) else ['neg', v] if c == -1 and draw(st.booleans())
                         else ['*', ['q', c, 1] if c < 0 else ['n', c], v] if draw(st.booleans()) else ['*', v, ['q', c, 1] if c < 0 else ['n', c]])
        k = draw(st.integers(-6, 6))
        if k or not terms:
            terms.append(['q', k, 1] if k < 0 else ['n', k])
        terms = list(draw(st.permutations(terms)))
        acc = terms[0]
        for t_ in terms[1:]:
            acc = [draw(st.sampled_from(['+', '+', '-'])), acc, t_]
        return acc

    @st.composite
    def cases(draw):
        which = draw(st.sampled_from(['simp_full', 'simp_full', 'int_norm', 'int_norm', 'omega_simp', 'omega_form', 'omega_form',
                                      'int_eval', 'norm_eq', 'simplex', 'neg_compares', 'const_compares', 'norm_eq_eq', 'gcd']))
        nv = draw(st.integers(1, 3))
        if which in ('simp_full', 'int_norm', 'omega_simp'):
            if draw(st.integers(0, 2)) == 0:
                e = linear(draw, nv)
            else:
                e = draw(L.arith_exprs('int', nvars=nv, max_leaves=draw(st.sampled_from([3, 5, 8]))))
            d = {'simp_full': 'integer.simp_full', 'int_norm': 'integer.int_norm_conv', 'omega_simp': 'integer.omega_simp_full_conv'}[which]
            return mk(d, L.render(e, 'int'))
        if which == 'int_eval':
            e = draw(L.arith_exprs('int', ground=True, ops=['+', '-', '*', 'neg'], max_leaves=6))
            return mk('integer.int_eval_conv', L.render(e, 'int'))
        if which == 'const_compares':
            a = draw(L.arith_exprs('int', ground=True, ops=['+', '-', '*', 'neg'], max_leaves=3))
            b = draw(L.arith_exprs('int', ground=True, ops=['+', '-', '*', 'neg'], max_leaves=3))
            r = draw(st.sampled_from(REL + ['equals']))
            return mk('integer.int_const_compares', rel(r, INT, L.render(a, 'int'), L.render(b, 'int')))
        lin = draw(st.integers(0, 3)) > 0
        a = linear(draw, nv) if lin else draw(L.arith_exprs('int', nvars=nv, max_leaves=4))
        b = linear(draw, nv) if lin else draw(L.arith_exprs('int', nvars=nv, max_leaves=4))
        if draw(st.integers(0, 3)) == 0:
            b = ['n', 0]
        ta, tb = L.render(a, 'int'), L.render(b, 'int')
        if which == 'norm_eq_eq':
            return mk('integer.int_norm_eq', eq(INT, ta, tb))
        r = draw(st.sampled_from(REL))
        cmp_t = rel(r, INT, ta, tb)
        if which == 'norm_eq':
            if draw(st.integers(0, 3)) == 0:
                cmp_t = eq(INT, ta, tb)
            return mk('integer.norm_eq', cmp_t)
        if which == 'neg_compares':
            return mk('integer.int_norm_neg_compares', neg(cmp_t))
        d = {'omega_form': 'integer.omega_form_conv', 'simplex': 'integer.int_simplex_form', 'gcd': 'integer.int_gcd_compares'}[which]
        return mk(d, cmp_t)

    def mk(d, t):
        return {'kind': 'conv', 'conv': d, 'theory': 'int', 't': t, 'conds': [], 'gen': 'int'}
    return cases()


def real_cases(pairs):
    st = _st()
    REL = ['less', 'less_eq', 'greater', 'greater_eq']

    @st.composite
    def cases(draw):
        if pairs:
            which = draw(st.sampled_from(['real_norm', 'real_norm', 'auto', 'auto']))
            nv = draw(st.integers(1, 3))
            if which == 'real_norm':
                e = draw(L.arith_exprs('real', nvars=nv, max_leaves=draw(st.sampled_from([4, 6, 8]))))
            else:
                e = draw(auto_exprs(nv, draw(st.sampled_from([4, 6, 8]))))
            e2 = draw(second_rendering(e, 'real'))
            if draw(st.integers(0, 2)) == 0:
                e, e2 = draw(monomial_renderings('real'))
            if which == 'auto':
                e, e2 = _auto_domain(e), _auto_domain(e2)
            d = 'real.real_norm_conv' if which == 'real_norm' else ['auto_conv']
            return {'kind': 'canon', 'conv': d, 'theory': 'realintegral', 'dom': 'real', 't': L.render(e, 'real'),
                    't2': L.render(e2, 'real'), 'gen': 'real-pair:' + which}
        which = draw(st.sampled_from(['real_norm', 'real_norm', 'auto', 'auto', 'auto_rpow', 'real_eval', 'real_eval',
                                      'ineq', 'neg_ineq', 'norm_cmp', 'simplex', 'const_cmp', 'real_norm_ofnat',
                                      'combine_atom', 'mult_monomials']))
        nv = draw(st.integers(1, 3))
        if which == 'real_norm':
            e = draw(L.arith_exprs('real', nvars=nv, max_leaves=draw(st.sampled_from([3, 6, 9]))))
            return mk('real.real_norm_conv', L.render(e, 'real'))
        if which == 'real_norm_ofnat':
            en = draw(L.arith_exprs('nat', nvars=2, max_leaves=3, names=['m', 'n'], ops=['+', '*']))
            e = draw(L.arith_exprs('real', nvars=nv, max_leaves=3))
            op = draw(st.sampled_from(['+', '*', '-']))
            return mk('real.real_norm_conv', L.render([op, ['ofnat', en], e], 'real'))
        if which == 'auto':
            e = draw(auto_exprs(nv, draw(st.sampled_from([3, 6, 9]))))
            return mk(['auto_conv'], L.render(e, 'real'))
        if which in ('auto_rpow', 'combine_atom', 'mult_monomials'):
            # x ^ (p/q) atoms need x > 0, supplied as a condition
            x = V('x', REAL)
            y = V('y', REAL)

            def atom(v):
                k = draw(st.integers(0, 5))
                if k == 0:
                    return v
                if k == 1:
                    return app(C('power', fun(REAL, NAT, REAL)), v, numeral(NAT, draw(st.integers(1, 3))))
                ex = Fraction(draw(st.sampled_from([1, 1, 3, -1, -3, 5])), draw(st.sampled_from([2, 2, 3, 1])))
                return app(C('power', fun(REAL, REAL, REAL)), v, num(REAL, ex))
            how = draw(st.sampled_from(['assume', 'assume', 'sorry']))
            conds = [{'prop': rel('greater', REAL, x, num(REAL, 0)), 'how': how}]
            if draw(st.booleans()):
                conds.append({'prop': rel('greater', REAL, y, num(REAL, 0)), 'how': how})
            if draw(st.integers(0, 5)) == 0:
                conds = []
            if which == 'combine_atom':
                return mk(['real.combine_atom'], binop('times', REAL, atom(x), atom(x)), conds)
            m1 = binop('times', REAL, atom(x), atom(y)) if draw(st.booleans()) else atom(x)
            m2 = binop('times', REAL, atom(x), atom(y)) if draw(st.booleans()) else atom(draw(st.sampled_from([x, y])))
            if draw(st.booleans()):
                m1 = binop('times', REAL, num(REAL, Fraction(draw(st.integers(-3, 3)), draw(st.integers(1, 3)))), m1)
            if draw(st.booleans()):
                m2 = binop('times', REAL, num(REAL, Fraction(draw(st.integers(-3, 3)), draw(st.integers(1, 3)))), m2)
            if which == 'mult_monomials':
                return mk(['real.norm_mult_monomials'], binop('times', REAL, m1, m2), conds)
            t = binop(draw(st.sampled_from(['times', 'times', 'plus', 'minus'])), REAL, m1, m2)
            return mk(['auto_conv'], t, conds)
        if which == 'real_eval':
            ops = ['+', '-', '*', 'neg', '/', '^']
            e = draw(L.arith_exprs('real', ground=True, ops=ops, max_leaves=draw(st.sampled_from([3, 6]))))
            return mk('real.real_eval_conv', L.render(e, 'real'))
        a = draw(L.arith_exprs('real', nvars=nv, max_leaves=4, ops=['+', '+', '-', '*', 'neg', '/c']))
        b = draw(L.arith_exprs('real', nvars=nv, max_leaves=3, ops=['+', '-', '*', 'neg']))
        if which == 'const_cmp':
            a = draw(L.arith_exprs('real', ground=True, max_leaves=3, ops=['+', '-', '*', 'neg', '/']))
            b = draw(L.arith_exprs('real', ground=True, max_leaves=3, ops=['+', '-', '*', 'neg']))
        ta, tb = L.render(a, 'real'), L.render(b, 'real')
        r = draw(st.sampled_from(REL))
        cmp_t = rel(r, REAL, ta, tb)
        if which == 'ineq':
            return mk('real.norm_real_ineq_conv', cmp_t)
        if which == 'neg_ineq':
            return mk('real.norm_neg_real_ineq_conv', neg(cmp_t))
        if which == 'norm_cmp':
            if draw(st.integers(0, 3)) == 0:
                cmp_t = eq(REAL, ta, tb)
            return mk('real.real_norm_comparison', cmp_t)
        if which == 'simplex':
            return mk('real.real_simplex_form', cmp_t)
        if draw(st.integers(0, 3)) == 0:
            cmp_t = eq(REAL, ta, tb)
        return mk('real.real_const_compares', cmp_t)

    def mk(d, t, conds=None):
        return {'kind': 'conv', 'conv': d, 'theory': 'realintegral', 't': t, 'conds': conds or [], 'gen': 'real'}
    return cases()


def auto_exprs(nv, max_leaves):
    """Real polynomials in the documented domain of the auto normaliser: powers are applied to atoms only
    (powers are combined but not expanded), division is by numeral constants."""
    return L.arith_exprs('real', nvars=nv, max_leaves=max_leaves).map(_auto_domain)


def _auto_domain(e):
    op = e[0]
    if op == '^':
        base = _auto_domain(e[1])
        if base[0] != 'v':
            # (compound) ^ k  ->  repeated product
            k = e[2]
            if k == 0:
                return ['n', 1]
            acc = base
            for _ in range(k - 1):
                acc = ['*', acc, base]
            return acc
        return ['^', base, e[2]]
    if op in ('+', '-', '*', '/'):
        return [op, _auto_domain(e[1]), _auto_domain(e[2])]
    if op == 'neg':
        return ['neg', _auto_domain(e[1])]
    return e


def prop_cases(pairs):
    st = _st()

    @st.composite
    def cases(draw):
        if pairs:
            op = draw(st.sampled_from(['and', 'or']))
            ms, shape = draw(L.member_sets(op))
            if not ms:
                ms = [['A', 'A']]
            f1 = draw(L.member_rendering(ms, op))
            f2 = draw(L.member_rendering(ms, op))
            if op == 'and':
                d = draw(st.sampled_from(['proplogic.norm_full', 'proplogic.sort_conj', 'logic.conj_norm']))
            else:
                d = draw(st.sampled_from(['proplogic.norm_full', 'proplogic.sort_disj', 'logic.disj_norm']))
            return {'kind': 'canon', 'conv': d, 'theory': 'logic', 'dom': 'conj' if op == 'and' else 'disj',
                    't': L.render_prop(f1), 't2': L.render_prop(f2), 'gen': 'prop-pair'}
        which = draw(st.sampled_from(['nnf', 'nnf', 'norm_full', 'norm_full', 'sort_conj', 'sort_disj', 'conj_norm', 'disj_norm',
                                      'bool_expr', 'conj_assoc', 'top_nnf']))
        n = draw(st.sampled_from([3, 5, 8]))
        if which in ('nnf', 'top_nnf'):
            f = draw(L.formulas(n, ops=('not', 'not', 'and', 'or', 'iff')))
            if draw(st.booleans()):
                f = ['not', f]
            return mk('proplogic.nnf_conv' if which == 'nnf' else ['top_conv', 'proplogic.nnf_conv'], f)
        if which == 'norm_full':
            return mk('proplogic.norm_full', draw(L.formulas(n, ops=('not', 'and', 'and', 'or', 'or', 'iff'))))
        if which in ('sort_conj', 'conj_norm', 'conj_assoc'):
            f = draw(L.formulas(n, ops=('and', 'and', 'and', 'or', 'not'), consts=which != 'conj_assoc' and draw(st.booleans())))
            if f[0] != 'and':
                f = ['and', f, draw(L.formulas(3, ops=('and', 'or', 'not')))]
            return mk({'sort_conj': 'proplogic.sort_conj', 'conj_norm': 'logic.conj_norm', 'conj_assoc': 'logic.norm_conj_assoc'}[which], f)
        if which in ('sort_disj', 'disj_norm'):
            f = draw(L.formulas(n, ops=('or', 'or', 'or', 'and', 'not'), consts=draw(st.booleans())))
            if f[0] != 'or':
                f = ['or', f, draw(L.formulas(3, ops=('and', 'or', 'not')))]
            return mk({'sort_disj': 'proplogic.sort_disj', 'disj_norm': 'logic.disj_norm'}[which], f)
        f = draw(L.formulas(3))
        if draw(st.booleans()):
            f = ['not', draw(st.sampled_from([['T'], ['F'], f]))]
        return mk(draw(st.sampled_from(['logic.norm_bool_expr', ['top_conv', 'logic.norm_bool_expr']])), f)

    def mk(d, f):
        return {'kind': 'conv', 'conv': d, 'theory': 'logic', 't': L.render_prop(f), 'conds': [], 'gen': 'prop'}
    return cases()


def fun_cases():
    st = _st()

    @st.composite
    def cases(draw):
        base = ['abs', 'x', NAT, numeral(NAT, draw(st.integers(0, 3)))] if draw(st.integers(0, 2)) else V('f', fun(NAT, NAT))
        n = draw(st.integers(0, 5))
        keys = st.integers(0, 6)
        ups = [(draw(keys), draw(st.integers(0, 9))) for _ in range(n)]
        F = mk_fun_upd(base, ups)
        which = draw(st.sampled_from(['eval', 'eval', 'norm', 'norm', 'norm_one', 'top_eval']))
        if which == 'eval':
            return mk('function.fun_upd_eval_conv', app(F, numeral(NAT, draw(keys))))
        if which == 'top_eval':
            t = binop('plus', NAT, app(F, numeral(NAT, draw(keys))), app(F, numeral(NAT, draw(keys))))
            return mk(['then_conv', ['top_conv', 'function.fun_upd_eval_conv'], 'nat.norm_full'], t)
        if which == 'norm_one':
            # precondition of norm_one: everything but the last update is sorted
            srt = sorted(dict(ups[:-1]).items()) + ups[-1:] if ups else []
            return mk('function.fun_upd_norm_one_conv', mk_fun_upd(base, srt))
        return mk('function.fun_upd_norm_conv', F)

    def mk(d, t):
        return {'kind': 'conv', 'conv': d, 'theory': 'function', 't': t, 'conds': [], 'gen': 'fun_upd'}
    return cases()


GROUPS = {
    'rewrite-nat': lambda: rewrite_cases('nat'),
    'rewrite-logic': lambda: rewrite_cases('logic'),
    'lambda': lambda: lambda_cases(),
    'nat-ground': lambda: nat_ground_cases(),
    'nat-poly': lambda: nat_poly_cases(False),
    'nat-pairs': lambda: nat_poly_cases(True),
    'int': lambda: int_cases(),
    'real': lambda: real_cases(False),
    'real-pairs': lambda: real_cases(True),
    'prop': lambda: prop_cases(False),
    'prop-pairs': lambda: prop_cases(True),
    'fun_upd': lambda: fun_cases(),
}
# cases per group in the quick tier (terms: ~8000, pairs: ~3000)
QUICK = {'rewrite-nat': 1500, 'rewrite-logic': 1000, 'lambda': 900, 'nat-ground': 700, 'nat-poly': 800, 'nat-pairs': 1100,
         'int': 900, 'real': 1100, 'real-pairs': 1000, 'prop': 800, 'prop-pairs': 1000, 'fun_upd': 400}


def shards(tier):
    mult = 1 if tier == 'quick' else 12
    out = []
    for g, n in QUICK.items():
        n = n * mult
        k = max(1, round(n / (280 if tier == 'quick' else 2500)))
        for i, c in enumerate(harness.split(n, k)):
            out.append({'group': g, 'n': c, 'i': i})
    # longest first
    cost = {'real': 3, 'real-pairs': 3, 'int': 3, 'prop': 2, 'prop-pairs': 2, 'rewrite-nat': 2}
    out.sort(key=lambda d: -cost.get(d['group'], 1) * d['n'])
    return out


def run_shard(desc, seed, tier, H):
    strat = GROUPS[desc['group']]()

    _TIMEOUTS[0] = 0

    def body(case):
        if _TIMEOUTS[0] > 3:
            H.note('skipped-after-timeouts:%s' % desc['group'])
            return
        try:
            with cpu_limit(150):
                run_case(case, H)
        except CaseInvalid as e:
            H.note('generated-out-of-domain:%s' % desc['group'])
        except Timeout:
            # the oracles themselves ran out of time (enormous results): nothing is concluded
            H.inconc('case-timeout:%s' % desc['group'])
            _TIMEOUTS[0] += 1
    harness.hyp_run(strat, body, desc['n'], seed)
