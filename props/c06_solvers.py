"""C06 - goals discharged through external solvers (Z3, SymPy) are valid HOL statements.

Cases (JSON):
  {"entry": "solve" | "macro", "fam": family, "prems": [term...], "concl": term, "hyps": [[term...] per premise]}
  {"entry": "sympy", "fam": family, "prems": [] | [interval membership], "concl": term, "hyps": [[...]]}
terms are in the vlib.codec encoding.  See RULE / ASSUMPTIONS below and vlib/c06_lib.py for the oracle.
"""
import contextlib
import os
import signal
import sys
from fractions import Fraction

from vlib import harness, codec, c06_lib as L
from vlib.codec import BOOL, fun
from vlib.harness import time_limit, Timeout, CaseInvalid, SelfTestError

ID = 'C06'
RULE = ("Goals A1 --> ... --> An --> C from a typed grammar over bool/nat/int/real/'a (connectives, if-then-else, "
        "forall/exists in both polarities, + - * / abs min max of_nat power, uninterpreted f,g::nat=>nat h::nat=>real "
        "fi::int=>int P,Q::'a=>bool R::nat=>bool, sets S,T::nat set U::'a set W::real set with member/union/inter/diff/"
        "insert/collect/subset/set equality, real intervals, equality of function variables). About 3/4 come from "
        "families: valid-by-construction schemes (propositional, arithmetic, quantifier, set, congruence) and near-miss "
        "schemes that are valid only under a deviating semantics (nat binders over the integers, of_nat of a bound "
        "variable as one constant, positive nat variables, plain nat minus, non-zero divisors, function equality, float "
        "fractions, goals on which z3 answers unknown); the rest is random. In 30 % of the z3 cases the binder names are "
        "re-drawn from a small pool (terms are de Bruijn, so the meaning is unchanged) to make binders clash with "
        "enclosing binders, free variables and the binders of the unfolded library theorems. Entry points: z3wrapper.solve(goal), "
        "Z3Macro.eval(concl, prevs) (also: hypotheses = union of the premises' hypotheses, conclusion = the argument), "
        "SymPyMacro.can_eval/eval with 0 or 1 interval premise. Oracle, soundness direction only, when the step accepts: "
        "(1) an independent guard-correct z3 encoding of the negated goal gives a model, (2) the model counts only if "
        "the evaluator of vlib.c06_lib evaluates every premise to True and the conclusion to False under HOL semantics "
        "(quantifiers over a finite partition of the type: points plus intervals evaluated abstractly), (3) bounded "
        "enumeration of assignments through the same evaluator. SymPy goals (families over + - * / ^ abs and, in 25 %, sqrt / log / exp / real power / trigonometric poles, also nested inside one another, with the identities SymPy "
        "applies by itself): exact/interval evaluation (vlib.arith) at a "
        "rational grid of the interval, its admissible end points, constants of the goal and their combinations. "
        "Non-trivial = the step accepted the goal; distinct by canonical JSON.")
ASSUMPTIONS = [
    "z3 global parameters are pinned in the harness process: rlimit=%d (the wrapper creates solvers without any limit "
    "and diverges on non-linear integer goals), smt/sat random seeds 0; a wrapper query that exhausts the limit answers "
    "unknown, i.e. 'not solved'",
    "z3wrapper.check_z3 is asserted to be True (its default) and never changed",
    "a counter-model may interpret the type variable 'a by any finite non-empty universe",
    "holpy semantics of the library constants as pinned in vlib/arith.py and vlib/c06_lib.py: truncated nat minus, "
    "x / 0 = 0, real_inverse 0 = 0, x ^ 0 = 1, min/max/abs as in the order theory",
    "each call of the code under test runs under a CPU-time limit (z3 step 40 s, SymPy step 25 s; hit = inconclusive)",
]
Z3_RLIMIT = 2500000
WRAPPER_CPU_S = 40
SYMPY_CPU_S = 25
ASSUMPTIONS[0] = ASSUMPTIONS[0] % Z3_RLIMIT
MAXTASKS = 1            # every shard starts from the parent's z3 / sympy state: results do not depend on scheduling
SHRINK_SECONDS = 90
SHRINK_BUDGET = 60



@contextlib.contextmanager
def cpu_limit(seconds):
    """Like harness.time_limit but counts the CPU time (user+sys) of this process, so that the verdict does not
    depend on the load of the machine."""
    def handler(signum, frame):
        raise Timeout()
    old = signal.signal(signal.SIGPROF, handler)
    signal.setitimer(signal.ITIMER_PROF, seconds)
    try:
        yield
    finally:
        signal.setitimer(signal.ITIMER_PROF, 0)
        signal.signal(signal.SIGPROF, old)


NAT, INT, REAL, TA = ["tc", "nat"], ["tc", "int"], ["tc", "real"], ["tv", "a"]


def SET(T):
    return ["tc", "set", T]


# ================================================================================ builders (codec JSON)
def C(n, T):
    return ["c", n, T]


def V(n, T):
    return ["v", n, T]


def ap(f, *args):
    for a in args:
        f = ["app", f, a]
    return f


def nat_lit(n, T=NAT):
    if n == 0:
        return C("zero", T)
    if n == 1:
        return C("one", T)

    def binary(k):
        if k == 1:
            return C("one", NAT)
        return ap(C("bit0" if k % 2 == 0 else "bit1", fun(NAT, NAT)), binary(k // 2))
    return ap(C("of_nat", fun(NAT, T)), binary(n))


def lit(T, v):
    """Numeral in holpy's normal form (v int or Fraction)."""
    v = Fraction(v)
    if v < 0:
        return ap(C("uminus", fun(T, T)), lit(T, -v))
    if v.denominator == 1:
        return nat_lit(int(v), T)
    return ap(C("real_divide", fun(T, T, T)), nat_lit(v.numerator, T), nat_lit(v.denominator, T))


def raw_frac(p, q):
    """p / q as written (possibly not in normal form)."""
    return ap(C("real_divide", fun(REAL, REAL, REAL)), nat_lit(p, REAL), nat_lit(q, REAL))


def op2(name, T, a, b):
    return ap(C(name, fun(T, T, T)), a, b)


def add(T, a, b):
    return op2("plus", T, a, b)


def sub(T, a, b):
    return op2("minus", T, a, b)


def mul(T, a, b):
    return op2("times", T, a, b)


def div(a, b):
    return op2("real_divide", REAL, a, b)


def neg(T, a):
    return ap(C("uminus", fun(T, T)), a)


def absv(T, a):
    return ap(C("abs", fun(T, T)), a)


def power(T, a, n):
    return ap(C("power", fun(T, NAT, T)), a, nat_lit(n))


def of_nat(T, a):
    return ap(C("of_nat", fun(NAT, T)), a)


def cmp(name, T, a, b):
    return ap(C(name, fun(T, T, BOOL)), a, b)


def lt(T, a, b):
    return cmp("less", T, a, b)


def le(T, a, b):
    return cmp("less_eq", T, a, b)


def gt(T, a, b):
    return cmp("greater", T, a, b)


def ge(T, a, b):
    return cmp("greater_eq", T, a, b)


def eq(T, a, b):
    return ap(C("equals", fun(T, T, BOOL)), a, b)


TRUE, FALSE = C("true", BOOL), C("false", BOOL)


def NOT(a):
    return ap(C("neg", fun(BOOL, BOOL)), a)


def AND(a, b):
    return ap(C("conj", fun(BOOL, BOOL, BOOL)), a, b)


def OR(a, b):
    return ap(C("disj", fun(BOOL, BOOL, BOOL)), a, b)


def IMP(a, b):
    return ap(C("implies", fun(BOOL, BOOL, BOOL)), a, b)


def IFF(a, b):
    return eq(BOOL, a, b)


def ITE(T, c, a, b):
    return ap(C("IF", fun(BOOL, T, T, T)), c, a, b)


def close(body, name, T, depth=0):
    tag = body[0]
    if tag == 'v':
        return ["b", depth] if (body[1] == name and body[2] == T) else body
    if tag == 'app':
        return ["app", close(body[1], name, T, depth), close(body[2], name, T, depth)]
    if tag == 'abs':
        return ["abs", body[1], body[2], close(body[3], name, T, depth + 1)]
    if tag == 'b':
        return body
    return body


def rebind(j, g, pool):
    """Rename binders at random (meaning-preserving: bound variables are indices)."""
    tag = j[0]
    if tag == 'app':
        return ['app', rebind(j[1], g, pool), rebind(j[2], g, pool)]
    if tag == 'abs':
        return ['abs', g.pick(pool) if g.chance(0.7) else j[1], j[2], rebind(j[3], g, pool)]
    return j


def binder_name_clash(j, free=None, enclosing=()):
    """A binder named like an enclosing binder or like a free variable of the term."""
    if free is None:
        free = set()

        def fv(t):
            if t[0] == 'v':
                free.add(t[1])
            elif t[0] == 'app':
                fv(t[1]), fv(t[2])
            elif t[0] == 'abs':
                fv(t[3])
        fv(j)
    tag = j[0]
    if tag == 'app':
        return binder_name_clash(j[1], free, enclosing) or binder_name_clash(j[2], free, enclosing)
    if tag == 'abs':
        if j[1] in enclosing or j[1] in free:
            return True
        return binder_name_clash(j[3], free, enclosing + (j[1],))
    return False


def quant(q, name, T, body):
    return ap(C(q, fun(fun(T, BOOL), BOOL)), ["abs", name, T, close(body, name, T)])


def ALL(name, T, body):
    return quant("all", name, T, body)


def EX(name, T, body):
    return quant("exists", name, T, body)


def collect(name, T, body):
    return ap(C("collect", fun(fun(T, BOOL), SET(T))), ["abs", name, T, close(body, name, T)])


def mem(T, e, S):
    return ap(C("member", fun(T, SET(T), BOOL)), e, S)


def setop(name, T, A, B):
    return ap(C(name, fun(SET(T), SET(T), SET(T))), A, B)


def insert(T, e, S):
    return ap(C("insert", fun(T, SET(T), SET(T))), e, S)


def subset(T, A, B):
    return ap(C("subset", fun(SET(T), SET(T), BOOL)), A, B)


def interval(closed, a, b):
    return ap(C("real_closed_interval" if closed else "real_open_interval", fun(REAL, REAL, SET(REAL))), a, b)


def chain(prems, concl):
    t = concl
    for p in reversed(prems):
        t = IMP(p, t)
    return t


# ================================================================================ generator
VARS = {'nat': ['m', 'n', 'p'], 'int': ['i', 'j'], 'real': ['x', 'y', 'z']}
JT = {'nat': NAT, 'int': INT, 'real': REAL}
BOUND = {'nat': ['k', 'l', 'k2'], 'int': ['u', 'v', 'u2'], 'real': ['w', 't', 'w2'], 'a': ['c', 'e', 'c2'],
         'bool': ['q', 'r', 'q2']}
F_NN, F_NR, F_II = fun(NAT, NAT), fun(NAT, REAL), fun(INT, INT)
P_A, P_N = fun(TA, BOOL), fun(NAT, BOOL)


class G:
    def __init__(self, r):
        self.r = r

    def pick(self, xs):
        return xs[self.r.randrange(len(xs))]

    def chance(self, p):
        return self.r.random() < p

    def numT(self, w=(4, 2, 3)):
        return self.pick(['nat'] * w[0] + ['int'] * w[1] + ['real'] * w[2])

    def fresh(self, kind, scope):
        used = set(nm for nm, _ in scope)
        for nm in BOUND[kind]:
            if nm not in used:
                return nm
        return BOUND[kind][0] + str(len(scope))

    def literal(self, T):
        r = self.r
        if T == 'nat':
            return lit(NAT, r.randrange(0, 6))
        if T == 'int':
            return lit(INT, r.randrange(-3, 6))
        if self.chance(0.25):
            return lit(REAL, Fraction(r.randrange(-5, 8), self.pick([2, 3, 4])))
        return lit(REAL, r.randrange(-3, 6))

    def num(self, T, d, scope=()):
        r = self.r
        J = JT[T]
        if d <= 0 or self.chance(0.25):
            bvs = [nm for nm, t in scope if t == T]
            c = r.randrange(10)
            if bvs and c < 5:
                return V(self.pick(bvs), J)
            if c < 8:
                return V(self.pick(VARS[T]), J)
            return self.literal(T)
        c = r.randrange(100)
        if c < 24:
            return add(J, self.num(T, d - 1, scope), self.num(T, d - 1, scope))
        if c < 38:
            return sub(J, self.num(T, d - 1, scope), self.num(T, d - 1, scope))
        if c < 48:
            return mul(J, self.literal(T), self.num(T, d - 1, scope))
        if c < 54:
            return mul(J, self.num(T, d - 1, scope), self.num(T, d - 1, scope))
        if c < 62:
            return op2(self.pick(['min', 'max']), J, self.num(T, d - 1, scope), self.num(T, d - 1, scope))
        if c < 70:
            return ITE(J, self.boolean(d - 1, scope), self.num(T, d - 1, scope), self.num(T, d - 1, scope))
        if T == 'nat':
            if c < 86:
                return ap(V(self.pick(['f', 'g']), F_NN), self.num('nat', d - 1, scope))
            return self.num(T, d - 1, scope)
        if c < 76:
            return neg(J, self.num(T, d - 1, scope))
        if c < 82:
            return absv(J, self.num(T, d - 1, scope))
        if T == 'int':
            if c < 90:
                return ap(V('fi', F_II), self.num('int', d - 1, scope))
            return self.num(T, d - 1, scope)
        if c < 88:
            return div(self.num(T, d - 1, scope), self.num(T, d - 1, scope))
        if c < 93:
            return of_nat(REAL, self.num('nat', d - 1, scope))
        if c < 96:
            return ap(V('h', F_NR), self.num('nat', d - 1, scope))
        if c < 98:
            return power(REAL, self.num(T, d - 1, scope), 2)
        return ap(C("real_inverse", fun(REAL, REAL)), self.num(T, d - 1, scope))

    def elem_a(self, scope):
        bvs = [nm for nm, t in scope if t == 'a']
        if bvs and self.chance(0.6):
            return V(self.pick(bvs), TA)
        return V(self.pick(['a', 'd']), TA)

    def setterm(self, T, d, scope=()):
        """T in 'nat' 'int' 'real' 'a'."""
        J = TA if T == 'a' else JT[T]
        names = {'nat': ['S', 'T'], 'a': ['U', 'U2'], 'real': ['W'], 'int': ['SI']}[T]
        if d <= 0 or self.chance(0.35):
            c = self.r.randrange(10)
            if c < 8:
                return V(self.pick(names), SET(J))
            return C(self.pick(["empty_set", "univ"]), SET(J))
        c = self.r.randrange(100)
        if c < 45:
            return setop(self.pick(['union', 'inter', 'diff']), J, self.setterm(T, d - 1, scope),
                         self.setterm(T, d - 1, scope))
        if c < 60:
            e = self.elem_a(scope) if T == 'a' else self.num(T, 0, scope)
            return insert(J, e, self.setterm(T, d - 1, scope))
        if c < 85 or T == 'a':
            nm = self.fresh(T, scope)
            sc = tuple(scope) + ((nm, T),)
            if T == 'a':
                body = ap(V(self.pick(['P', 'Q']), P_A), V(nm, TA))
            else:
                body = self.atom_cmp(T, 1, sc, force=V(nm, J))
            return collect(nm, J, body)
        if T == 'real':
            return interval(self.chance(0.5), self.num('real', 0, scope), self.num('real', 0, scope))
        return V(self.pick(names), SET(J))

    def atom_cmp(self, T, d, scope, force=None):
        J = JT[T]
        a = force if force is not None else self.num(T, d, scope)
        b = self.num(T, d, scope)
        if force is not None and self.chance(0.5):
            a = add(J, a, self.literal(T))
        if self.chance(0.5):
            a, b = b, a
        c = self.r.randrange(6)
        if c == 0:
            return eq(J, a, b)
        return cmp(['less', 'less_eq', 'greater', 'greater_eq', 'less_eq'][c - 1], J, a, b)

    def atom(self, d, scope=()):
        c = self.r.randrange(100)
        if c < 62:
            return self.atom_cmp(self.numT(), d, scope)
        if c < 70:
            return ap(V(self.pick(['P', 'Q']), P_A), self.elem_a(scope))
        if c < 75:
            return ap(V('R', P_N), self.num('nat', d, scope))
        if c < 80:
            bvs = [nm for nm, t in scope if t == 'bool']
            return V(self.pick(bvs + ['b1', 'b2']), BOOL)
        if c < 84:
            return eq(TA, self.elem_a(scope), self.elem_a(scope))
        if c < 94:
            T = self.pick(['nat', 'nat', 'a', 'real', 'int'])
            e = self.elem_a(scope) if T == 'a' else self.num(T, max(0, d - 1), scope)
            return mem(TA if T == 'a' else JT[T], e, self.setterm(T, 1, scope))
        if c < 97:
            T = self.pick(['nat', 'nat', 'a', 'real'])
            J = TA if T == 'a' else JT[T]
            A, B = self.setterm(T, 1, scope), self.setterm(T, 1, scope)
            return subset(J, A, B) if self.chance(0.6) else eq(SET(J), A, B)
        if c < 99:
            return eq(F_NN, V('f', F_NN), V('g', F_NN))
        return self.pick([TRUE, FALSE])

    def boolean(self, d, scope=()):
        if d <= 0 or self.chance(0.3):
            return self.atom(max(d, 0), scope)
        c = self.r.randrange(100)
        if c < 12:
            return NOT(self.boolean(d - 1, scope))
        if c < 30:
            return AND(self.boolean(d - 1, scope), self.boolean(d - 1, scope))
        if c < 45:
            return OR(self.boolean(d - 1, scope), self.boolean(d - 1, scope))
        if c < 60:
            return IMP(self.boolean(d - 1, scope), self.boolean(d - 1, scope))
        if c < 67:
            return IFF(self.boolean(d - 1, scope), self.boolean(d - 1, scope))
        if c < 72:
            return ITE(BOOL, self.boolean(d - 1, scope), self.boolean(d - 1, scope), self.boolean(d - 1, scope))
        if c < 96:
            kind = self.pick(['nat', 'nat', 'nat', 'int', 'real', 'a', 'bool'])
            nm = self.fresh(kind, scope)
            J = {'a': TA, 'bool': BOOL}.get(kind) or JT[kind]
            sc = tuple(scope) + ((nm, kind),)
            body = self.boolean(d - 1, sc)
            if self.chance(0.6):
                # make the binder occur
                if kind == 'a':
                    extra = ap(V(self.pick(['P', 'Q']), P_A), V(nm, TA))
                elif kind == 'bool':
                    extra = V(nm, BOOL)
                else:
                    extra = self.atom_cmp(kind, 1, sc, force=V(nm, J))
                body = self.pick([AND, OR, IMP])(extra, body)
            return quant(self.pick(['all', 'exists']), nm, J, body)
        return self.atom(d, scope)

    # ---------------------------------------------------------------- families
    def small(self, T, scope=()):
        return self.num(T, self.r.randrange(0, 2), scope)

    def pred(self, kind, scope=()):
        """A random unary predicate on `kind` as a python function term -> bool term."""
        if kind == 'a':
            Pn = self.pick(['P', 'Q'])
            if self.chance(0.3):
                S = self.setterm('a', 1, scope)
                return lambda e: mem(TA, e, S)
            return lambda e: ap(V(Pn, P_A), e)
        J = JT[kind]
        c = self.r.randrange(6)
        s = self.small(kind, scope)
        cl = self.literal(kind)
        opn = self.pick(['less', 'less_eq', 'greater', 'greater_eq'])
        if c == 0:
            return lambda e: cmp(opn, J, add(J, e, cl), s)
        if c == 1 and kind == 'nat':
            fn = self.pick(['f', 'g'])
            return lambda e: cmp(opn, J, ap(V(fn, F_NN), e), add(J, e, cl))
        if c == 2 and kind == 'nat':
            return lambda e: ap(V('R', P_N), e)
        if c == 3:
            S = self.setterm(kind, 1, scope)
            return lambda e: mem(J, e, S)
        if c == 4:
            return lambda e: eq(J, mul(J, cl, e), s)
        return lambda e: cmp(opn, J, e, s)

    def fam_valid_prop(self):
        a, b, c = self.boolean(1), self.boolean(1), self.boolean(1)
        k = self.r.randrange(12)
        if k == 0:
            return [], IMP(a, a)
        if k == 1:
            return [AND(a, b)], AND(b, a)
        if k == 2:
            return [IMP(a, b)], IMP(NOT(b), NOT(a))
        if k == 3:
            return [], OR(a, NOT(a))
        if k == 4:
            return [], IFF(NOT(NOT(a)), a)
        if k == 5:
            return [IMP(a, b), IMP(b, c)], IMP(a, c)
        if k == 6:
            return [], IFF(NOT(AND(a, b)), OR(NOT(a), NOT(b)))
        if k == 7:
            return [a, IMP(a, b)], b
        if k == 8:
            return [IFF(a, b)], IFF(b, a)
        if k == 9:
            return [OR(a, b), NOT(a)], b
        if k == 10:
            return [], IFF(ITE(BOOL, a, b, c), AND(IMP(a, b), IMP(NOT(a), c)))
        return [a], OR(b, a)

    def fam_valid_arith(self):
        T = self.numT()
        J = JT[T]
        s, t, u = self.small(T), self.small(T), self.small(T)
        cl = self.literal(T)
        k = self.r.randrange(27)
        m, n = V('m', NAT), V('n', NAT)
        if k == 0:
            return [], eq(J, add(J, s, t), add(J, t, s))
        if k == 1:
            return [], eq(J, mul(J, cl, t), mul(J, t, cl))
        if k == 2:
            return [], eq(J, add(J, add(J, s, t), u), add(J, s, add(J, t, u)))
        if k == 3:
            return [], eq(J, mul(J, cl, add(J, t, u)), add(J, mul(J, cl, t), mul(J, cl, u)))
        if k == 4:
            return [le(J, s, t)], le(J, add(J, s, u), add(J, t, u))
        if k == 5:
            return [lt(J, s, t), le(J, t, u)], lt(J, s, u)
        if k == 6:
            return [], le(J, s, s)
        if k == 7:
            return [], NOT(lt(J, s, s))
        if k == 8:
            s, t = self.small('nat'), self.small('nat')
            return [], le(NAT, sub(NAT, s, t), s)
        if k == 9:
            s, t = self.small('nat'), self.small('nat')
            return [le(NAT, t, s)], eq(NAT, add(NAT, sub(NAT, s, t), t), s)
        if k == 10:
            s, t = self.small('nat'), self.small('nat')
            return [], eq(NAT, sub(NAT, add(NAT, s, t), t), s)
        if k == 11:
            return [], le(J, op2('min', J, s, t), s)
        if k == 12:
            return [], ge(J, op2('max', J, s, t), t)
        if k == 13:
            return [], eq(J, add(J, op2('min', J, s, t), op2('max', J, s, t)), add(J, s, t))
        if k == 14 and T != 'nat':
            return [], self.pick([ge(J, absv(J, s), lit(J, 0)), ge(J, absv(J, s), s)])
        if k == 15:
            return [], OR(eq(J, s, t), OR(lt(J, s, t), lt(J, t, s)))
        if k == 16:
            return [], le(J, ITE(J, self.boolean(1), s, t), op2('max', J, s, t))
        if k == 17:
            s, t = self.small('real'), self.small('real')
            return [NOT(eq(REAL, t, lit(REAL, 0)))], eq(REAL, mul(REAL, div(s, t), t), s)
        if k == 18:
            s = self.small('real')
            return [], eq(REAL, add(REAL, div(s, lit(REAL, 2)), div(s, lit(REAL, 2))), s)
        if k == 19:
            s = self.small('nat')
            return [], self.pick([le(NAT, lit(NAT, 0), s), gt(NAT, add(NAT, s, lit(NAT, 1)), lit(NAT, 0))])
        if k == 20:
            return [], self.pick([ge(REAL, of_nat(REAL, m), lit(REAL, 0)),
                                  eq(REAL, of_nat(REAL, add(NAT, m, n)), add(REAL, of_nat(REAL, m), of_nat(REAL, n)))])
        if k == 21 and T != 'nat':
            return [], eq(J, add(J, sub(J, s, t), t), s)
        if k == 22:
            s, t, u = self.small('nat'), self.small('nat'), self.small('nat')
            return [], eq(NAT, sub(NAT, sub(NAT, s, t), u), sub(NAT, s, add(NAT, t, u)))
        if k == 23:
            s, t = self.small('nat'), self.small('nat')
            return [lt(NAT, s, t)], eq(NAT, sub(NAT, s, t), lit(NAT, 0))
        if k == 24 and T != 'nat':
            return [], ge(J, mul(J, s, s), lit(J, 0))
        if k == 25:
            return [], OR(eq(NAT, sub(NAT, m, n), lit(NAT, 0)), gt(NAT, m, n))
        return [le(J, s, t), le(J, t, s)], eq(J, s, t)

    def fam_valid_quant(self):
        kind = self.pick(['nat', 'nat', 'nat', 'int', 'real', 'a'])
        J = TA if kind == 'a' else JT[kind]
        nm = BOUND[kind][0]
        bv = V(nm, J)
        phi, psi = self.pred(kind), self.pred(kind)
        t = self.elem_a(()) if kind == 'a' else self.small(kind)
        k = self.r.randrange(11)
        m = V('m', NAT)
        if k == 0:
            return [ALL(nm, J, phi(bv))], phi(t)
        if k == 1:
            return [phi(t)], EX(nm, J, phi(bv))
        if k == 2:
            return [ALL(nm, J, IMP(phi(bv), psi(bv))), ALL(nm, J, phi(bv))], ALL(nm, J, psi(bv))
        if k == 3:
            return [EX(nm, J, AND(phi(bv), psi(bv)))], EX(nm, J, phi(bv))
        if k == 4:
            return [NOT(EX(nm, J, phi(bv)))], ALL(nm, J, NOT(phi(bv)))
        if k == 5:
            kk = V('k', NAT)
            c = self.r.randrange(0, 4)
            return [], ALL('k', NAT, self.pick([ge(NAT, kk, lit(NAT, 0)), gt(NAT, add(NAT, kk, lit(NAT, c + 1)), lit(NAT, c))]))
        if k == 6:
            kk = V('k', NAT)
            s = self.small('nat')
            return [], self.pick([EX('k', NAT, gt(NAT, kk, s)),
                                  EX('k', NAT, eq(NAT, add(NAT, kk, kk), mul(NAT, lit(NAT, 2), s)))])
        if k == 7:
            return [ALL(nm, J, phi(bv))], EX(nm, J, phi(bv))
        if k == 8:
            kk = V('k', NAT)
            c = self.r.randrange(1, 4)
            return [gt(NAT, m, lit(NAT, c - 1))], EX('k', NAT, eq(NAT, add(NAT, kk, lit(NAT, c)), m))
        if k == 9:
            return [ALL(nm, J, AND(phi(bv), psi(bv)))], AND(ALL(nm, J, phi(bv)), ALL(nm, J, psi(bv)))
        return [EX(nm, J, phi(bv))], EX(nm, J, OR(phi(bv), psi(bv)))

    def fam_valid_set(self):
        T = self.pick(['nat', 'nat', 'a', 'real', 'int'])
        J = TA if T == 'a' else JT[T]
        A, B = self.setterm(T, 1), self.setterm(T, 1)
        e = self.elem_a(()) if T == 'a' else self.small(T)
        k = self.r.randrange(14)
        x = V('x', REAL)
        if k == 0:
            return [mem(J, e, A)], mem(J, e, setop('union', J, A, B))
        if k == 1:
            return [subset(J, A, B), mem(J, e, A)], mem(J, e, B)
        if k == 2:
            return [], subset(J, setop('inter', J, A, B), A)
        if k == 3:
            return [], eq(SET(J), setop('union', J, A, B), setop('union', J, B, A))
        if k == 4:
            kind = T
            phi = self.pred(kind)
            nm = BOUND[kind][0]
            return [mem(J, e, collect(nm, J, phi(V(nm, J))))], phi(e)
        if k == 5:
            return [], mem(J, e, insert(J, e, A))
        if k == 6:
            return [], NOT(mem(J, e, C("empty_set", SET(J))))
        if k == 7:
            return [], mem(J, e, C("univ", SET(J)))
        if k == 8:
            return [mem(J, e, setop('diff', J, A, B))], AND(mem(J, e, A), NOT(mem(J, e, B)))
        if k == 9:
            a, b = self.literal('real'), self.literal('real')
            return [mem(REAL, x, interval(True, a, b))], self.pick([le(REAL, x, b), le(REAL, a, x)])
        if k == 10:
            a, b = self.literal('real'), self.literal('real')
            return [mem(REAL, x, interval(False, a, b))], self.pick([lt(REAL, a, x), lt(REAL, x, b)])
        if k == 11:
            return [], subset(J, A, A)
        if k == 12:
            return [eq(SET(J), A, B), mem(J, e, A)], mem(J, e, B)
        c = self.r.randrange(0, 4)
        kk = V('k', NAT)
        return [], subset(NAT, collect('k', NAT, lt(NAT, kk, lit(NAT, c))), collect('k', NAT, lt(NAT, kk, lit(NAT, c + 1))))

    def fam_valid_fun(self):
        s, t = self.small('nat'), self.small('nat')
        f, g = V('f', F_NN), V('g', F_NN)
        kk = V('k', NAT)
        a, d = V('a', TA), V('d', TA)
        k = self.r.randrange(6)
        if k == 0:
            return [eq(NAT, s, t)], eq(NAT, ap(f, s), ap(f, t))
        if k == 1:
            return [ALL('k', NAT, eq(NAT, ap(f, kk), ap(g, kk)))], eq(NAT, ap(f, s), ap(g, s))
        if k == 2:
            return [eq(F_NN, f, g)], eq(NAT, ap(f, s), ap(g, s))
        if k == 3:
            return [ap(V('P', P_A), a), eq(TA, a, d)], ap(V('P', P_A), d)
        if k == 4:
            return [ALL('k', NAT, le(NAT, ap(f, kk), ap(g, kk)))], le(NAT, ap(f, s), ap(g, s))
        return [ALL('k', NAT, eq(NAT, ap(f, kk), kk))], eq(NAT, ap(f, ap(f, s)), s)

    def junk(self):
        """A conclusion that usually does not follow."""
        m, n = V('m', NAT), V('n', NAT)
        return self.pick([FALSE, eq(NAT, m, n), lt(NAT, m, n), V('b1', BOOL), gt(REAL, V('x', REAL), lit(REAL, 0)),
                          self.boolean(1)])

    def fam_nm_nat_binder(self):
        r = self.r
        kk, ll = V('k', NAT), V('l', NAT)
        m = V('m', NAT)
        c = r.randrange(1, 5)
        d = r.randrange(0, c)
        k = r.randrange(14)
        S, Tt = V('S', SET(NAT)), V('T', SET(NAT))
        if k == 0:
            return [], EX('k', NAT, eq(NAT, add(NAT, kk, lit(NAT, c)), lit(NAT, d)))
        if k == 1:
            return [], EX('k', NAT, lt(NAT, kk, self.pick([m, mul(NAT, lit(NAT, c), m), ap(V('f', F_NN), m)])))
        if k == 2:
            return [], ALL('l', NAT, EX('k', NAT, eq(NAT, add(NAT, kk, lit(NAT, c)), ll)))
        if k == 3:
            return [], NOT(ALL('k', NAT, self.pick([gt(NAT, add(NAT, kk, lit(NAT, c)), lit(NAT, d)),
                                                    ge(NAT, kk, lit(NAT, 0))])))
        if k == 4:
            return [ALL('k', NAT, gt(NAT, add(NAT, kk, lit(NAT, c)), m))], \
                self.pick([lt(NAT, m, lit(NAT, d)), FALSE, eq(NAT, m, V('n', NAT)), lt(NAT, m, lit(NAT, c))])
        if k == 5:
            true_on_nat = self.pick([ge(NAT, kk, lit(NAT, 0)), gt(NAT, add(NAT, kk, lit(NAT, c)), lit(NAT, d)),
                                     ge(NAT, mul(NAT, lit(NAT, 2), kk), kk), ge(NAT, add(NAT, kk, m), m),
                                     ge(REAL, of_nat(REAL, add(NAT, kk, lit(NAT, 1))), lit(REAL, 1))])
            return [ALL('k', NAT, true_on_nat)], self.junk()
        if k == 6:
            return [], EX('k', NAT, self.pick([lt(NAT, kk, lit(NAT, 0)), lt(NAT, add(NAT, kk, m), m)]))
        if k == 7:
            return [subset(NAT, collect('k', NAT, lt(NAT, kk, lit(NAT, c))), Tt),
                    subset(NAT, Tt, collect('k', NAT, ge(NAT, kk, lit(NAT, 0))))], self.junk()
        if k == 8:
            return [eq(SET(NAT), collect('k', NAT, ge(NAT, kk, lit(NAT, 0))), C("univ", SET(NAT)))], self.junk()
        if k == 9:
            return [], NOT(eq(SET(NAT), collect('k', NAT, gt(NAT, add(NAT, kk, lit(NAT, c)), lit(NAT, d))),
                              C("univ", SET(NAT))))
        if k == 10:
            return [NOT(EX('k', NAT, eq(NAT, add(NAT, kk, lit(NAT, c)), lit(NAT, d))))], self.junk()
        if k == 11:
            return [], OR(gt(NAT, m, lit(NAT, 0)), EX('k', NAT, lt(NAT, kk, m)))
        if k == 12:
            return [V('b1', BOOL)], AND(V('b1', BOOL), EX('k', NAT, eq(NAT, add(NAT, add(NAT, kk, m), lit(NAT, c)), lit(NAT, d))))
        phi = self.pred('nat')
        return [ALL('k', NAT, OR(phi(kk), ge(NAT, kk, lit(NAT, 0))))], self.junk()

    def fam_nm_of_nat_bound(self):
        r = self.r
        kk = V('k', NAT)
        c1 = r.randrange(0, 3)
        c2 = c1 + r.randrange(1, 3)
        rk = of_nat(REAL, kk)
        k = r.randrange(5)
        if k == 0:
            return [ALL('k', NAT, AND(IMP(eq(NAT, kk, lit(NAT, c1)), eq(REAL, rk, lit(REAL, c1))),
                                      IMP(eq(NAT, kk, lit(NAT, c2)), eq(REAL, rk, lit(REAL, c2)))))], self.junk()
        if k == 1:
            return [], EX('k', NAT, OR(AND(eq(NAT, kk, lit(NAT, c1)), NOT(eq(REAL, rk, lit(REAL, c1)))),
                                       AND(eq(NAT, kk, lit(NAT, c2)), NOT(eq(REAL, rk, lit(REAL, c2))))))
        if k == 2:
            return [ALL('k', NAT, AND(IMP(lt(REAL, rk, lit(REAL, c2)), lt(NAT, kk, lit(NAT, c2))),
                                      IMP(ge(REAL, rk, lit(REAL, c2)), ge(NAT, kk, lit(NAT, c2)))))], self.junk()
        if k == 3:
            return [], EX('k', NAT, gt(REAL, rk, self.small('real')))
        h = V('h', F_NR)
        return [ALL('k', NAT, le(REAL, ap(h, kk), rk))], le(REAL, ap(h, lit(NAT, c2)), lit(REAL, c2))

    def fam_nm_nat_var(self):
        m, n = V('m', NAT), V('n', NAT)
        one, zero = lit(NAT, 1), lit(NAT, 0)
        return [], self.pick([gt(NAT, m, zero), gt(NAT, add(NAT, m, n), n), ge(NAT, mul(NAT, m, n), n),
                              lt(NAT, sub(NAT, m, one), m), NOT(eq(NAT, m, zero)), le(NAT, n, mul(NAT, m, n)),
                              ge(NAT, m, one), gt(REAL, of_nat(REAL, m), lit(REAL, 0))])

    def fam_nm_nat_minus(self):
        m, n = self.small('nat'), self.small('nat')
        zero = lit(NAT, 0)
        k = self.r.randrange(7)
        if k == 0:
            return [], eq(NAT, add(NAT, sub(NAT, m, n), n), m)
        if k == 1:
            return [eq(NAT, sub(NAT, m, n), zero)], eq(NAT, m, n)
        if k == 2:
            return [lt(NAT, m, n)], lt(NAT, sub(NAT, m, n), zero)
        if k == 3:
            return [], eq(NAT, add(NAT, sub(NAT, m, n), sub(NAT, n, m)), zero)
        if k == 4:
            return [], eq(NAT, sub(NAT, m, sub(NAT, m, n)), n)
        if k == 5:
            p = self.small('nat')
            return [], eq(NAT, sub(NAT, add(NAT, m, p), n), add(NAT, sub(NAT, m, n), p))
        return [], eq(REAL, of_nat(REAL, sub(NAT, m, n)), sub(REAL, of_nat(REAL, m), of_nat(REAL, n)))

    def fam_nm_div(self):
        x, y = self.small('real'), self.pick([V('y', REAL), V('y', REAL), self.small('real')])
        one = lit(REAL, 1)
        k = self.r.randrange(6)
        if k == 0:
            return [], eq(REAL, mul(REAL, div(x, y), y), x)
        if k == 1:
            return [], eq(REAL, mul(REAL, y, div(one, y)), one)
        if k == 2:
            return [], eq(REAL, div(y, y), one)
        if k == 3:
            return [], eq(REAL, mul(REAL, ap(C("real_inverse", fun(REAL, REAL)), y), y), one)
        if k == 4:
            z = V('z', REAL)
            return [eq(REAL, div(x, y), z)], eq(REAL, x, mul(REAL, z, y))
        return [gt(REAL, x, lit(REAL, 0))], gt(REAL, mul(REAL, div(x, y), y), lit(REAL, 0))

    def fam_nm_fun_eq(self):
        f, g = V('f', F_NN), V('g', F_NN)
        P, Q = V('P', P_A), V('Q', P_A)
        fe = self.pick([eq(F_NN, f, g), eq(F_NN, f, g), eq(P_A, P, Q), eq(F_NN, g, f)])
        k = self.r.randrange(6)
        if k == 0:
            return [], NOT(fe)
        if k == 1:
            return [fe], self.junk()
        if k == 2:
            a = self.boolean(1)
            return [OR(fe, a)], self.pick([a, self.junk()])
        if k == 3:
            return [NOT(fe)], self.junk()
        if k == 4:
            return [], IFF(fe, V('b1', BOOL))
        return [], IMP(fe, self.junk())

    def fam_nm_capture(self):
        """forall a. exists b. R a b with both binders carrying the SAME name (built on indices): invalid, but valid
        if the inner binder captures the occurrences of the outer one (R b b is satisfiable). Also reached through
        the binders of the set theorems the wrapper unfolds (named x)."""
        r = self.r
        T = self.pick(['nat', 'int', 'int', 'real'])
        J = JT[T]
        nm = self.pick(['x', 'x', 'k', 'u', 'y', 'n'])
        a, b = V('#a', J), V('#b', J)
        c = r.randrange(2, 5)
        rels = [eq(J, a, mul(J, lit(J, c), b)), eq(J, a, mul(J, b, b)), eq(J, add(J, a, lit(J, 1)), mul(J, lit(J, c), b)),
                eq(J, mul(J, lit(J, c), b), a), AND(le(J, b, a), le(J, mul(J, lit(J, c), a), b))]
        if T != 'nat':
            rels.append(eq(J, a, add(J, mul(J, b, b), lit(J, 1))) if T == 'real' else eq(J, a, mul(J, lit(J, -c), b)))
        R = self.pick(rels)

        def bind(q, var, body):
            # bind under the common name nm
            return ap(C(q, fun(fun(J, BOOL), BOOL)), ["abs", nm, J, close(body, var[1], J)])
        inner = bind("exists", b, R)
        k = r.randrange(6)
        if k == 0:
            return [], bind("all", a, inner)
        if k == 1:
            return [], NOT(bind("exists", a, NOT(inner)))
        if k == 2:
            return [self.boolean(1)], bind("all", a, inner)
        setc = ap(C("collect", fun(fun(J, BOOL), SET(J))), ["abs", self.pick(['y', nm]), J, close(inner, a[1], J)])
        if k == 3:
            return [], eq(SET(J), setc, C("univ", SET(J)))
        if k == 4:
            return [], subset(J, C("univ", SET(J)), setc)
        return [], bind("all", a, mem(J, a, setc))

    def fam_nm_float(self):
        r = self.r
        x = self.pick([V('x', REAL), lit(REAL, 0), lit(REAL, 1)])
        k = r.randrange(3)
        if k == 0:
            q = self.pick([3, 6, 7, 9])
            mlt = self.pick([2, 3, 5])
            p = r.randrange(1, q)
            return [], NOT(eq(REAL, add(REAL, x, raw_frac(p * mlt, q * mlt)), add(REAL, x, lit(REAL, Fraction(p, q)))))
        if k == 1:
            q = self.pick([10, 10, 20, 30])
            a, b = r.randrange(1, 8), r.randrange(1, 8)
            tot = Fraction(a + b, q)
            return [], NOT(eq(REAL, add(REAL, raw_frac(a, q) if Fraction(a, q).denominator != q else lit(REAL, Fraction(a, q)),
                                        raw_frac(b, q)), lit(REAL, tot)))
        q = self.pick([3, 6, 7])
        p = r.randrange(1, 6)
        return [eq(REAL, V('y', REAL), mul(REAL, raw_frac(p * 2, q * 2), lit(REAL, q)))], \
            self.pick([eq(REAL, V('y', REAL), lit(REAL, p)), NOT(eq(REAL, V('y', REAL), lit(REAL, p)))])

    def fam_nm_unknown(self):
        r = self.r
        f = V('f', F_NN)
        kk = V('k', NAT)
        c = r.randrange(1, 3)
        a, b = r.randrange(0, 3), r.randrange(1, 4)
        k = r.randrange(3)
        if k == 0:
            return [ALL('k', NAT, eq(NAT, ap(f, kk), ap(f, add(NAT, kk, lit(NAT, c)))))], eq(NAT, ap(f, lit(NAT, a)), lit(NAT, b))
        if k == 1:
            return [ALL('k', NAT, gt(NAT, ap(f, add(NAT, kk, lit(NAT, 1))), ap(f, kk)))], \
                self.pick([gt(NAT, ap(f, lit(NAT, 0)), lit(NAT, 0)), lt(NAT, ap(f, lit(NAT, a + 1)), ap(f, lit(NAT, a)))])
        return [ALL('k', NAT, ge(NAT, ap(f, add(NAT, kk, lit(NAT, c))), ap(f, kk)))], \
            gt(NAT, ap(f, lit(NAT, b)), ap(f, lit(NAT, 0)))

    def fam_random(self):
        n = self.pick([0, 0, 1, 1, 2])
        d = self.pick([1, 2, 2, 2, 3])
        return [self.boolean(d - 1 if d > 1 else 1) for _ in range(n)], self.boolean(d)

    FAMILIES = [('random', 22), ('valid_prop', 8), ('valid_arith', 17), ('valid_quant', 10), ('valid_set', 8),
                ('valid_fun', 4), ('nm_nat_binder', 12), ('nm_of_nat_bound', 3), ('nm_nat_var', 3),
                ('nm_nat_minus', 4), ('nm_div', 3), ('nm_fun_eq', 2.5), ('nm_float', 1.5), ('nm_unknown', 2),
                ('nm_capture', 3)]

    def z3_case(self):
        tot = sum(w for _, w in self.FAMILIES)
        x = self.r.random() * tot
        for fam, w in self.FAMILIES:
            x -= w
            if x < 0:
                break
        prems, concl = getattr(self, 'fam_' + fam)()
        prems = list(prems)
        if self.chance(0.15):
            prems.insert(self.r.randrange(len(prems) + 1), self.boolean(1))
        if self.chance(0.08):
            concl = OR(concl, self.pick([FALSE, self.atom(1)]))
        entry = 'macro' if self.chance(0.4) else 'solve'
        hyps = []
        if entry == 'macro':
            pool = [V('H1', BOOL), V('H2', BOOL), eq(NAT, V('m', NAT), V('m', NAT)), V('H3', BOOL)]
            for _ in prems:
                hyps.append([self.pick(pool) for _ in range(self.pick([0, 0, 1, 2]))])
        if self.chance(0.3):
            # bound names carry no meaning (terms are de Bruijn): reuse names of enclosing binders, of free variables
            # and of the binders of the library theorems the wrapper unfolds with
            pool = ['x', 'x', 'y', 'k', 'n', 'm', 'i', 'rn', 'A'] + [self.pick(['x', 'k', 'u', 'w'])] * 3
            prems = [rebind(p, self, pool) for p in prems]
            concl = rebind(concl, self, pool)
        return {'entry': entry, 'fam': fam, 'prems': prems, 'concl': concl, 'hyps': hyps}


# ================================================================================ SymPy goals
class GS(G):
    def rexpr(self, d, var='x'):
        """Random real expression in one variable."""
        x = V(var, REAL)
        if d <= 0 or self.chance(0.25):
            return x if self.chance(0.6) else lit(REAL, self.pick([0, 1, 2, 3, -1, -2, Fraction(1, 2)]))
        c = self.r.randrange(100)
        a, b = self.rexpr(d - 1, var), self.rexpr(d - 1, var)
        if c < 25:
            return add(REAL, a, b)
        if c < 45:
            return sub(REAL, a, b)
        if c < 65:
            return mul(REAL, a, b)
        if c < 80:
            return div(a, b)
        if c < 90:
            return power(REAL, a, self.pick([2, 2, 3]))
        if c < 96:
            return absv(REAL, a)
        return neg(REAL, a)

    def endpoints(self):
        r = self.r
        a = Fraction(r.randrange(-6, 7), self.pick([1, 1, 1, 2]))
        w = Fraction(r.randrange(1, 9), self.pick([1, 1, 2]))
        c = r.randrange(20)
        if c == 0:
            return a, a
        if c == 1:
            return a + w, a
        return a, a + w

    def ground(self, T, d):
        """Ground numeral expression and its value under PLAIN (SymPy-like) arithmetic, or None."""
        J = JT[T]
        r = self.r
        if d <= 0 or self.chance(0.3):
            v = r.randrange(0, 7) if T == 'nat' else self.pick([0, 1, 2, 3, 5, -1, -2, Fraction(1, 2), Fraction(3, 2)])
            return lit(J, v), Fraction(v)
        (a, va), (b, vb) = self.ground(T, d - 1), self.ground(T, d - 1)
        c = r.randrange(100)
        if va is None or vb is None:
            return add(J, a, b), None
        if c < 30:
            return add(J, a, b), va + vb
        if c < 65:
            return sub(J, a, b), va - vb
        if c < 85 or T == 'nat':
            return mul(J, a, b), va * vb
        return div(a, b), (va / vb if vb != 0 else None)

    def sympy_partial(self):
        """Goals through sqrt / log / exp / real power: identities SymPy applies on its own (exp(log u) = u,
        sqrt(u)**2 = u, u**a * u**b = u**(a+b)) hold in the library only on part of the line."""
        r = self.r
        x = V('x', REAL)
        rf = lambda name, a: ap(C(name, fun(REAL, REAL)), a)
        rpow = lambda a, b: ap(C("power", fun(REAL, REAL, REAL)), a, b)
        one, two, half = lit(REAL, 1), lit(REAL, 2), lit(REAL, Fraction(1, 2))
        c = lit(REAL, self.pick([-4, -1, 0, 1, 2, 4, 9, Fraction(1, 4), -2]))
        u = self.pick([x, x, x, c, c, sub(REAL, x, one), add(REAL, x, one), power(REAL, x, 2), neg(REAL, x), mul(REAL, two, x)])
        pairs = [(rf('exp', rf('log', u)), u), (power(REAL, rf('sqrt', u), 2), u), (mul(REAL, rf('sqrt', u), rf('sqrt', u)), u),
                 (mul(REAL, rpow(u, half), rpow(u, half)), u), (mul(REAL, rpow(u, neg(REAL, one)), u), one),
                 (rf('log', rf('exp', u)), u), (rf('sqrt', power(REAL, u, 2)), u), (rf('sqrt', power(REAL, u, 2)), absv(REAL, u)),
                 (rpow(rpow(u, two), half), u), (rf('exp', mul(REAL, two, rf('log', u))), power(REAL, u, 2)),
                 (power(REAL, rf('sqrt', u), 2), absv(REAL, u)), (rpow(u, one), u), (rf('log', one), lit(REAL, 0)),
                 (rf('sqrt', lit(REAL, 4)), two), (rf('sqrt', lit(REAL, -4)), lit(REAL, -2)), (rf('sqrt', lit(REAL, -4)), two),
                 (mul(REAL, rf('exp', u), rf('exp', neg(REAL, u))), one), (div(rf('sqrt', u), rf('sqrt', u)), one),
                 (rpow(u, lit(REAL, 0)), one), (rf('exp', rf('log', u)), absv(REAL, u)),
                 # a partial operation INSIDE the restricted operand of another one (SymPy simplifies it away first)
                 (div(one, div(u, u)), one), (rf('sqrt', div(u, u)), one), (div(u, power(REAL, rf('sqrt', u), 2)), one),
                 (rf('log', div(u, u)), lit(REAL, 0)), (div(one, rf('exp', rf('log', u))), div(one, u)),
                 # trigonometric functions at their poles: tan = sin / cos, sec = 1 / cos ... with x / 0 = 0
                 (rf('tan', div(C('pi', REAL), two)), lit(REAL, 0)), (rf('csc', lit(REAL, 0)), lit(REAL, 0)),
                 (rf('sec', div(C('pi', REAL), two)), lit(REAL, 0)), (rf('cot', lit(REAL, 0)), lit(REAL, 0)),
                 (mul(REAL, rf('tan', u), rf('cos', u)), rf('sin', u))]
        nested = [(div(one, div(u, u)), one), (rf('sqrt', div(u, u)), one), (div(u, power(REAL, rf('sqrt', u), 2)), one),
                  (rf('log', div(u, u)), lit(REAL, 0)), (div(div(u, u), div(u, u)), one), (div(one, div(one, div(u, u))), one)]
        a, b = self.pick(pairs) if self.chance(0.7) else self.pick(nested)
        if self.chance(0.25):
            a, b = b, a
        prems = []
        k = r.randrange(10)
        if k < 5:
            fam = 's0-partial'
            concl = self.pick([eq(REAL, a, b), eq(REAL, a, b), ge(REAL, a, b), le(REAL, a, b), NOT(eq(REAL, a, add(REAL, b, one))),
                               NOT(eq(REAL, a, b)), gt(REAL, a, lit(REAL, 0))])
        else:
            fam = 's1-partial'
            lo, hi = self.endpoints()
            closed = self.chance(0.6)
            prems = [mem(REAL, x, interval(closed, lit(REAL, lo), lit(REAL, hi)))]
            concl = self.pick([eq(REAL, a, b), ge(REAL, a, b), le(REAL, a, b), NOT(eq(REAL, a, add(REAL, b, one))),
                               gt(REAL, a, lit(REAL, 0)), NOT(eq(REAL, a, b)),
                               ge(REAL, rf('sqrt', u), lit(REAL, 0)), gt(REAL, rf('exp', rf('log', u)), lit(REAL, 0)),
                               NOT(eq(REAL, rf('sqrt', u), lit(REAL, 0))), ge(REAL, rpow(u, half), lit(REAL, 0))])
        hyps = [[] for _ in prems]
        return {'entry': 'sympy', 'fam': fam, 'prems': prems, 'concl': concl, 'hyps': hyps}

    def sympy_case(self):
        r = self.r
        if self.chance(0.25):
            return self.sympy_partial()
        x, y = V('x', REAL), V('y', REAL)
        k = r.randrange(100)
        prems, fam = [], None
        zero, one = lit(REAL, 0), lit(REAL, 1)
        if k < 14:
            fam = 's0-ground'
            T = self.pick(['nat', 'nat', 'real'])
            J = JT[T]
            (a, va), (b, vb) = self.ground(T, 2), self.ground(T, 2)
            ops = ['less', 'less_eq', 'greater', 'greater_eq', 'eq', 'neq']
            if va is not None and vb is not None and self.chance(0.8):
                ops = [o for o, ok in (('less', va < vb), ('less_eq', va <= vb), ('greater', va > vb),
                                      ('greater_eq', va >= vb), ('eq', va == vb), ('neq', va != vb)) if ok]
            o = self.pick(ops)
            concl = eq(J, a, b) if o == 'eq' else NOT(eq(J, a, b)) if o == 'neq' else cmp(o, J, a, b)
        elif k < 30:
            fam = 's0-eq'
            e, e2 = self.rexpr(1), self.rexpr(1)
            c = lit(REAL, self.pick([1, 2, 3, Fraction(1, 2)]))
            pairs = [(add(REAL, e, c), add(REAL, c, e)), (mul(REAL, e, c), mul(REAL, c, e)), (sub(REAL, e, e), zero),
                     (div(e, e), one), (mul(REAL, e, div(one, e)), one), (div(power(REAL, e, 2), e), e),
                     (mul(REAL, lit(REAL, 2), e), add(REAL, e, e)), (div(mul(REAL, e, e2), e2), e), (div(e, one), e),
                     (mul(REAL, zero, e), zero), (add(REAL, e, one), e), (mul(REAL, e, e), power(REAL, e, 2)),
                     (div(zero, e), zero), (sub(REAL, add(REAL, e, e2), e2), e),
                     (add(REAL, div(one, e), div(one, e)), div(lit(REAL, 2), e))]
            a, b = self.pick(pairs)
            concl = eq(REAL, a, b)
        elif k < 40:
            fam = 's0-neq'
            e = self.rexpr(1)
            pairs = [(x, zero), (add(REAL, e, one), e), (mul(REAL, x, add(REAL, x, one)), add(REAL, power(REAL, x, 2), x)),
                     (lit(REAL, 1), lit(REAL, 2)), (e, self.rexpr(1)), (mul(REAL, lit(REAL, 2), x), add(REAL, x, x)),
                     (power(REAL, x, 2), lit(REAL, -1)), (div(x, x), zero), (absv(REAL, x), lit(REAL, -1))]
            a, b = self.pick(pairs)
            concl = NOT(eq(REAL, a, b))
        else:
            a, b = self.endpoints()
            closed = self.chance(0.6)
            prems = [mem(REAL, x, interval(closed, lit(REAL, a), lit(REAL, b)))]
            la, lb = lit(REAL, a), lit(REAL, b)
            M = max(abs(a), abs(b))
            out = self.pick([a - 1, b + 1, a - Fraction(1, 2), b + 2])
            inside = (a + b) / 2
            cpt = self.pick([out, out, inside, a, b, Fraction(0)])
            lc = lit(REAL, cpt)
            if k < 58:
                fam = 's1-bounds'
                concl = self.pick([
                    ge(REAL, x, la), le(REAL, x, lb), gt(REAL, x, la), lt(REAL, x, lb),
                    ge(REAL, x, lit(REAL, a - 1)), le(REAL, x, lit(REAL, b + 1)), ge(REAL, sub(REAL, x, la), zero),
                    ge(REAL, mul(REAL, sub(REAL, x, la), sub(REAL, lb, x)), zero),
                    le(REAL, power(REAL, x, 2), lit(REAL, M * M)), le(REAL, absv(REAL, x), lit(REAL, M)),
                    ge(REAL, power(REAL, x, 2), zero), lt(REAL, power(REAL, x, 2), lit(REAL, M * M + 1)),
                    ge(REAL, add(REAL, mul(REAL, lit(REAL, 2), x), one), lit(REAL, 2 * a + 1)),
                    le(REAL, sub(REAL, one, x), lit(REAL, 1 - a)), gt(REAL, add(REAL, power(REAL, x, 2), one), zero)])
            elif k < 76:
                fam = 's1-division'
                den = sub(REAL, x, lc)
                concl = self.pick([
                    gt(REAL, div(one, den), zero) if cpt <= a else lt(REAL, div(one, den), zero),
                    ge(REAL, div(x, x), one), gt(REAL, div(x, x), zero), NOT(eq(REAL, div(one, den), zero)),
                    NOT(eq(REAL, mul(REAL, den, div(one, den)), zero)), ge(REAL, div(power(REAL, den, 2), den), lit(REAL, a - cpt)),
                    le(REAL, div(den, den), one), ge(REAL, div(one, add(REAL, power(REAL, x, 2), one)), zero),
                    gt(REAL, div(one, power(REAL, den, 2)), zero), le(REAL, div(absv(REAL, den), den), one),
                    ge(REAL, mul(REAL, x, div(one, x)), one), lt(REAL, div(sub(REAL, x, lb), den), one)])
            elif k < 86:
                fam = 's1-neq'
                concl = NOT(eq(REAL, self.pick([x, sub(REAL, x, lc), power(REAL, x, 2), add(REAL, power(REAL, x, 2), one),
                                                mul(REAL, sub(REAL, x, lc), sub(REAL, x, lit(REAL, out))), y,
                                                sub(REAL, power(REAL, x, 2), lit(REAL, cpt * cpt))]),
                               self.pick([zero, zero, lc, lit(REAL, out)])))
            elif k < 90:
                fam = 's1-other-var'
                concl = self.pick([NOT(eq(REAL, y, zero)), ge(REAL, y, y), le(REAL, mul(REAL, x, y), mul(REAL, lb, y)),
                                   gt(REAL, add(REAL, power(REAL, y, 2), one), zero), ge(REAL, add(REAL, x, y), add(REAL, la, y))])
            else:
                fam = 's1-random'
                e1, e2 = self.rexpr(2), self.rexpr(1)
                o = self.pick(['less', 'less_eq', 'greater', 'greater_eq', 'neq'])
                concl = NOT(eq(REAL, e1, e2)) if o == 'neq' else cmp(o, REAL, e1, e2)
        hyps = [[self.pick([V('H1', BOOL), V('H2', BOOL)]) for _ in range(self.pick([0, 0, 1]))] for _ in prems]
        return {'entry': 'sympy', 'fam': fam, 'prems': prems, 'concl': concl, 'hyps': hyps}


def z3_strategy():
    from hypothesis import strategies as st
    return st.randoms(use_true_random=True).map(lambda r: G(r).z3_case())


def sympy_strategy():
    from hypothesis import strategies as st
    return st.randoms(use_true_random=True).map(lambda r: GS(r).sympy_case())


# ================================================================================ code under test
z3wrapper = sympywrapper = None
_hol = {}


def setup():
    global z3wrapper, sympywrapper
    import data.real  # noqa: F401  (must be imported before load_theory in a fresh process)
    import integral.inequality  # noqa: F401
    from logic import basic
    from kernel import theory, term, thm, type as hol_type
    basic.load_theory('realintegral')
    from prover import z3wrapper as zw
    from prover import sympywrapper as sw
    z3wrapper, sympywrapper = zw, sw
    if not zw.z3_loaded:
        raise SelfTestError('z3 is not installed: the Z3 step would assert without solving')
    if zw.check_z3 is not True:
        raise SelfTestError('z3wrapper.check_z3 is not at its default (True)')
    _hol.update(theory=theory, thy=theory.thy, term=term, Thm=thm.Thm, BoolType=hol_type.BoolType)
    import z3
    z3.set_param('rlimit', Z3_RLIMIT)
    z3.set_param('smt.random_seed', 0)
    z3.set_param('sat.random_seed', 0)
    z3.set_param('nlsat.seed', 0)
    self_test()
    import gc
    gc.collect()
    gc.freeze()             # fewer copy-on-write faults in the forked shard processes


def decode(j):
    t = codec.term_dec(j)
    _hol['theory'].thy = _hol['thy']
    try:
        T = t.checked_get_type()
    except Exception as e:
        raise CaseInvalid('ill-typed term: %s' % e)
    if T != _hol['BoolType']:
        raise CaseInvalid('not a proposition')
    return t


def _parse_case(case):
    try:
        entry = case['entry']
        prems_j, concl_j = list(case['prems']), case['concl']
        hyps_j = list(case.get('hyps') or [])
        fam = str(case.get('fam', '?'))
    except Exception:
        raise CaseInvalid('case')
    if entry not in ('solve', 'macro', 'sympy'):
        raise CaseInvalid('entry')
    prems = [decode(p) for p in prems_j]
    concl = decode(concl_j)
    while len(hyps_j) < len(prems):
        hyps_j.append([])
    hyps = [[decode(h) for h in hs] for hs in hyps_j[:len(prems)]]
    return entry, fam, prems_j, concl_j, prems, concl, hyps


def check_theorem(th, concl, hyps, H, case, who):
    """The macro must return exactly `hyps(prevs) |- goal`."""
    Thm = _hol['Thm']
    if not isinstance(th, Thm):
        H.violation('%s:bad-result' % who, case, repr(th)[:200])
        return
    if th.prop != concl:
        H.violation('%s:wrong-conclusion' % who, case, 'returned %s' % th)
    want = set()
    for hs in hyps:
        want.update(hs)
    if set(th.hyps) != want:
        H.violation('%s:wrong-hyps' % who, case, 'hyps %s, expected the union %s' %
                    ([str(h) for h in th.hyps], sorted(str(h) for h in want)))


# -------------------------------------------------------------------------------- z3 entries
def call_z3(entry, prems, concl, hyps):
    """-> ('accepted', thm or None) | ('rejected', why) | ('timeout', None)."""
    if z3wrapper.check_z3 is not True:
        raise SelfTestError('z3wrapper.check_z3 was changed')
    _hol['theory'].thy = _hol['thy']
    Implies, Thm = _hol['term'].Implies, _hol['Thm']
    try:
        with cpu_limit(WRAPPER_CPU_S):
            if entry == 'solve':
                r = z3wrapper.solve(Implies(*(list(prems) + [concl])))
                return ('accepted', None) if r is True else ('rejected', 'not solved')
            prevs = [Thm(p, *hs) for p, hs in zip(prems, hyps)]
            th = z3wrapper.Z3Macro().eval(concl, prevs)
            return ('accepted', th)
    except Timeout:
        return ('timeout', None)
    except AssertionError:
        return ('rejected', 'not solved')
    except Exception as e:
        return ('rejected', 'exception:' + type(e).__name__)


def find_countermodel(P, Cn, seed, H=None):
    """Oracle steps (1)-(3).  Returns (countermodel or None, status) where status in
    'refuted' 'valid' 'unknown' 'unvalidated' 'unsupported'."""
    status = 'unsupported'
    try:
        r, s, enc = L.check_negated(P, Cn)
        status = {'sat': 'unvalidated', 'unsat': 'valid', 'unknown': 'unknown'}[r]
        if r == 'sat':
            try:
                env, univ = L.read_model(s, enc)
                v = L.evaluate_goal(P, Cn, env, univ)
                if v is False:
                    return ('z3-model', env, univ), 'refuted'
                if v is True and H is not None:
                    H.note('reference_model_rejected_by_evaluator')
            except L.Unsupported:
                if H is not None:
                    H.note('reference_model_unreadable')
    except L.Unsupported as e:
        status = 'unsupported'
        if H is not None:
            H.note('reference_encoding_unsupported:' + ' '.join(str(e).split(' ')[:3]))
    except Exception as e:       # z3 errors inside the oracle are never a verdict
        if H is not None:
            H.note('oracle_z3_error:' + type(e).__name__)
        status = 'unsupported'
    quantified = max(L.quant_depth(n) for n in list(P) + [Cn]) > 0
    budget = (60 if quantified else 200) if status == 'valid' else (150 if quantified else 500)
    try:
        for env, univ in L.enumerate_models(P, Cn, budget, seed):
            if L.evaluate_goal(P, Cn, env, univ) is False:
                return ('enumeration', env, univ), 'refuted'
    except L.Unsupported:
        pass
    return None, status


def run_z3(case, H):
    entry, fam, prems_j, concl_j, prems, concl, hyps = _parse_case(case)
    verdict, th = call_z3(entry, prems, concl, hyps)
    klass = ['fam:' + fam, entry + ':' + verdict]
    if any(binder_name_clash(t) for t in list(prems_j) + [concl_j]):
        klass.append('binder-name-clash')
    if verdict == 'timeout':
        H.inconc('wrapper-timeout')
        H.case(case, False, klass)
        return
    if verdict == 'rejected':
        if th != 'not solved':
            klass.append('rejected:' + th)
        H.case(case, False, klass)
        return
    if entry == 'macro':
        check_theorem(th, concl, hyps, H, case, 'z3macro')
    rd = L.Reader()
    try:
        P = [rd.read(p) for p in prems_j]
        Cn = rd.read(concl_j)
    except L.Unsupported as e:
        H.inconc('oracle-cannot-read:' + str(e).split(' ')[0])
        H.case(case, True, klass)
        return
    feats = sorted(L.features(P, Cn))
    klass += ['accepted:' + f for f in feats]
    if any(L.has_tag([p], 'pow') or any(x[0] == 'ofnat' and x[1] == 'int' for x in L.walk(p)) for p in P):
        klass.append('accepted:premise-the-wrapper-drops')
    cm, status = find_countermodel(P, Cn, harness.digest(case) & 0xffffffff, H)
    if cm is not None:
        feature = L.explain(P, Cn)
        if feature == 'unexplained' and 'binder-name-clash' in klass:
            feature = 'binder-name-clash'
        how, env, univ = cm
        H.violation('z3:accepts-invalid:' + feature, case,
                    '%s accepted %s ; counter-model (%s, |tv|=%s): %s' % (
                        entry, ' --> '.join(str(t) for t in prems + [concl]), how, univ, L.show_env(env)))
        klass.append('oracle:refuted')
    elif status == 'valid':
        klass.append('oracle:confirmed-valid')
    else:
        H.inconc('oracle-' + status)
        klass.append('oracle:' + status)
    H.case(case, True, klass)


# -------------------------------------------------------------------------------- sympy entry
def _subterms(t):
    stack = [t]
    while stack:
        u = stack.pop()
        yield u
        if u.is_comb():
            stack.append(u.fun)
            stack.append(u.arg)
        elif u.is_abs():
            stack.append(u.body)


def sympy_points(prems, concl):
    """Candidate environments (name -> Fraction) satisfying the interval premise, or (None, reason)."""
    from vlib import arith
    fvs = arith.free_vars(concl)
    for p in prems:
        for v in arith.free_vars(p):
            if v not in fvs:
                fvs.append(v)
    if any(T != 'real' for _, T in fvs):
        return None, 'non-real-variable'
    consts = set()
    for t in [concl] + list(prems):
        for u in _subterms(t):
            if u.is_comb() and u.head.is_const() and u.head.name in ('of_nat', 'real_divide', 'uminus') or u.is_const():
                v = arith.eval_num(u) if arith.term_type(u) == 'real' else None
                if isinstance(v, Fraction):
                    consts.add(v)
    consts = sorted(consts, key=lambda c: (abs(c), c))[:8]
    special = set([Fraction(0), Fraction(1), Fraction(-1), Fraction(1, 2), Fraction(-1, 2), Fraction(2), Fraction(-2)])
    for c in consts:
        special.update([c, -c])
        for d in consts:
            special.update([c + d, c - d])
            if d != 0:
                special.add(c / d)
    ivar, lo, hi, closed = None, None, None, True
    if prems:
        p = prems[0]
        if not (p.is_comb('member', 2) and p.arg1.is_var() and
                (p.arg.is_comb('real_closed_interval', 2) or p.arg.is_comb('real_open_interval', 2))):
            return None, 'premise-not-interval'
        ivar = p.arg1.name
        closed = p.arg.is_comb('real_closed_interval', 2)
        lo, hi = arith.eval_num(p.arg.arg1), arith.eval_num(p.arg.arg)
        if not isinstance(lo, Fraction) or not isinstance(hi, Fraction):
            return None, 'inexact-endpoints'
    names = [nm for nm, _ in fvs]
    if ivar is not None and ivar not in names:
        names.append(ivar)
    cands = {}
    for nm in names:
        if nm == ivar:
            pts = set(s for s in special)
            if hi > lo:
                for i in range(25):
                    pts.add(lo + (hi - lo) * i / 24)
            pts.update([lo, hi])
            if closed:
                pts = [q for q in pts if lo <= q <= hi]
            else:
                pts = [q for q in pts if lo < q < hi]
            cands[nm] = sorted(pts)
        else:
            cands[nm] = sorted(special, key=lambda c: (abs(c), c))[:9]
    import itertools
    total = 1
    for nm in names:
        total *= max(1, len(cands[nm]))
    envs = []
    if total <= 3000:
        for combo in itertools.product(*[cands[nm] for nm in names]):
            envs.append(dict(zip(names, combo)))
    else:
        for i, combo in enumerate(itertools.product(*[cands[nm][:6] for nm in names])):
            if i >= 3000:
                break
            envs.append(dict(zip(names, combo)))
    return envs, None


def sympy_feature(prems, concl, env):
    """Root-cause label of a refuted SymPy goal."""
    from vlib import arith
    zero_div = False
    nat_minus = False
    for u in _subterms(concl):
        if u.is_comb('real_divide', 2):
            v = arith.eval_num(u.arg, env)
            if isinstance(v, Fraction) and v == 0:
                zero_div = True
        if u.is_comb('minus', 2) and arith.term_type(u) == 'nat':
            a, b = arith.eval_num(u.arg1, env), arith.eval_num(u.arg, env)
            if isinstance(a, Fraction) and isinstance(b, Fraction) and a < b:
                nat_minus = True
    if zero_div:
        return 'div-zero'
    if nat_minus:
        return 'nat-minus'
    for u in _subterms(concl):
        if u.is_comb('sqrt', 1) or u.is_comb('log', 1) or (u.is_comb('power', 2) and arith.term_type(u.arg) == 'real'):
            v = arith.eval_num(u.arg if not u.is_comb('power', 2) else u.arg1, env)
            if v is None or arith.compare(v, Fraction(0)) in (0, -1):
                return 'outside-domain-of-sqrt-log-rpow'
    neq = concl.is_not() and concl.arg.is_equals()
    if prems:
        ivar = prems[0].arg1.name
        if any(nm != ivar for nm, _ in arith.free_vars(concl)):
            return 'other-variable'
        return 'interval:' + ('neq' if neq else 'inequality')
    if neq:
        return 'neq-structural'
    return 'unexplained:' + (concl.head.name if concl.is_comb() else 'atom')


def run_sympy(case, H):
    from vlib import arith
    entry, fam, prems_j, concl_j, prems, concl, hyps = _parse_case(case)
    if len(prems) > 1:
        raise CaseInvalid('sympy entry takes at most one premise')
    Thm = _hol['Thm']
    _hol['theory'].thy = _hol['thy']
    prevs = [Thm(p, *hs) for p, hs in zip(prems, hyps)]
    macro = sympywrapper.SymPyMacro()
    klass = ['fam:' + fam]
    old_stdout = sys.stdout
    try:
        sys.stdout = open(os.devnull, 'w')       # solve_with_interval prints on sympy errors
        try:
            with cpu_limit(SYMPY_CPU_S):
                ok = macro.can_eval(concl, prevs)
            verdict = 'accepted' if ok is True else 'rejected'
            if ok is not True and ok is not False:
                verdict = 'accepted' if ok else 'rejected'
        except Timeout:
            verdict = 'timeout'
        except Exception as e:
            verdict = 'rejected'
            klass.append('rejected:exception:' + type(e).__name__)
        th = None
        if verdict != 'timeout':
            try:
                with cpu_limit(SYMPY_CPU_S):
                    th = macro.eval(concl, prevs)
            except Timeout:
                verdict = 'timeout'
            except Exception:
                th = None
    finally:
        sys.stdout.close()
        sys.stdout = old_stdout
    klass.append('sympy:' + verdict)
    if verdict == 'timeout':
        H.inconc('sympy-timeout')
        H.case(case, False, klass)
        return
    if th is not None and verdict == 'rejected':
        H.violation('sympy:eval-accepts-after-can_eval-false', case, 'eval returned %s' % th)
        verdict = 'accepted'
    if verdict == 'rejected':
        H.case(case, False, klass)
        return
    if th is not None:
        check_theorem(th, concl, hyps, H, case, 'sympymacro')
    envs, why = sympy_points(prems, concl)
    if envs is None:
        H.inconc('sympy-oracle:' + why)
        H.case(case, True, klass)
        return
    refuted, unknown = None, 0
    for env in envs:
        v = arith.eval_prop(concl, env)
        if v is False:
            refuted = env
            break
        if v is None:
            unknown += 1
    if refuted is not None:
        feature = sympy_feature(prems, concl, refuted)
        H.violation('sympy:accepts-invalid:' + feature, case, 'accepted %s ; false at %s' % (
            ' --> '.join(str(t) for t in prems + [concl]), ', '.join('%s=%s' % kv for kv in sorted(refuted.items()))))
        klass.append('oracle:refuted')
    elif envs and unknown == len(envs):
        H.inconc('sympy-oracle:all-points-unknown')
        klass.append('oracle:unknown')
    else:
        klass.append('oracle:no-countermodel' if envs else 'oracle:empty-interval')
    H.case(case, True, klass)


def run_case(case, H):
    if not isinstance(case, dict):
        raise CaseInvalid('case')
    if case.get('entry') == 'sympy':
        run_sympy(case, H)
    else:
        run_z3(case, H)


# ================================================================================ self-test
def self_test():
    F = Fraction
    kk, m, n = V('k', NAT), V('m', NAT), V('n', NAT)
    x, y = V('x', REAL), V('y', REAL)
    f, g = V('f', F_NN), V('g', F_NN)

    def oracle(prems, concl):
        rd = L.Reader()
        P = [rd.read(p) for p in prems]
        Cn = rd.read(concl)
        cm, st = find_countermodel(P, Cn, 1)
        return st, (L.explain(P, Cn) if cm else None)

    expect = [
        ([], EX('k', NAT, eq(NAT, add(NAT, kk, lit(NAT, 1)), lit(NAT, 0))), 'refuted', 'nat-binder'),
        ([], EX('k', NAT, lt(NAT, kk, m)), 'refuted', 'nat-binder'),
        ([ALL('k', NAT, gt(NAT, add(NAT, kk, lit(NAT, 2)), m))], lt(NAT, m, lit(NAT, 1)), 'refuted', 'nat-binder'),
        ([ALL('k', NAT, gt(NAT, add(NAT, kk, lit(NAT, 2)), m))], lt(NAT, m, lit(NAT, 2)), 'valid', None),
        ([], NOT(eq(F_NN, f, g)), 'refuted', 'fun-eq'),
        ([], eq(NAT, add(NAT, sub(NAT, m, n), n), m), 'refuted', 'nat-minus'),
        ([le(NAT, n, m)], eq(NAT, add(NAT, sub(NAT, m, n), n), m), 'valid', None),
        ([], eq(REAL, mul(REAL, div(x, y), y), x), 'refuted', 'div-zero'),
        ([], eq(REAL, div(x, lit(REAL, 0)), lit(REAL, 0)), 'valid', None),
        ([], ge(NAT, ap(f, m), lit(NAT, 0)), 'valid', None),
        ([], gt(NAT, m, lit(NAT, 0)), 'refuted', 'unexplained'),
        ([], ge(NAT, m, lit(NAT, 0)), 'valid', None),
        ([], ALL('k', NAT, ge(NAT, kk, lit(NAT, 0))), 'valid', None),
        ([], ALL('u', INT, ge(INT, V('u', INT), lit(INT, 0))), 'refuted', 'unexplained'),
        ([ALL('k', NAT, eq(NAT, ap(f, kk), ap(f, add(NAT, kk, lit(NAT, 1)))))], eq(NAT, ap(f, lit(NAT, 0)), lit(NAT, 1)),
         'refuted', None),
        ([ALL('k', NAT, AND(IMP(eq(NAT, kk, lit(NAT, 0)), eq(REAL, of_nat(REAL, kk), lit(REAL, 0))),
                            IMP(eq(NAT, kk, lit(NAT, 1)), eq(REAL, of_nat(REAL, kk), lit(REAL, 1)))))], FALSE,
         'refuted', 'of_nat-bound'),
        ([mem(NAT, m, V('S', SET(NAT))), subset(NAT, V('S', SET(NAT)), V('T', SET(NAT)))], mem(NAT, m, V('T', SET(NAT))),
         'valid', None),
        ([ap(V('P', P_A), V('a', TA))], ap(V('P', P_A), V('d', TA)), 'refuted', 'unexplained'),
    ]
    for prems, concl, st, feat in expect:
        got, gfeat = oracle(prems, concl)
        if got != st or (feat is not None and gfeat != feat):
            raise SelfTestError('oracle self-test: %s --> %s: got %s/%s, expected %s/%s' % (
                [codec.jterm_str(p) for p in prems], codec.jterm_str(concl), got, gfeat, st, feat))
    # evaluator: quantifier tails
    rd = L.Reader()
    t = rd.read(ALL('k', NAT, gt(NAT, add(NAT, kk, lit(NAT, 2)), m)))
    if L.evaluate_goal([], t, {'m': F(1)}, {}) is not True or L.evaluate_goal([], t, {'m': F(2)}, {}) is not False:
        raise SelfTestError('evaluator: forall over nat with tail')
    t = rd.read(ALL('w', REAL, ge(REAL, mul(REAL, V('w', REAL), V('w', REAL)), lit(REAL, 0))))
    if L.evaluate_goal([], t, {}, {}) is not True:
        raise SelfTestError('evaluator: squares')
    t = rd.read(eq(REAL, div(x, y), lit(REAL, 0)))
    if L.evaluate_goal([], t, {'x': F(3), 'y': F(0)}, {}) is not True:
        raise SelfTestError('evaluator: x / 0')
    # code under test answers on two goals of its own test-suite (guards against a broken environment)
    ok = call_z3('solve', [], decode(eq(NAT, add(NAT, mul(NAT, m, n), lit(NAT, 1)), add(NAT, lit(NAT, 1), mul(NAT, n, m)))), [])
    bad = call_z3('solve', [], decode(eq(NAT, ap(f, lit(NAT, 0)), ap(f, lit(NAT, 1)))), [])
    if ok[0] != 'accepted' or bad[0] != 'rejected':
        raise SelfTestError('z3wrapper.solve does not behave as in its own tests: %r %r' % (ok, bad))
    # sympy oracle
    from vlib import arith
    bad = arith.self_test()
    if bad:
        raise SelfTestError('arith self-test: %s' % bad[:2])
    g1 = decode(eq(REAL, div(x, x), lit(REAL, 1)))
    envs, _ = sympy_points([], g1)
    if not any(arith.eval_prop(g1, e) is False for e in envs) or sympy_feature([], g1, {'x': F(0)}) != 'div-zero':
        raise SelfTestError('sympy oracle: x / x = 1 is not refuted at 0')
    g2 = decode(ge(REAL, sub(REAL, lit(REAL, 1), power(REAL, x, 2)), lit(REAL, 0)))
    p2 = decode(mem(REAL, x, interval(True, lit(REAL, 0), lit(REAL, 1))))
    envs, _ = sympy_points([p2], g2)
    if not envs or any(arith.eval_prop(g2, e) is not True for e in envs):
        raise SelfTestError('sympy oracle: 1 - x^2 >= 0 on [0,1]')


# ================================================================================ exploration
def shards(tier):
    if tier == 'quick':
        nz, ns, kz, ks = 2400, 600, 12, 4
    else:
        nz, ns, kz, ks = 60000, 12000, 48, 16
    out = []
    for i, n in enumerate(harness.split(nz, kz)):
        out.append({'kind': 'z3', 'n': n, 'i': i})
    for i, n in enumerate(harness.split(ns, ks)):
        out.append({'kind': 'sympy', 'n': n, 'i': i})
    return out


def run_shard(desc, seed, tier, H):
    def body(case):
        run_case(case, H)
    strat = z3_strategy() if desc['kind'] == 'z3' else sympy_strategy()
    harness.hyp_run(strat, body, desc['n'], seed)
