"""C12 — loading a theory depends only on the library files, not on process history.

A case (JSON) is a *history*:

    {"ops": [OP, ...], "final": [theory, LIMIT]}        LIMIT ::= null | "start" | [item_ty, item_name]

(op grammar: see vlib/c12_worker.py).  Each history is executed in a FRESH python subprocess (the state at stake
is process-global: basic.theory_cache, basic.item_index, kernel.theory.thy, sys.modules); after the ops the worker
calls basic.load_theory(theory, limit=LIMIT) and prints a structural dump of kernel.theory.thy.

Oracle: the reference loader of vlib/c12_worker.py (mode 'reference', its own fresh process) which reads the JSON
files itself and extends a fresh Theory item by item; it never calls logic.basic's loader.  Histories with
file-modifying ops run against a private scratch copy of the sources, and their reference is computed on the
scratch copy in the state the history left it in.
"""
import json
import os
import re
import shutil
import subprocess
import sys
import tempfile

from vlib import harness
from vlib.harness import CaseInvalid, SelfTestError, canon

ID = 'C12'
RULE = ("A case is a history: a list of ops executed in one fresh python subprocess, followed by a final "
        "basic.load_theory(target, limit) whose resulting kernel.theory.thy is dumped structurally (type signature, "
        "constant signature, theorems as hyps/prop walked over public fields, attributes, overloads) and compared with "
        "the dump of an independent reference loader run in another fresh process. Ops: import M (14 modules, 10 of "
        "which load theories at import), load(theory, limit) for any of the 43 library theories and limit in "
        "{none, 'start', any item}, load with a limit naming no item (must raise TheoryException), load_metadata(), "
        "extending the loaded theory object in place (as app/ide.py does after a load), and "
        "- on a private scratch copy of the sources - touch / insert an axiom / delete an item / restore / add an "
        "import to a library file between loads, a ring of theories importing each other (loading one must raise) and "
        "a theory whose third item fails during extension (must raise). Every intermediate load is judged too (it must "
        "not raise when its limit exists). Classes: fresh-direct ('fresh process, load(T)' singletons: all 43 theories "
        "in the thorough tier, the 17 not above 'real' plus a rotating third of the other 26 in the quick tier; counted "
        "trivial), import-first, load-first, limit, error-recovery, file-change, cycle, broken, reload-same, "
        "extended-in-place; the shape of each random history (imports first / loads first / failing load / which "
        "kind of file change / cycle / broken theory) is fixed by a round-robin plan so that no class depends on luck, "
        "its content is drawn by Hypothesis. Non-trivial: at least one state-touching op before the final load; "
        "distinct by the canonical JSON of the history.")
ASSUMPTIONS = [
    "only username='master' (the library directory) is exercised; /repo/users holds no theory files",
    "a file modification always changes the file's mtime (as an edit seconds later does); same-tick edits are out of scope",
    "with an import cycle present in the library directory every load may report it; histories remove the cycle "
    "files before the final load",
    "a cycle / failing item is required to be reported by *an* exception; the class is recorded, not judged",
    "the reference loader uses server.items.parse_item and Theory.unchecked_extend (the item semantics are C11's "
    "subject), but none of logic.basic; it was cross-checked with and without all macro modules imported",
    "modules smt.veriT.* (shadowed by a PyPI package), app.* (needs flask internals) and prover.auto.auto are not "
    "among the imported modules",
]
# The property text asks for a cycle to be "reported as an error".  After a load_metadata() that already reported
# the cycle, loading a member of the cycle ends in RecursionError (get_import_order recurses for ever); with the
# files created after the metadata was read it is KeyError (unknown theory).  Both are errors and no theory is
# produced, so by default only the class is recorded (notes: cycle-reported-as:*).  Set to True to insist on
# TheoryException.
STRICT_CYCLE_CLASS = False
SHRINK_BUDGET = 8
SHRINK_SECONDS = 45

REPO = harness.REPO
PY = sys.executable or '/venv/bin/python'
WORKER = os.path.join(harness.VERIF, 'vlib', 'c12_worker.py')
MARK = '@@C12@@'
TIMEOUT = 600

MODULES = ['data.integer', 'data.real', 'prover.omega', 'prover.simplex', 'prover.proofrec', 'prover.z3wrapper',
           'imperative.imp', 'integral.inequality', 'data.expr', 'syntax.parser', 'server.server', 'data.proplogic',
           'paraverifier.gcl', 'prover.simplex_strict']
FILE_OPS = ('touch', 'insert', 'delete', 'restore', 'add_import', 'add_cycle', 'load_cycle', 'remove_cycle',
            'add_broken', 'load_broken', 'remove_broken')
MUTATING = ('touch', 'insert', 'delete', 'restore', 'add_import')

THEORIES = []
IMPORTS = {}
CONTENT = {}      # theory -> [[ty, name], ...]  (pristine library)


# ---------------------------------------------------------------- library facts (read directly from the files)
def read_library():
    THEORIES.clear()
    libdir = os.path.join(REPO, 'library')
    for f in sorted(os.listdir(libdir)):
        if f.endswith('.json'):
            name = f[:-5]
            with open(os.path.join(libdir, f), encoding='utf-8') as fh:
                data = json.load(fh)
            THEORIES.append(name)
            IMPORTS[name] = list(data['imports'])
            CONTENT[name] = [[it['ty'], it.get('name')] for it in data['content']]
            with open(os.path.join(libdir, f), encoding='utf-8') as fh:
                TEXT[name] = fh.read()
    _USED.clear()


TEXT = {}
_USED = {}


def used_between(d, i, target):
    """Does some theory strictly between `d` and `target` (it imports d, target imports it) mention the name of item i of
    d?  Textual, so only a heuristic - used to aim deletions at definitions whose removal changes how an INTERMEDIATE
    theory parses (what that theory cached goes stale although its own file is unchanged)."""
    key = (d, i, target)
    if key not in _USED:
        nm = CONTENT[d][i][1]
        pat = re.compile(r'(?<![A-Za-z0-9_])%s(?![A-Za-z0-9_])' % re.escape(nm)) if nm else None
        mids = [m for m in closure(target)[:-1] if m != d and d in closure(m)]
        _USED[key] = bool(pat) and any(pat.search(TEXT[m]) for m in mids)
    return _USED[key]


def closure(name, imports=None):
    """Transitive imports of `name` (DFS in listed order), ending with `name`."""
    imports = imports or IMPORTS
    out = []

    def dfs(n, path):
        if n in out or n in path:
            return
        for m in imports.get(n, []):
            dfs(m, path + (n,))
        out.append(n)
    dfs(name, ())
    return out


def depends_on_real(name):
    return 'real' in closure(name)[:-1]


# ---------------------------------------------------------------- subprocess plumbing
class WorkerFailure(Exception):
    pass


_n_calls = [0]
_reported = [0.0, 0]


def call_worker(req, root):
    _n_calls[0] += 1
    env = dict(os.environ)
    env['PYTHONPATH'] = root
    env['PYTHONHASHSEED'] = '0'
    env['PYTHONDONTWRITEBYTECODE'] = '1'
    req = dict(req, root=root)
    try:
        p = subprocess.run([PY, WORKER], input=json.dumps(req), capture_output=True, text=True, env=env,
                           cwd='/tmp', timeout=TIMEOUT)
    except subprocess.TimeoutExpired:
        return None
    for line in reversed(p.stdout.splitlines()):
        if line.startswith(MARK):
            res = json.loads(line[len(MARK):])
            if res.get('worker') != 'ok':
                raise WorkerFailure('worker error: %s' % res.get('error'))
            return res
    raise WorkerFailure('worker produced no result (rc=%s): %s' % (p.returncode, p.stderr[-1500:]))


class Scratch:
    """Private copy of the sources (*.py, library/*.json, users/) under /tmp; created lazily, removed by close()."""
    def __init__(self):
        self.root = None

    def get(self):
        if self.root is not None:
            return self.root
        root = tempfile.mkdtemp(prefix='c12-scratch-', dir='/tmp')
        self.root = root
        for dirpath, dirnames, filenames in os.walk(REPO):
            dirnames[:] = [d for d in dirnames if d not in ('.git', 'node_modules', '__pycache__', 'library', 'users',
                                                           'public', 'src', '.pytest_cache')]
            rel = os.path.relpath(dirpath, REPO)
            pys = [f for f in filenames if f.endswith('.py')]
            if pys:
                os.makedirs(os.path.join(root, rel), exist_ok=True)
                for f in pys:
                    shutil.copy2(os.path.join(dirpath, f), os.path.join(root, rel, f))
        os.makedirs(os.path.join(root, 'library'))
        for f in os.listdir(os.path.join(REPO, 'library')):
            if f.endswith('.json'):
                shutil.copy2(os.path.join(REPO, 'library', f), os.path.join(root, 'library', f))
        if os.path.isdir(os.path.join(REPO, 'users')):
            shutil.copytree(os.path.join(REPO, 'users'), os.path.join(root, 'users'))
        with open(os.path.join(root, '.c12_scratch'), 'w') as f:
            f.write('scratch copy for C12\n')
        return root

    def reset(self):
        """Put the library directory back into the pristine state (content and mtimes)."""
        if self.root is None:
            return
        lib = os.path.join(self.root, 'library')
        for f in os.listdir(lib):
            src = os.path.join(REPO, 'library', f)
            dst = os.path.join(lib, f)
            if not os.path.exists(src):
                os.remove(dst)
                continue
            s1, s2 = os.stat(src), os.stat(dst)
            if s1.st_size != s2.st_size or s1.st_mtime != s2.st_mtime:
                shutil.copy2(src, dst)

    def close(self):
        if self.root is not None:
            shutil.rmtree(self.root, ignore_errors=True)
            self.root = None


# ---------------------------------------------------------------- reference cache (pristine tree)
_ref_cache = {}     # canon([name, limit]) -> {'status', 'dump' (canonical JSON string), ...}


def _pack_ref(r):
    if r['status'] == 'ok':
        return {'status': 'ok', 'dump': canon(r['dump']), 'error_items': r.get('error_items', 0)}
    return {'status': 'exception', 'exc': r.get('exc'), 'msg': r.get('msg')}


def fetch_refs(pairs, root=None, prelude=False):
    """Reference results for [name, limit] pairs.  root=None: pristine tree, cached."""
    if root is None:
        todo = []
        for p in pairs:
            if canon(p) not in _ref_cache and p not in todo:
                todo.append(p)
        if todo:
            res = call_worker({'mode': 'reference', 'requests': todo, 'prelude': prelude}, REPO)
            if res is None:
                return None
            for p, r in zip(todo, res['results']):
                _ref_cache[canon(p)] = _pack_ref(r)
        return [_ref_cache[canon(p)] for p in pairs]
    res = call_worker({'mode': 'reference', 'requests': pairs, 'prelude': prelude}, root)
    if res is None:
        return None
    return [_pack_ref(r) for r in res['results']]


# ---------------------------------------------------------------- comparing dumps
SECTIONS = ['type_sig', 'term_sig', 'overload', 'theorems', 'attributes', 'other_keys', 'stale_svar']


def diff_dumps(ref_s, got_s):
    """None when equal; else (feature, detail).  Arguments are canonical JSON strings."""
    if ref_s == got_s:
        return None
    a, b = json.loads(ref_s), json.loads(got_s)
    feats, detail = [], []
    for sec in SECTIONS:
        x, y = a.get(sec), b.get(sec)
        if x == y:
            continue
        if isinstance(x, list):
            x = {k: True for k in x}
            y = {k: True for k in (y or [])}
        missing = sorted(k for k in x if k not in y)
        extra = sorted(k for k in y if k not in x)
        changed = sorted(k for k in x if k in y and x[k] != y[k])
        for nm, lst in (('missing', missing), ('extra', extra), ('changed', changed)):
            if lst:
                feats.append('%s-%s' % (sec, nm))
                detail.append('%s %s (%d): %s' % (sec, nm, len(lst), ', '.join(lst[:6])))
    return (feats[0] if feats else 'unknown'), '; '.join(detail)


# ---------------------------------------------------------------- decoding / simulation of the file state
def norm_limit(l):
    if l is None or l == 'start':
        return l
    if isinstance(l, (list, tuple)) and len(l) == 2 and all(isinstance(x, str) for x in l):
        return [l[0], l[1]]
    raise CaseInvalid('limit %r' % (l,))


def decode(case):
    if not isinstance(case, dict) or not isinstance(case.get('ops'), list) or 'final' not in case:
        raise CaseInvalid('case')
    fin = case['final']
    if not (isinstance(fin, list) and len(fin) == 2 and fin[0] in IMPORTS):
        raise CaseInvalid('final')
    final = [fin[0], norm_limit(fin[1])]
    ops = []
    for op in case['ops']:
        if not isinstance(op, list) or not op or not isinstance(op[0], str):
            raise CaseInvalid('op')
        k = op[0]
        try:
            if k == 'import':
                if op[1] not in MODULES:
                    raise CaseInvalid('module')
                ops.append([k, op[1]])
            elif k == 'load':
                if op[1] not in IMPORTS:
                    raise CaseInvalid('theory')
                ops.append([k, op[1], norm_limit(op[2])])
            elif k == 'load_bogus':
                if op[1] not in IMPORTS or norm_limit(op[2]) in (None, 'start'):
                    raise CaseInvalid('bogus')
                ops.append([k, op[1], norm_limit(op[2])])
            elif k == 'add_broken':
                ops.append([k, 1] if len(op) > 1 and op[1] == 1 else [k])
            elif k in ('metadata', 'remove_cycle', 'load_broken', 'remove_broken'):
                ops.append([k])
            elif k == 'extend':
                ops.append([k, str(op[1])])
            elif k in ('touch', 'restore'):
                if op[1] not in IMPORTS:
                    raise CaseInvalid('theory')
                ops.append([k, op[1]])
            elif k == 'insert':
                if op[1] not in IMPORTS or not isinstance(op[2], int) or isinstance(op[2], bool) or op[2] < 0:
                    raise CaseInvalid('insert')
                ops.append([k, op[1], op[2], str(op[3])])
            elif k == 'delete':
                if op[1] not in IMPORTS or not isinstance(op[2], int) or isinstance(op[2], bool) or op[2] < 0:
                    raise CaseInvalid('delete')
                ops.append([k, op[1], op[2]])
            elif k == 'add_import':
                if op[1] not in IMPORTS or op[2] not in IMPORTS:
                    raise CaseInvalid('add_import')
                ops.append([k, op[1], op[2]])
            elif k == 'add_cycle':
                if not isinstance(op[1], int) or isinstance(op[1], bool) or not 1 <= op[1] <= 6:
                    raise CaseInvalid('add_cycle')
                ops.append([k, op[1]])
            elif k == 'load_cycle':
                if not isinstance(op[1], int) or isinstance(op[1], bool) or not 0 <= op[1] <= 5:
                    raise CaseInvalid('load_cycle')
                ops.append([k, op[1]])
            else:
                raise CaseInvalid('op kind %r' % k)
        except (IndexError, TypeError):
            raise CaseInvalid('op %r' % (op,))
    return ops, final


class FileSim:
    """What the library directory looks like while the history runs (names only), to know whether a limit exists,
    whether a cycle is present and whether an import added by the history would itself create a cycle."""
    def __init__(self):
        self.content = {}
        self.imports = {}
        self.cycle = 0
        self.broken = False
        self.deleted = False       # some item was deleted: later loads may legitimately fail
        self.mutated = []          # (kind, theory) in order

    def cont(self, name):
        if name not in self.content:
            self.content[name] = [list(x) for x in CONTENT[name]]
        return self.content[name]

    def imps(self):
        d = dict(IMPORTS)
        d.update(self.imports)
        return d

    def apply(self, op):
        k = op[0]
        if k == 'insert':
            c = self.cont(op[1])
            c.insert(op[2] % (len(c) + 1), ['thm.ax', 'c12_marker_%s' % op[3]])
        elif k == 'delete':
            c = self.cont(op[1])
            if c:
                del c[op[2] % len(c)]
            self.deleted = True
        elif k == 'restore':
            self.content.pop(op[1], None)
            self.imports.pop(op[1], None)
        elif k == 'add_import':
            cur = self.imps()
            if op[1] in closure(op[2], cur):
                raise CaseInvalid('add_import would create a cycle')
            if op[2] not in cur[op[1]]:
                self.imports[op[1]] = cur[op[1]] + [op[2]]
        elif k == 'add_cycle':
            self.cycle = op[1]
        elif k == 'remove_cycle':
            self.cycle = 0
        elif k == 'add_broken':
            self.broken = True
        elif k == 'remove_broken':
            self.broken = False
        if k in MUTATING:
            self.mutated.append((k, op[1]))

    def dirty(self):
        """Does some library theory differ (content or imports) from the pristine tree?"""
        return any(c != CONTENT[n] for n, c in self.content.items()) or \
            any(i != IMPORTS[n] for n, i in self.imports.items())

    def limit_exists(self, name, limit):
        if limit is None or limit == 'start':
            return True
        return any(ty == limit[0] and nm == limit[1] for ty, nm in self.cont(name))


def validate(ops):
    sim = FileSim()
    for op in ops:
        k = op[0]
        if k == 'load_bogus' and sim.limit_exists(op[1], op[2]):
            raise CaseInvalid('load_bogus with an existing limit')
        if k == 'load_cycle' and (not sim.cycle or op[1] >= sim.cycle):
            raise CaseInvalid('load_cycle without its file')
        if k == 'load_broken' and not sim.broken:
            raise CaseInvalid('load_broken without its file')
        if k in ('load', 'load_bogus', 'import') and sim.cycle:
            raise CaseInvalid('library load while cycle files are present')
        sim.apply(op)
    if sim.cycle:
        raise CaseInvalid('cycle files still present at the final load')
    return sim


def msg_kind(ev):
    msg = ev.get('msg') or ''
    if 'already exists' in msg:
        return 'already-exists'
    if msg.startswith('load_theory: limit'):
        return 'limit-not-found'
    if 'Cycle in imports' in msg:
        return 'cycle-reported'
    return 'other'


def load_failure_sig(ev, theory, sim):
    """Signature of 'a load that had to succeed raised'.  The feature is computed from the input (which theory) and
    from the process state recorded just before the load (which side-effect modules were already imported)."""
    if 'real' in closure(theory, sim.imps())[:-1] and 'data.real' not in ev.get('pre_modules', []):
        state = 'dep-real-before-data.real'
    elif sim.mutated:
        state = 'after-%s' % sim.mutated[-1][0]
    else:
        state = 'other-state'
    return 'load:exception:%s:%s:%s' % (ev.get('exc'), msg_kind(ev), state)


# ---------------------------------------------------------------- one case
_case_memo = {}


def classify(ops, final):
    kl = []
    kinds = [o[0] for o in ops]
    if not ops:
        kl.append('fresh-direct')
    else:
        kl.append({'import': 'import-first', 'load': 'load-first'}.get(kinds[0], 'other-first'))
    if final[1] == 'start':
        kl.append('limit-start')
    elif final[1] is not None:
        kl.append('limit')
    if 'load_bogus' in kinds:
        kl.append('error-recovery')
    if any(o[0] == 'load' and o[1:] == final for o in ops):
        kl.append('reload-same')
    if 'extend' in kinds:
        kl.append('extended-in-place')
    if any(k in MUTATING for k in kinds):
        kl.append('file-change')
    if 'load_cycle' in kinds:
        kl.append('cycle')
    if 'load_broken' in kinds:
        kl.append('broken')
    if depends_on_real(final[0]):
        kl.append('target-depends-on-real')
    return kl


def judge(ops, final, res, ref, H, case):
    """Compare one executed history with the reference; records violations / notes on H."""
    sim = FileSim()
    for op, ev in zip(ops, res['events']):
        k = op[0]
        if k == 'import':
            if ev['status'] == 'exception':
                if sim.deleted or sim.cycle:
                    H.note('intermediate-exception-in-damaged-library')
                elif any('logic/basic.py' in w for w in ev.get('where', [])):
                    H.violation('import:exception-in-loader:%s:%s' % (ev.get('exc'), msg_kind(ev)), case,
                                'import %s raised %s: %s at %s' % (op[1], ev.get('exc'), ev.get('msg'), ev.get('where', [])[-3:]))
                else:
                    H.inconc('import-failed:%s' % op[1])
        elif k == 'load':
            exists = sim.limit_exists(op[1], op[2])
            if ev['status'] == 'exception':
                if not exists and ev.get('exc') == 'TheoryException' and msg_kind(ev) == 'limit-not-found':
                    H.note('intermediate-limit-gone-reported')
                elif sim.deleted or sim.cycle:
                    H.note('intermediate-exception-in-damaged-library')
                else:
                    H.violation(load_failure_sig(ev, op[1], sim), case,
                                'intermediate load_theory(%r, limit=%r) raised %s: %s at %s' % (
                                    op[1], op[2], ev.get('exc'), ev.get('msg'), ev.get('where', [])[-3:]))
            elif not exists:
                H.violation('load:missing-limit-not-reported', case,
                            'load_theory(%r, limit=%r) returned although no such item exists' % (op[1], op[2]))
        elif k == 'load_bogus':
            if sim.limit_exists(op[1], op[2]):
                raise CaseInvalid('load_bogus with an existing limit')
            if ev['status'] == 'ok':
                H.violation('load:missing-limit-not-reported', case,
                            'load_theory(%r, limit=%r) returned although no such item exists' % (op[1], op[2]))
            elif ev.get('exc') == 'TheoryException' and msg_kind(ev) == 'limit-not-found':
                pass
            elif sim.deleted or sim.cycle:
                H.note('intermediate-exception-in-damaged-library')
            elif ev.get('exc') == 'TheoryException' or any('logic/basic.py' in w for w in ev.get('where', [])):
                # failed for another reason before reaching the limit check: a load that should have worked up to there
                H.violation(load_failure_sig(ev, op[1], sim), case,
                            'load_theory(%r, limit=%r) raised %s: %s (not the missing-limit error) at %s' % (
                                op[1], op[2], ev.get('exc'), ev.get('msg'), ev.get('where', [])[-3:]))
            else:
                H.violation('load:missing-limit-wrong-exception:%s' % ev.get('exc'), case,
                            'load_theory(%r, limit=%r) raised %s: %s' % (op[1], op[2], ev.get('exc'), ev.get('msg')))
        elif k == 'metadata':
            if ev['status'] == 'exception' and not sim.cycle:
                H.violation('load_metadata:exception:%s' % ev.get('exc'), case, '%s: %s' % (ev.get('exc'), ev.get('msg')))
        elif k == 'load_cycle':
            if not sim.cycle:
                raise CaseInvalid('load_cycle without cycle files')
            if ev['status'] == 'ok':
                H.violation('load:import-cycle-not-reported', case, 'loading a theory on an import cycle returned normally')
            else:
                H.note('cycle-reported-as:%s' % ev.get('exc'))
                if STRICT_CYCLE_CLASS and ev.get('exc') not in ('TheoryException', 'KeyError'):
                    H.violation('load:import-cycle-reported-as:%s' % ev.get('exc'), case,
                                'loading a theory on an import cycle raised %s instead of TheoryException' % ev.get('exc'))
        elif k == 'load_broken':
            if not sim.broken:
                raise CaseInvalid('load_broken without the file')
            if ev['status'] == 'ok':
                H.violation('load:failing-item-not-reported', case,
                            'loading a theory whose third item cannot be loaded (redeclared constant / unknown kind) returned normally')
            else:
                H.note('broken-reported-as:%s' % ev.get('exc'))
        sim.apply(op)
    if sim.cycle:
        raise CaseInvalid('cycle files still present at the final load')

    fin = res['final']
    name, limit = final
    tgt_mut = [(k, t) for (k, t) in sim.mutated if t in closure(name, sim.imps())]
    if tgt_mut:
        # one signature per kind of change: what differs (which section) depends on the item that was hit, not on
        # the cause.  The most disruptive kind that occurred names the history.
        kinds = [k for k, _ in tgt_mut]
        k = [x for x in ('add_import', 'delete', 'insert', 'restore', 'touch') if x in kinds][0]
        where = 'target' if all(t == name for kk, t in tgt_mut if kk == k) else 'dependency'
        hist = 'after-%s' % k if k == 'add_import' else 'after-%s-in-%s' % (k, where)
    else:
        hist = 'no-file-change'
    if ref['status'] == 'ok':
        if fin['status'] == 'exception':
            H.violation(load_failure_sig(fin, name, sim), case,
                        'final load_theory(%r, limit=%r) raised %s: %s at %s; the reference loader builds the theory' % (
                            name, limit, fin.get('exc'), fin.get('msg'), fin.get('where', [])[-3:]))
        else:
            d = diff_dumps(ref['dump'], canon(fin['dump']))
            if d is not None:
                H.violation('load:dump-differs:%s' % (d[0] if hist == 'no-file-change' else hist), case,
                            'final load_theory(%r, limit=%r) differs from the reference: %s' % (name, limit, d[1]))
    else:
        # the reference says this load must fail (limit names no item / library damaged by a delete)
        if fin['status'] == 'ok':
            if ref.get('exc') == 'KeyError':
                H.violation('load:missing-limit-not-reported', case,
                            'final load_theory(%r, limit=%r) returned although no such item exists' % (name, limit))
            else:
                H.violation('load:failure-not-reported:%s' % hist, case,
                            'final load_theory(%r, limit=%r) returned a theory; the reference loader fails with %s: %s' % (
                                name, limit, ref.get('exc'), ref.get('msg')))
        else:
            H.note('both-fail')


def run_case(case, H, scratch=None, record=True):
    ops, final = decode(case)
    case = {'ops': ops, 'final': final}
    key = canon(case)
    sim = validate(ops)      # against the simulated file state, before spending a subprocess
    uses_files = any(o[0] in FILE_OPS for o in ops)

    failed = False
    if key in _case_memo:
        res, ref = _case_memo[key]
    else:
        own = None
        try:
            if uses_files:
                if scratch is None:
                    own = scratch = Scratch()
                root = scratch.get()
                scratch.reset()
                res = call_worker({'mode': 'history', 'ops': ops, 'final': final}, root)
                if res is None:
                    refs = None
                elif sim.dirty():
                    refs = fetch_refs([final], root=root)      # the state the history left behind
                else:
                    # library theories as in the pristine tree (only touched / restored / cycle and broken files)
                    refs = fetch_refs([final])
                scratch.reset()
            else:
                res = call_worker({'mode': 'history', 'ops': ops, 'final': final}, REPO)
                refs = fetch_refs([final]) if res is not None else None
        except WorkerFailure as e:
            # the subprocess died without a result (crash of the interpreter, killed): not a verdict on the property
            H.inconc('worker-failure')
            H.sample('!worker-failure', {'case': case, 'error': str(e)[-400:]})
            res = refs = None
            failed = True
        finally:
            if own is not None:
                own.close()
        ref = refs[0] if refs else None
        if len(_case_memo) < 64 and res is not None and ref is not None:
            _case_memo[key] = (res, ref)
    klass = classify(ops, final)
    if res is None or ref is None:
        if not failed:
            H.inconc('worker-timeout')
            H.sample('!worker-timeout', case)
        if record:
            H.case(case, False, klass)
        return
    judge(ops, final, res, ref, H, case)
    if record:
        H.case(case, nontrivial=len(ops) >= 1, klass=klass)


# ---------------------------------------------------------------- setup / self-test
def setup():
    read_library()
    if len(THEORIES) < 10 or 'logic_base' not in IMPORTS:
        raise SelfTestError('library not found under %s' % REPO)
    if not os.path.exists(WORKER):
        raise SelfTestError('worker script missing')
    try:
        refs = fetch_refs([['logic_base', None], ['logic_base', ['thm.ax', 'conjD1']],
                           ['logic_base', ['thm.ax', 'conj']], ['logic', 'start']])
    except WorkerFailure as e:
        raise SelfTestError(str(e))
    if refs is None:
        raise SelfTestError('reference worker timed out')
    full, lim, bogus, start = refs
    if full['status'] != 'ok' or lim['status'] != 'ok' or start['status'] != 'ok':
        raise SelfTestError('reference loader failed on logic_base: %r' % ([r.get('msg') for r in refs],))
    fd, ld = json.loads(full['dump']), json.loads(lim['dump'])
    if 'conjI' not in fd['theorems'] or 'conjD1' not in fd['theorems'] or 'conj' not in fd['term_sig']:
        raise SelfTestError('reference dump of logic_base lacks conjI / conjD1 / conj')
    if 'conjI' not in ld['theorems'] or 'conjD1' in ld['theorems']:
        raise SelfTestError('reference loader mishandles the limit')
    if bogus['status'] != 'exception':
        raise SelfTestError('reference loader accepts a limit that names no item')
    if start['dump'] != full['dump']:
        raise SelfTestError("reference: logic at 'start' must equal logic_base")
    if diff_dumps(full['dump'], full['dump']) is not None:
        raise SelfTestError('diff of equal dumps')
    d = diff_dumps(full['dump'], lim['dump'])
    if d is None or 'theorems missing' not in d[1]:
        raise SelfTestError('diff does not see the missing theorems: %r' % (d,))
    # the expected hyps/prop shape of one theorem, written out by hand
    if fd['theorems']['trueI'] != {'hyps': [], 'prop': '#true:bool'}:
        raise SelfTestError('structural dump of trueI is %r' % (fd['theorems']['trueI'],))
    # simulation of file ops agrees with the limit semantics
    sim = FileSim()
    sim.apply(['delete', 'logic_base', 0])
    if sim.limit_exists('logic_base', CONTENT['logic_base'][0]) and CONTENT['logic_base'].count(CONTENT['logic_base'][0]) == 1:
        raise SelfTestError('FileSim.delete')


# ---------------------------------------------------------------- generation
def history_strategy(shape, variant=None):
    from hypothesis import strategies as st
    small = [t for t in THEORIES if not depends_on_real(t)]
    big = [t for t in THEORIES if depends_on_real(t)]
    theory = st.one_of(st.sampled_from(small), st.sampled_from(THEORIES), st.sampled_from(big))

    def limit_for(name):
        items = CONTENT[name]
        opts = [st.none(), st.none(), st.just('start')]
        if items:
            opts += [st.sampled_from(items).map(list)] * 3
            # items whose name was already used by an earlier item of another kind ('plus': def.ax, then def.ind)
            twins = [it for i, it in enumerate(items) if any(x[1] == it[1] and x[0] != it[0] for x in items[:i])]
            if twins:
                opts.append(st.sampled_from(twins).map(list))
        return st.one_of(*opts)

    @st.composite
    def load_op(draw, name=None):
        n = name or draw(theory)
        return ['load', n, draw(limit_for(n))]

    @st.composite
    def bogus_op(draw, name=None):
        n = name or draw(theory)
        items = CONTENT[n]
        cands = [['thm.ax', 'c12_no_such_item'], ['thm', 'c12_no_such_item']]
        if items:
            ty, nm = draw(st.sampled_from(items))
            for alt in ('thm', 'thm.ax', 'def', 'header'):
                if alt != ty and [alt, nm] not in items:
                    cands += [[alt, nm]] * 3       # right name, wrong kind
                    break
            if nm and len(nm) > 1 and all(x[1] != nm[:-1] for x in items):
                cands.append([ty, nm[:-1]])       # proper prefix of a name
        other = draw(theory)
        if other != n and CONTENT[other]:
            it = draw(st.sampled_from(CONTENT[other]))
            if list(it) not in items:
                cands.append(list(it))            # item of another theory
        return ['load_bogus', n, draw(st.sampled_from(cands))]

    import_op = st.sampled_from(MODULES).map(lambda m: ['import', m])
    meta_op = st.just(['metadata'])
    # what app/ide.py does after a load: the loaded theory object is extended in place
    extend_op = st.sampled_from(['0', '1', '2']).map(lambda n: ['extend', n])
    any_op = st.one_of(import_op, load_op(), bogus_op(), meta_op, extend_op)

    @st.composite
    def file_block(draw, target):
        cl = closure(target)
        near = cl[-6:]
        kind = variant if variant in ('insert', 'delete', 'add_import', 'touch', 'restore') else \
            draw(st.sampled_from(['insert', 'delete', 'add_import', 'touch', 'restore']))
        # deleting from a theory deep below the target makes thousands of later items fail to parse (each with a
        # formatted traceback): minutes per history.  Deletions stay near the target.
        def free_for(x):       # theories that x could additionally import: no cycle, and something to contribute
            return [t for t in THEORIES if x not in closure(t) and t not in closure(x) and CONTENT[t]]
        # theories whose loading imports a module (a separate path through load_theory_cache): a change BELOW one of
        # them must reach everything above it
        special = [t for t in ('logic', 'expr', 'real', 'hoare') if t in cl and len(closure(t)) > 1]
        if special and kind in ('delete', 'insert', 'restore') and draw(st.integers(0, 2 if kind != 'delete' else 1)) == 0:
            T = draw(st.sampled_from(special))
            pool = [x for x in closure(T)[-6:] if x != T]
        elif kind == 'delete':
            # preferably a file the target imports (what the target-side theories cached about it goes stale), and
            # among those one with a definition that a theory between it and the target mentions
            pool = [x for x in near if x != target] or near
            pool2 = [x for x in pool if any(it[0].startswith(('def', 'type')) and used_between(x, i, target)
                                            for i, it in enumerate(CONTENT[x]))]
            if pool2 and draw(st.integers(0, 2)) != 0:
                pool = pool2
        elif kind == 'add_import':
            pool = [x for x in cl if free_for(x)] or cl
        else:
            pool = cl
        d = draw(st.sampled_from(pool))                                 # the file that changes
        users = [t for t in cl if d in closure(t)]                      # target-side theories that see d
        warm = target if kind == 'delete' else draw(st.sampled_from(users + [target]))
        block = [['load', warm, draw(limit_for(warm))]]

        def ins():
            return ['insert', d, draw(st.integers(0, len(CONTENT[d]))), draw(st.sampled_from(['0', '1', '2', '3']))]
        if kind == 'touch':
            block.append(['touch', d])
        elif kind == 'insert':
            block.append(ins())
        elif kind == 'restore':
            block.append(ins())
            if draw(st.booleans()):
                block.append(['load', warm, None])
            block.append(['restore', d])
        elif kind == 'delete':
            defs = [i for i, it in enumerate(CONTENT[d]) if it[0].startswith('def') or it[0].startswith('type')]
            chain = [i for i in defs if used_between(d, i, target)]
            if chain and draw(st.integers(0, 3)) != 0:
                block.append(['delete', d, draw(st.sampled_from(chain))])    # ... that an intermediate theory refers to
            elif defs and draw(st.sampled_from([True, True, True, False])):
                block.append(['delete', d, draw(st.sampled_from(defs))])     # something later items refer to
            elif CONTENT[d]:
                block.append(['delete', d, draw(st.integers(0, len(CONTENT[d]) - 1))])
            else:
                block.append(['touch', d])
        else:
            free = free_for(d)
            if free:
                block.append(['add_import', d, draw(st.sampled_from(free))])
            else:
                block.append(['touch', d])
        if draw(st.booleans()):
            block.append(draw(st.one_of(st.just(['load', warm, None]), st.just(['touch', d]), meta_op, load_op())))
        return block

    @st.composite
    def history(draw):
        target = draw(theory)
        limit = draw(limit_for(target))
        lead = [draw(import_op)] if draw(st.booleans()) else []
        tail = [draw(any_op)] if draw(st.booleans()) else []
        if shape == 'imports':
            ops = [draw(import_op)]
            if draw(st.booleans()):
                ops.append(draw(import_op))
            ops += tail
        elif shape == 'loads':
            # often the very load that will be repeated at the end, then modified in place
            first = ['load', target, limit] if draw(st.booleans()) else draw(load_op())
            ops = [first] + ([draw(extend_op)] if draw(st.booleans()) else []) + tail
        elif shape == 'recovery':
            # the failing load hits the target or one of its imports, so that whatever it leaves behind matters
            ops = lead + [draw(bogus_op(draw(st.sampled_from(closure(target)[-4:] + [target]))))] + tail
        elif shape == 'file':
            ops = lead + draw(file_block(target))
        elif shape == 'cycle':
            n = draw(st.integers(1, 3))
            mid = [['add_cycle', n]]
            if draw(st.booleans()):
                mid.append(['metadata'])
            mid.append(['load_cycle', draw(st.integers(0, n - 1))])
            if draw(st.booleans()):
                mid.append(['load_cycle', draw(st.integers(0, n - 1))])
            mid.append(['remove_cycle'])
            ops = lead + mid + tail
        elif shape == 'broken':
            v = draw(st.integers(0, 1))
            mid = [['add_broken', 1] if v else ['add_broken'], ['load_broken']]
            if v or draw(st.booleans()):
                mid.append(['load_broken'])          # the failed load must not leave a loadable partial theory behind
            if draw(st.booleans()):
                mid.append(['remove_broken'])
            ops = lead + mid + tail
        else:
            raise ValueError(shape)
        return {'ops': ops, 'final': [target, limit]}
    return history()


# what each of a shard's random histories looks like: (shape, variant); the plan is walked round-robin starting at
# a shard-dependent offset, so that every class is filled whatever the number of histories
PLAN = [('imports', None), ('file', 'insert'), ('recovery', None), ('loads', None), ('file', 'delete'), ('imports', None),
        ('file', 'add_import'), ('cycle', None), ('loads', None), ('file', 'touch'), ('recovery', None), ('imports', None),
        ('file', 'restore'), ('broken', None), ('loads', None), ('file', 'delete'), ('recovery', None), ('imports', None),
        ('file', 'add_import'), ('loads', None), ('file', 'insert'), ('cycle', None), ('recovery', None), ('file', 'delete')]


def shards(tier):
    k, per = (16, 2) if tier == 'quick' else (48, 20)
    big = [t for t in THEORIES if depends_on_real(t)]
    fresh = [t for t in THEORIES if not depends_on_real(t)] + big
    out = []
    for i in range(k):
        out.append({'i': i, 'k': k, 'random': per, 'tier': tier,
                    'fresh': [t for j, t in enumerate(fresh) if j % k == i]})
    return out


def fresh_for(desc, seed):
    """fresh-direct singletons of a shard.  thorough: all of them.  quick: every theory that does not sit above
    'real', and a third of those that do (they all take the same path through the lazy import of data.real);
    which third rotates with the run's seed (main passes seed*1000 + shard index)."""
    if desc.get('tier') != 'quick':
        return list(desc['fresh'])
    big = [t for t in THEORIES if depends_on_real(t)]
    base = seed // 1000
    return [t for t in desc['fresh'] if t not in big or big.index(t) % 3 == base % 3]


def valid_case(case):
    try:
        ops, final = decode(case)
        validate(ops)
        return True
    except CaseInvalid:
        return False


def run_shard(desc, seed, tier, H):
    cases = [{'ops': [], 'final': [t, None]} for t in fresh_for(desc, seed)]
    want = desc['random']
    slots = [PLAN[(desc['i'] * want + j) % len(PLAN)] for j in range(want)]
    seen = set()
    for gi, slot in enumerate(sorted(set(slots), key=str)):
        count = slots.count(slot)
        drawn = []
        # Hypothesis starts every run with the all-minimal example and a few tiny ones (the same in every shard):
        # draw generously (generation is cheap, execution is not) and keep the last `count` distinct valid histories.
        harness.hyp_run(history_strategy(*slot), drawn.append, 6 * count + 10, seed * 31 + gi)
        got = 0
        for c in reversed(drawn[1:]):
            key = canon(c)
            if key in seen or not c['ops'] or not valid_case(c):
                continue
            seen.add(key)
            cases.append(c)
            got += 1
            if got >= count:
                break
    # one reference process for everything that is judged against the pristine tree
    pristine = [c['final'] for c in cases if not any(o[0] in FILE_OPS for o in c['ops'])]
    if pristine:
        try:
            fetch_refs(pristine)
        except WorkerFailure:
            pass        # every case asks again on its own
    scratch = Scratch()
    timing = os.environ.get('C12_TIMING')
    import time
    t_start = time.time()
    try:
        for c in cases:
            t0 = time.time()
            try:
                run_case(c, H, scratch=scratch)
            except CaseInvalid:
                H.note('generated_case_invalid')
            if timing:
                sys.stderr.write('C12_TIMING shard %d case %.1fs %s\n' % (desc['i'], time.time() - t0, canon(c)[:160]))
    finally:
        scratch.close()
    if timing:
        sys.stderr.write('C12_TIMING shard %d total %.1fs (%d cases, %d subprocesses)\n' % (
            desc['i'], time.time() - t_start, len(cases), _n_calls[0]))
    if desc.get('tier') != 'quick' and desc['i'] == 0:
        H.mark_exhaustive("the empty history ('fresh process, load_theory(T)') for every theory T of the library")
    import resource
    ru = resource.getrusage(resource.RUSAGE_CHILDREN)
    cpu = ru.ru_utime + ru.ru_stime
    # a pool process may run several shards: report what this shard added
    H.note('child_cpu_seconds', int(cpu - _reported[0]))
    H.note('subprocesses', _n_calls[0] - _reported[1])
    _reported[0], _reported[1] = cpu, _n_calls[0]
