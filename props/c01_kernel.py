"""C01 — every sequent the checker accepts from primitive inferences is valid.

Case (JSON): {"steps": [{"rule": r, "args": A, "prevs": [i, ...]}, ...], "k": 2}
  args by rule:  term rules -> JSON term;  subst_type -> {"tyinst": {name: type}};
                 substitution -> {"tyinst": {...}, "inst": {name: term}, "var_inst": {...}, "abs_name_inst": {...}};
                 theorem -> name;  variable -> [name, type];  others -> null.
Steps are lines 0..n-1 of a kernel Proof (ids = positions); prevs are line numbers.
"""
import random

from vlib import harness, codec, ref, model, gen
from vlib.harness import CaseInvalid, SelfTestError, time_limit, Timeout
from vlib.codec import BOOL, fun

ID = 'C01'
RULE = ("Proof scripts over theory logic_base built by a Hypothesis-driven derivation builder: each step draws one of the "
        "15 primitive rules (+ theorem / variable) with arguments that are either fitted to the lines accepted so far "
        "(an implication whose antecedent is a pooled line, chains of equations, a variable occurring in hypotheses, an "
        "instantiation of the schematic (type) variables that occur) or adversarial (schematic variables in hypotheses "
        "and as the generalised variable, clashing names, open / ill-typed / non-boolean terms, instantiations of type "
        "variables that only occur in hypotheses). Steps the checker refuses are dropped; the accepted script is then "
        "re-checked as one kernel Proof with theory.check_proof(no_gaps=True) and EVERY line's sequent is (a) type-checked "
        "by the independent reference checker and (b) searched for a refuting finite standard model (type-variable sizes "
        "1..k, all assignments of free and schematic variables when <= 20000, else 2000 pseudo-random ones). "
        "Non-trivial: >= 3 accepted steps, at least one of abstraction / forall_intr / forall_elim / substitution / "
        "subst_type / combination / beta_conv / implies_intr-with-discharge, and the last sequent evaluated in >= 2 models; "
        "distinct by canonical JSON of the script.")
ASSUMPTIONS = [
    "standard models are finite: type variables get 1..k elements (k=2 quick, 3 thorough), function spaces are capped at 300 "
    "elements; a rule unsound only in infinite models would be missed",
    "Some/The are interpreted by one fixed admissible choice function; the axioms of logic_base are verified true in these "
    "models by the self-test at start, so a refuted sequent is not derivable from them",
    "rules 'theorem' may cite any item of library/logic_base.json (axioms of the base logic and results proved from them)",
]
SHRINK_BUDGET = 400
SHRINK_SECONDS = 90

INTERESTING = {'abstraction', 'forall_intr', 'forall_elim', 'substitution', 'subst_type', 'combination', 'beta_conv'}
_thy = {}
_names = []


def setup():
    from logic import basic
    from kernel import theory
    basic.load_theory('logic_base')
    _thy['thy'] = theory.thy
    bad = []
    for name, th in sorted(theory.thy.get_data('theorems').items()):
        for k in (2, 3):
            for svar in (False, True):
                t = theory.thy.get_theorem(name, svar=svar)
                r = model.refute([ref.from_term(h) for h in t.hyps], ref.from_term(t.prop), k=k)
                if r[0] != 'held':
                    bad.append((name, r))
    if bad:
        raise SelfTestError('model evaluator does not validate logic_base theorems: %r' % bad[:3])
    _names[:] = sorted(theory.thy.get_data('theorems'))
    # evaluator must refute known-invalid sequents
    x = ('var', 'x', ('tv', 'a'))
    y = ('var', 'y', ('tv', 'a'))
    eq = ('app', ('app', ('const', 'equals', ref.tfun(x[2], ref.tfun(x[2], ref.BOOL))), x), y)
    if model.refute([], eq, k=2)[0] != 'refuted':
        raise SelfTestError('evaluator fails to refute |- x = y')
    if model.refute([eq], eq, k=2)[0] != 'held':
        raise SelfTestError('evaluator refutes x = y |- x = y')
    if model.refute([], ('const', 'false', ref.BOOL), k=2)[0] != 'refuted':
        raise SelfTestError('evaluator fails to refute |- false')


# ------------------------------------------------------------------ decoding
_DEC = {'cache': None}      # a dict: decode with maximal physical sharing (identical JSON sub-terms -> ONE object)


def _term_dec(j):
    if _DEC['cache'] is None:
        return codec.term_dec(j)
    from props.c03_terms import term_dec_shared
    return term_dec_shared(j, _DEC['cache'])


def dec_args(rule, a):
    from kernel.term import Inst
    from kernel.type import TyInst
    if rule in ('assume', 'implies_intr', 'reflexive', 'beta_conv', 'abstraction', 'forall_intr', 'forall_elim'):
        return _term_dec(a)
    if rule == 'subst_type':
        if not isinstance(a, dict):
            raise CaseInvalid('tyinst')
        return TyInst(**{str(k): codec.type_dec(v) for k, v in a.get('tyinst', {}).items()})
    if rule == 'substitution':
        if not isinstance(a, dict):
            raise CaseInvalid('inst')
        inst = Inst(**{str(k): _term_dec(v) for k, v in a.get('inst', {}).items()})
        for k, v in a.get('tyinst', {}).items():
            inst.tyinst[str(k)] = codec.type_dec(v)
        for k, v in a.get('var_inst', {}).items():
            inst.var_inst[str(k)] = _term_dec(v)
        for k, v in a.get('abs_name_inst', {}).items():
            inst.abs_name_inst[str(k)] = str(v)
        return inst
    if rule == 'theorem':
        if not isinstance(a, str):
            raise CaseInvalid('theorem name')
        return a
    if rule == 'variable':
        try:
            return (str(a[0]), codec.type_dec(a[1]))
        except CaseInvalid:
            raise
        except Exception:
            raise CaseInvalid('variable args')
    if a is not None:
        raise CaseInvalid('args for %s' % rule)
    return None


RULES = ['assume', 'implies_intr', 'implies_elim', 'reflexive', 'symmetric', 'transitive', 'combination', 'equal_intr',
         'equal_elim', 'subst_type', 'substitution', 'beta_conv', 'abstraction', 'forall_intr', 'forall_elim',
         'theorem', 'variable']


def build_proof(steps):
    from kernel.proof import Proof, ProofItem
    prf = Proof()
    for i, s in enumerate(steps):
        try:
            rule = s['rule']
            prevs = s.get('prevs', [])
            if rule not in RULES or not all(isinstance(p, int) and not isinstance(p, bool) and 0 <= p for p in prevs):
                raise CaseInvalid('step')
        except CaseInvalid:
            raise
        except Exception:
            raise CaseInvalid('step')
        prf.items.append(ProofItem(i, rule, args=dec_args(rule, s.get('args')), prevs=[(p,) for p in prevs]))
    return prf


def check_script(steps):
    """Returns ('accepted', prf) or ('rejected', reason)."""
    from kernel import theory
    from kernel.theory import CheckProofException
    theory.thy = _thy['thy']
    if _DEC['cache'] is not None:
        _DEC['cache'] = {}
    prf = build_proof(steps)
    if not prf.items:
        raise CaseInvalid('empty script')
    try:
        theory.thy.check_proof(prf, no_gaps=True)
    except CheckProofException as e:
        return 'rejected', 'CheckProofException'
    except Exception as e:
        # adversarial arguments may trip assertions / attribute errors inside the kernel: refusal, not acceptance
        return 'rejected', type(e).__name__
    return 'accepted', prf


def step_feature(s):
    rule = s['rule']
    a = s.get('args')
    if rule in ('forall_intr', 'abstraction'):
        return 'x=svar' if isinstance(a, list) and a and a[0] == 'sv' else 'x=var'
    if rule == 'substitution':
        f = []
        if a.get('tyinst'):
            f.append('tyinst')
        if a.get('var_inst'):
            f.append('var_inst')
        return '+'.join(f) if f else 'svars'
    return ''


def oracle(steps, prf, k, H, case):
    """Check every line's sequent; report only the first offending line (later ones inherit the damage)."""
    rng = random.Random(harness.digest(case))
    models_last = 0
    for i, item in enumerate(prf.items):
        th = item.th
        s = steps[i]
        try:
            hyps = [ref.from_term(h) for h in th.hyps]
            prop = ref.from_term(th.prop)
        except Exception as e:
            H.violation('c01:malformed-sequent:%s' % s['rule'], case, 'line %d: %s' % (i, e))
            return None
        if not all(ref.well_typed(t, ref.BOOL) for t in hyps + [prop]):
            H.violation('c01:ill-typed-sequent:%s' % s['rule'], case,
                        'line %d (%s) is accepted with an ill-typed / non-boolean / open sequent: %s' % (i, s['rule'], ref.show(prop)))
            return None
        status, info = model.refute(hyps, prop, k=k, rng=rng)
        if status == 'refuted':
            feat = step_feature(s)
            sig = 'c01:invalid-sequent:%s%s' % (s['rule'], ':' + feat if feat else '')
            H.violation(sig, case, 'line %d: %s by %s is false in the model %s' % (i, ref.show(prop) + ' [hyps: ' + '; '.join(ref.show(h) for h in hyps) + ']', s['rule'], info))
            return None
        if status == 'unknown':
            H.inconc('line-not-evaluated')
            models_last = 0
        else:
            models_last = info
    return models_last


def run_case(case, H):
    if not isinstance(case, dict) or not isinstance(case.get('steps'), list):
        raise CaseInvalid('case')
    steps = case['steps']
    k = case.get('k', 2)
    if k not in (1, 2, 3):
        raise CaseInvalid('k')
    _DEC['cache'] = {} if case.get('shared') else None
    try:
        with time_limit(60):
            status, prf = check_script(steps)
            if status == 'rejected':
                H.case(case, False, 'rejected:' + prf)
                return
            models_last = oracle(steps, prf, k, H, case)
    except Timeout:
        H.inconc('timeout')
        return
    rules = [s['rule'] for s in steps]
    discharge = any(s['rule'] == 'implies_intr' and len(prf.items[s['prevs'][0]].th.hyps) > len(prf.items[i].th.hyps)
                    for i, s in enumerate(steps) if s.get('prevs'))
    nontrivial = len(steps) >= 3 and (bool(INTERESTING & set(rules)) or discharge) and (models_last or 0) >= 2
    H.case(case, nontrivial, ['accepted'] + ['rule:' + r for r in sorted(set(rules))], sample=nontrivial)
    if nontrivial:
        def show(th):
            try:
                return str(th)
            except Exception:
                return repr(codec.thm_enc(th))[:300]
        H.sample('script', {'steps': [[s['rule'], s.get('prevs', []), show(prf.items[i].th)] for i, s in enumerate(steps)]})


# ------------------------------------------------------------------ generation
def shards(tier):
    n, k = (2600, 32) if tier == 'quick' else (36000, 64)
    return [{'n': c, 'i': i, 'k': 2 if tier == 'quick' else (3 if i % 4 == 0 else 2),
             'steps': 12 if tier == 'quick' else 22} for i, c in enumerate(harness.split(n, k))]


def run_shard(desc, seed, tier, H):
    from hypothesis import strategies as st
    from kernel.term import Term

    opts = gen.Opts(svars=True, stvars=True, max_order=1)
    opts_adv = gen.Opts(svars=True, stvars=True, loose=True, max_order=1)
    thy = _thy['thy']
    enc = codec.term_enc

    def body(data):
        lines = []    # accepted: (step json, Thm)
        steps = []

        def try_step(step):
            st_, prf = check_script(steps + [step])
            if st_ == 'accepted':
                steps.append(step)
                lines.append(prf.items[-1].th)
                return True
            H.note('step_rejected:' + step['rule'])
            return False

        def draw_line(pred=None):
            idx = [i for i, th in enumerate(lines) if pred is None or pred(th)]
            if not idx:
                return None
            return data.draw(st.sampled_from(idx))

        def term_of(T, adv=False, fuel=2):
            return data.draw(gen.terms(opts_adv if adv else opts, T, (), fuel))

        def some_type():
            return data.draw(gen.types(opts))

        shared = data.draw(st.integers(0, 2)) == 0
        _DEC['cache'] = {} if shared else None
        n_steps = data.draw(st.integers(3, desc['steps']))
        for _ in range(n_steps):
            mode = data.draw(st.sampled_from(
                ['assume', 'assume', 'assume_imp', 'assume_eq', 'assume_eq_fun', 'assume_forall', 'theorem', 'theorem',
                 'implies_intr', 'implies_intr', 'weaken_svar', 'implies_elim', 'implies_elim', 'reflexive', 'symmetric', 'transitive',
                 'combination', 'combination', 'equal_intr', 'equal_elim', 'subst_type', 'substitution', 'substitution',
                 'beta_conv', 'abstraction', 'abstraction', 'forall_intr', 'forall_intr', 'forall_elim', 'forall_elim',
                 'variable', 'random_prevs', 'const_fun_pair']))
            adv = data.draw(st.integers(0, 4)) == 0
            if mode == 'assume':
                T = BOOL if not adv else some_type()
                try_step({'rule': 'assume', 'args': term_of(T, adv, fuel=data.draw(st.integers(1, 3))), 'prevs': []})
            elif mode == 'assume_imp':
                i = draw_line()
                if i is None:
                    continue
                A = enc(lines[i].prop)
                Bt = term_of(BOOL, False, 1)
                try_step({'rule': 'assume', 'args': ['app', ['app', ['c', 'implies', fun(BOOL, BOOL, BOOL)], A], Bt],
                          'prevs': []})
            elif mode in ('assume_eq', 'assume_eq_fun'):
                T = some_type() if mode == 'assume_eq' else fun(data.draw(st.sampled_from(gen.atom_types(opts))),
                                                                 data.draw(st.sampled_from(gen.atom_types(opts))))
                i = draw_line(lambda th: th.prop.is_equals())
                if i is not None and data.draw(st.booleans()):
                    l = enc(lines[i].prop.rhs)
                    try:
                        T = codec.type_enc(lines[i].prop.rhs.get_type())
                    except Exception:
                        continue
                else:
                    l = term_of(T, adv, 2)
                r = term_of(T, adv, 2)
                try_step({'rule': 'assume', 'args': ['app', ['app', ['c', 'equals', fun(T, T, BOOL)], l], r], 'prevs': []})
            elif mode == 'assume_forall':
                T = data.draw(st.sampled_from(gen.small_types(opts)))
                nm = data.draw(st.sampled_from(opts.names))
                bodyt = data.draw(gen.terms(opts, BOOL, (T,), 2))
                try_step({'rule': 'assume', 'args': ['app', ['c', 'all', fun(fun(T, BOOL), BOOL)], ['abs', nm, T, bodyt]],
                          'prevs': []})
            elif mode == 'theorem':
                try_step({'rule': 'theorem', 'args': data.draw(st.sampled_from(_names)), 'prevs': []})
            elif mode == 'variable':
                try_step({'rule': 'variable', 'args': [data.draw(st.sampled_from(opts.names)), some_type()], 'prevs': []})
            elif mode == 'implies_intr':
                i = draw_line()
                if i is None:
                    continue
                hyps = lines[i].hyps
                if hyps and not adv:
                    A = enc(hyps[data.draw(st.integers(0, len(hyps) - 1))])
                else:
                    A = term_of(BOOL if not adv else some_type(), adv, 2)
                try_step({'rule': 'implies_intr', 'args': A, 'prevs': [i]})
            elif mode == 'weaken_svar':
                # A |- B  ==>  A |- C --> B  with C mentioning schematic variables at the sequent's type variables
                i = draw_line()
                if i is None:
                    continue
                stvs = set()
                for t in list(lines[i].hyps) + [lines[i].prop]:
                    for T in t.get_stvars():
                        stvs.add(T.name)
                T = ['stv', data.draw(st.sampled_from(sorted(stvs)))] if stvs else gen.SA
                sv = ['sv', data.draw(st.sampled_from(opts.names)), T]
                C = ['app', ['app', ['c', 'equals', fun(T, T, BOOL)], sv], sv]
                try_step({'rule': 'implies_intr', 'args': C, 'prevs': [i]})
            elif mode == 'implies_elim':
                pairs = [(i, j) for i, a in enumerate(lines) if a.prop.is_implies()
                         for j, b in enumerate(lines) if a.prop.arg1 == b.prop]
                if pairs and not adv:
                    i, j = data.draw(st.sampled_from(pairs))
                else:
                    i, j = draw_line(lambda th: th.prop.is_implies()), draw_line()
                    if i is None:
                        continue
                try_step({'rule': 'implies_elim', 'args': None, 'prevs': [i, j]})
            elif mode == 'reflexive':
                try_step({'rule': 'reflexive', 'args': term_of(some_type(), adv, 2), 'prevs': []})
            elif mode == 'symmetric':
                i = draw_line((lambda th: th.prop.is_equals()) if not adv else None)
                if i is None:
                    continue
                try_step({'rule': 'symmetric', 'args': None, 'prevs': [i]})
            elif mode == 'transitive':
                pairs = [(i, j) for i, a in enumerate(lines) if a.prop.is_equals()
                         for j, b in enumerate(lines) if b.prop.is_equals() and a.prop.rhs == b.prop.lhs]
                if pairs and not adv:
                    i, j = data.draw(st.sampled_from(pairs))
                else:
                    # near miss: two equations whose middle terms differ
                    i, j = draw_line(lambda th: th.prop.is_equals()), draw_line(lambda th: th.prop.is_equals())
                    if i is None:
                        continue
                try_step({'rule': 'transitive', 'args': None, 'prevs': [i, j]})
            elif mode == 'combination':
                eqs = [i for i, a in enumerate(lines) if a.prop.is_equals()]
                pairs = []
                for i in eqs:
                    try:
                        Tf = lines[i].prop.lhs.get_type()
                    except Exception:
                        continue
                    if Tf.is_fun():
                        for j in eqs:
                            try:
                                if lines[j].prop.lhs.get_type() == Tf.domain_type():
                                    pairs.append((i, j))
                            except Exception:
                                pass
                if pairs and not adv:
                    i, j = data.draw(st.sampled_from(pairs))
                elif eqs:
                    i, j = data.draw(st.sampled_from(eqs)), data.draw(st.sampled_from(eqs))
                else:
                    continue
                try_step({'rule': 'combination', 'args': None, 'prevs': [i, j]})
            elif mode == 'equal_intr':
                imps = [i for i, a in enumerate(lines) if a.prop.is_implies()]
                pairs = [(i, j) for i in imps for j in imps
                         if lines[i].prop.arg1 == lines[j].prop.arg and lines[i].prop.arg == lines[j].prop.arg1]
                if pairs and not adv:
                    i, j = data.draw(st.sampled_from(pairs))
                    try_step({'rule': 'equal_intr', 'args': None, 'prevs': [i, j]})
                elif imps:
                    i = data.draw(st.sampled_from(imps))
                    if data.draw(st.booleans()):
                        # helper: assume the converse, then equal_intr
                        conv = ['app', ['app', ['c', 'implies', fun(BOOL, BOOL, BOOL)], enc(lines[i].prop.arg)],
                                enc(lines[i].prop.arg1)]
                        if try_step({'rule': 'assume', 'args': conv, 'prevs': []}):
                            try_step({'rule': 'equal_intr', 'args': None, 'prevs': [i, len(lines) - 1]})
                    else:
                        try_step({'rule': 'equal_intr', 'args': None, 'prevs': [i, data.draw(st.sampled_from(imps))]})
            elif mode == 'equal_elim':
                pairs = [(i, j) for i, a in enumerate(lines) if a.prop.is_equals()
                         for j, b in enumerate(lines) if a.prop.lhs == b.prop]
                if pairs and not adv:
                    i, j = data.draw(st.sampled_from(pairs))
                else:
                    i, j = draw_line(lambda th: th.prop.is_equals() and th.prop.lhs.get_type().is_tconst()
                                     and th.prop.lhs.get_type().name == 'bool'), draw_line()
                    if i is None:
                        continue
                try_step({'rule': 'equal_elim', 'args': None, 'prevs': [i, j]})
            elif mode == 'subst_type':
                i = draw_line()
                if i is None:
                    continue
                th = lines[i]
                names = set()
                for t in list(th.hyps) + [th.prop]:
                    for T in t.get_stvars():
                        names.add(T.name)
                    for v in t.get_svars():
                        for T in v.T.get_stvars():
                            names.add(T.name)
                names = sorted(names) or ['a']
                if adv:
                    names = names + ['b']
                chosen = data.draw(st.lists(st.sampled_from(names), min_size=1, max_size=2, unique=True))
                try_step({'rule': 'subst_type', 'args': {'tyinst': {n: some_type() for n in chosen}}, 'prevs': [i]})
            elif mode == 'substitution':
                i = draw_line()
                if i is None:
                    continue
                th = lines[i]
                svars = []
                for t in list(th.hyps) + [th.prop]:
                    for v in t.get_svars():
                        if all(not (v.name == w.name and v.T == w.T) for w in svars):
                            svars.append(v)
                tyinst = {}
                inst = {}
                stv_names = sorted({T.name for v in svars for T in v.T.get_stvars()})
                implicit = False
                if stv_names and data.draw(st.integers(0, 2)) != 0:
                    for nme in data.draw(st.lists(st.sampled_from(stv_names), min_size=1, max_size=2, unique=True)):
                        tyinst[nme] = some_type()
                    # implicit: the type instantiation is NOT passed; Term.subst has to infer it from the terms
                    implicit = data.draw(st.booleans())
                sig = {('stv', k_): v for k_, v in tyinst.items()}
                if implicit:
                    tyinst = {}
                if svars:
                    for v in data.draw(st.lists(st.sampled_from(svars), min_size=1, max_size=3,
                                                unique_by=lambda v: v.name)):
                        T = codec.jt_subst(codec.type_enc(v.T), sig) if not adv else some_type()
                        inst[v.name] = term_of(T, adv, 2)
                        if adv and data.draw(st.integers(0, 2)) == 0:
                            # an open term whose loose variable hides in argument position (get_type does not look there)
                            T0 = codec.jt_subst(codec.type_enc(v.T), sig)
                            inst[v.name] = ['app', ['abs', 'z', T0, ['b', 0]], ['b', 0]]
                var_inst = {}
                if data.draw(st.integers(0, 3)) == 0:
                    fvs = []
                    for t in list(th.hyps) + [th.prop]:
                        for v in t.get_vars():
                            fvs.append(v)
                    if fvs:
                        v = data.draw(st.sampled_from(fvs))
                        var_inst[v.name] = term_of(codec.type_enc(v.T) if not adv else some_type(), adv, 2)
                        if adv and data.draw(st.booleans()):
                            var_inst[v.name] = ['app', ['abs', 'z', codec.type_enc(v.T), ['b', 0]], ['b', 0]]
                if not inst and not tyinst and not var_inst:
                    inst['x'] = term_of(BOOL, False, 1)
                a = {'inst': inst}
                if tyinst:
                    a['tyinst'] = tyinst
                if var_inst:
                    a['var_inst'] = var_inst
                try_step({'rule': 'substitution', 'args': a, 'prevs': [i]})
            elif mode == 'const_fun_pair':
                # fitted: |- (%y. t) a = (%y. t) b for a body t that does not use y (t may contain schematic
                # variables): valid, and every later step that lets something be captured by %y breaks it
                T = some_type()
                aT = data.draw(st.sampled_from(gen.atom_types(opts)))
                body = term_of(T, False, 1)
                if data.draw(st.booleans()):
                    body = ['sv', data.draw(st.sampled_from(['X', 'f', 'x'])), T]
                lam = ['abs', 'y', aT, body]
                a1, a2 = term_of(aT, False, 1), term_of(aT, False, 1)
                n0 = len(steps)
                if try_step({'rule': 'beta_conv', 'args': ['app', lam, a1], 'prevs': []}) and \
                        try_step({'rule': 'beta_conv', 'args': ['app', lam, a2], 'prevs': []}) and \
                        try_step({'rule': 'symmetric', 'args': None, 'prevs': [n0 + 1]}):
                    if try_step({'rule': 'transitive', 'args': None, 'prevs': [n0, n0 + 2]}) and data.draw(st.booleans()):
                        # ... for instance an instantiation by an open term (bare, or with the loose variable in
                        # argument position), through inst or var_inst
                        th = lines[-1]
                        vs = [v for v in th.prop.get_svars()] + [v for v in th.prop.get_vars()]
                        if vs:
                            v = data.draw(st.sampled_from(vs))
                            Tv = codec.type_enc(v.T)
                            open_t = data.draw(st.sampled_from([['b', 0], ['app', ['abs', 'z', Tv, ['b', 0]], ['b', 0]],
                                                                ['app', ['abs', 'z', Tv, ['b', 0]], ['b', 1]]]))
                            key = 'inst' if v.is_svar() else 'var_inst'
                            try_step({'rule': 'substitution', 'args': {'inst': {}, key: {v.name: open_t}}, 'prevs': [len(steps) - 1]})
            elif mode == 'beta_conv':
                T = some_type()
                if adv:
                    t = term_of(T, True, 2)
                elif data.draw(st.integers(0, 2)) == 0:
                    # the same open sub-term s below one and below two binders: (%x. s = (%y. s) b) a
                    aT = data.draw(st.sampled_from(gen.atom_types(opts)))
                    sub = data.draw(gen.terms(opts, T, (aT,), 2))
                    inner = ['app', ['abs', 'y', aT, sub], term_of(aT, False, 1)]
                    t = ['app', ['abs', 'x', aT, ['app', ['app', ['c', 'equals', fun(T, T, BOOL)], sub], inner]], term_of(aT, False, 1)]
                else:
                    aT = data.draw(st.sampled_from(gen.small_types(opts)))
                    nm = data.draw(st.sampled_from(opts.names))
                    t = ['app', ['abs', nm, aT, data.draw(gen.terms(opts, T, (aT,), 2))], term_of(aT, False, 2)]
                try_step({'rule': 'beta_conv', 'args': t, 'prevs': []})
            elif mode in ('abstraction', 'forall_intr'):
                i = draw_line((lambda th: th.prop.is_equals()) if mode == 'abstraction' and not adv else None)
                if i is None:
                    continue
                th = lines[i]
                cands = []
                for t in list(th.hyps) + [th.prop]:
                    cands.extend(t.get_vars())
                    cands.extend(t.get_svars())
                if cands and data.draw(st.integers(0, 3)) != 0:
                    x = enc(data.draw(st.sampled_from(cands)))
                    if adv and data.draw(st.booleans()):
                        x = [x[0], x[1], some_type()]     # same name, other type
                else:
                    x = [data.draw(st.sampled_from(['v', 'sv'])), data.draw(st.sampled_from(opts.names)), some_type()]
                try_step({'rule': mode, 'args': x, 'prevs': [i]})
            elif mode == 'forall_elim':
                i = draw_line((lambda th: th.prop.is_forall()) if not adv else None)
                if i is None:
                    continue
                th = lines[i]
                if th.prop.is_forall() and th.prop.arg.is_abs() and not adv:
                    T = codec.type_enc(th.prop.arg.var_T)
                else:
                    T = some_type()
                try_step({'rule': 'forall_elim', 'args': term_of(T, adv, 2), 'prevs': [i]})
            elif mode == 'random_prevs':
                if not lines:
                    continue
                r = data.draw(st.sampled_from(['implies_elim', 'transitive', 'combination', 'equal_intr', 'equal_elim',
                                               'symmetric']))
                ps = [draw_line() for _ in range(1 if r == 'symmetric' else 2)]
                try_step({'rule': r, 'args': None, 'prevs': ps})
        if steps:
            run_case({'steps': steps, 'k': desc['k'], 'shared': shared} if shared else {'steps': steps, 'k': desc['k']}, H)

    harness.hyp_run(st.data(), body, desc['n'], seed)
