"""C07 - printing then parsing a type, term, sequent, instantiation or proof step is the identity; the result
does not depend on what was printed or parsed earlier.

Cases (JSON, terms/types in the vlib.codec encoding):
  {"kind":"term",  "theory":th, "t":term, "unicode":b, "highlight":b, "line_length":null|int,
                   "prefix":[op...], "fresh":b}
        prefix ops (executed before the main print, results ignored):
          {"op":"print","t":term,"theory":th,"unicode":b,"highlight":b,"line_length":..}   print (and re-parse) another term
          {"op":"share","how":"eq"|"sub"|"lam"|"thm","unicode":b}     print a term / sequent built from the SAME Python
                                                                      object as the main term
        fresh: also compare two never-used processes - one runs the prefix and then prints the term, the other prints
               the term only - and require the same text (also done when the bound names in the text are not variants
               of the term's own binder names)
  {"kind":"type",  "theory":th, "T":type, "unicode":b, "highlight":b}
  {"kind":"thm",   "theory":th, "hyps":[term], "prop":term, "unicode":b, "highlight":b, "line_length":..}
  {"kind":"inst",  "theory":th, "inst":{name:term}, "unicode":b, "highlight":b}
  {"kind":"tyinst","theory":th, "tyinst":{name:type}, "unicode":b, "highlight":b}
  {"kind":"item",  "theory":th, "id":[int], "rule":str, "args":A, "prevs":[[int]], "th":{"hyps","prop"}|null,
                   "unicode":b, "highlight":b}
        A ::= null | ["str",s] | ["term",t] | ["terms",[t]] | ["inst",{n:t}] | ["tyinst",{n:T}] | ["type",T] | ["tuple",[A]]
"""
import atexit
import contextlib
import io
import itertools
import json

from vlib import harness, codec, gen, ref, libsig
from vlib import c07_lib as L
from vlib.harness import CaseInvalid, SelfTestError, time_limit, Timeout
from vlib.codec import BOOL, fun
from vlib.c07_lib import NAT, INT, REAL, CHAR, STRING, A, B, tset, tlist

ID = 'C07'
RULE = ("Well-typed closed terms over the signatures of the library theories logic, nat, int, real, set, list, function, "
        "string, interval_arith (constants read from the loaded theory; overloaded constants only at instances that a "
        "library item declares or a library statement uses; one type per free name; names are identifiers that are "
        "neither constants nor grammar keywords). Generators: (a) the operator ladder over interval_arith (contains every "
        "table operator) and string - ENUMERATED pairs outer-frame[position := inner-frame]: every table operator of "
        "syntax/operator.py at several type instances and arities (partial, exact, over-applied), binders ! ? ?! THE SOME "
        "% and set comprehension (also with the binder name equal to a free name of the body), if, applications, literal "
        "lists/sets, intervals, function update, numerals 0/1/2/3/10, negative and fractional numerals, chars/strings, bare "
        "operator constants (all pairs in ASCII, every third also in Unicode; thorough: all in both), plus random deeper "
        "ladders with several compound arguments; (b) type-directed random terms (vlib.gen) over the FULL signature of "
        "each theory, which leave many polymorphic constants undetermined by context; (c) every theorem/axiom statement of "
        "the nine library theories (what real callers print and parse); (d) types, sequents, Inst/TyInst, ProofItems of "
        "every argument-signature kind (export_proof_item/parse_proof_rule); (e) history: the case is printed after a "
        "drawn prefix (alpha-variants with other binder names, the same term under other theories and settings, "
        "terms/sequents sharing the same Python objects, unrelated terms); its text must equal what a never-used process "
        "prints (sampled 1/16, plus every case whose bound names in the text are not variants of its own binder names, "
        "up to 3 per shard). Settings: unicode x highlight x line_length in {None,20,40,80}; highlighted segments are "
        "concatenated; multi-line output goes to parse_term as a list (the JSON-file path) or joined with newlines "
        "(display_term). Oracle: parse in fresh_context(vars/svars = those of the term) under the same theory; the "
        "result must be alpha-equal to the JSON original by the independent reference (vlib.ref) AND equal by holpy ==; "
        "ASCII mode must print ASCII only and Unicode mode none of the ASCII operator spellings. Non-trivial: >= 2 table "
        "operators nested, or a binder, or the text contains '::' (types: a constructor with arguments; sequents: >= 1 "
        "hypothesis; items: arguments or a sequent present); distinct by kind+theory+object (canonical JSON, not the printed text: the text of alpha-equal terms depends on the printing history).")
ASSUMPTIONS = [
    "Inst objects are compared on their term map only: tyinst / var_inst / abs_name_inst of kernel.term.Inst have no "
    "concrete syntax in export_proof_item and are generated empty",
    "print_thm is exercised with line_length=None in the main sweep (no caller in /repo sets line_length around "
    "print_thm / export_proof_item); 1 sequent in 40 is printed under line_length=40 and reported under its own signature",
    "a print or a re-parse that raises counts as a violation of the round trip (the property is a total statement about "
    "in-domain objects)",
    "schematic type variables are generated in types and TyInsts only; terms contain type variables 'a, 'b but no ?'a",
    "the fresh-process text is produced by a forked child of a python process that has only imported holpy (and the "
    "modules the printer imports lazily) and loaded the theory; it has never printed or parsed a term itself",
    "a component term of a sequent / instantiation / proof item that already fails on its own is reported under the TERM "
    "signature, and the composite comparison is skipped for that case",
    "signatures of known root causes are assigned by shape predicates on the smallest failing subterm (root_cause()); "
    "a new defect whose smallest failing subterm has one of those shapes would be counted under the old signature",
    "the thorough tier's text-first atheris campaign of DESIGN.md is replaced by the library statements and deeper "
    "generated terms",
]
SHRINK_BUDGET = 200
SHRINK_SECONDS = 25

THEORIES = ['logic', 'nat', 'int', 'real', 'set', 'list', 'function', 'string', 'interval_arith']
# theories whose signature contains the first one's (used for "same term under another theory")
SUPERSETS = {
    'logic': ['nat'], 'nat': ['int'], 'int': [], 'real': ['interval_arith'], 'set': ['list'], 'list': ['string'],
    'function': ['set'], 'string': [], 'interval_arith': [],
}
ATOMS = {
    'logic': [BOOL, A, B],
    'nat': [BOOL, NAT, A],
    'int': [BOOL, INT, NAT],
    'real': [BOOL, REAL, NAT, INT],
    'set': [BOOL, A, tset(A), NAT, tset(NAT)],
    'list': [BOOL, A, tlist(A), NAT, tlist(NAT)],
    'function': [BOOL, A, B, NAT],
    'string': [BOOL, CHAR, STRING, NAT, tlist(CHAR)],
    'interval_arith': [BOOL, REAL, NAT, tset(REAL)],
}
UNIVERSE = [BOOL, NAT, REAL, A, tset(NAT), tlist(NAT), fun(NAT, NAT), tset(tset(NAT))]
UNIVERSE2 = [NAT, BOOL, fun(NAT, NAT)]
UNIVERSE_STR = [BOOL, NAT, CHAR, STRING, tlist(CHAR)]
LADDER_THEORIES = ['interval_arith', 'string']

_S = {}
_workers = {}


# ======================================================================================== setup
def _build_theory_tables(name):
    S = libsig.sig_for(name)
    thy = S['theory']
    consts = [(nm, T) for nm, T in S['consts']]
    declared = {}
    for nm, T in consts:
        declared.setdefault(nm, []).append(T)
    # instances of overloaded constants that the statements of the library itself use (e.g. minus / times at int are
    # never introduced by a Constant item, only used): in domain because real callers print and parse them
    from logic import basic
    used = 0
    for tname in basic.get_import_order([name]):
        for item in basic.theory_cache['master'][tname]['content']:
            if getattr(item, 'error', None) is not None or item.ty not in ('thm', 'thm.ax'):
                continue
            try:
                occ = L.const_occurrences(codec.term_enc(item.prop))
            except Exception:
                continue
            for nm, T in occ:
                if nm in S['overloaded'] and not codec.jt_vars(T) and T not in declared.setdefault(nm, []):
                    if not any(codec.jt_match(dT, T, {}) for dT in declared[nm]):
                        declared[nm].append(T)
                        used += 1
    const_names = set(thy.get_data('term_sig').keys())
    names = [n for n in L.POOL if L.legal_name(n, const_names)]
    d = {'thy': thy, 'consts': consts, 'declared': declared, 'const_names': const_names, 'names': names,
         'types': dict(S['types']), 'atoms': ATOMS[name]}
    return d


def _build_ladder(name):
    S = _S[name]
    uni = UNIVERSE_STR if name == 'string' else UNIVERSE
    uni2 = [NAT, BOOL, CHAR] if name == 'string' else UNIVERSE2
    frames = L.build_frames(S['consts'], S['types'], uni, uni2)
    fillers = L.atom_fillers(S['consts'], S['types'], [u for u in uni if u[0] == 'tv' or u[1] in S['types']])
    by_res = {}
    for F in frames:
        by_res.setdefault(json.dumps(F.res), []).append(F)
    atoms_by_type = {}
    for f in fillers:
        atoms_by_type.setdefault(json.dumps(f[2]), []).append(f)
    S['frames'] = frames
    S['frames_by_res'] = by_res
    S['atoms_by_type'] = atoms_by_type


def setup():
    import syntax.parser  # noqa
    import syntax.printer  # noqa
    from syntax import operator
    for name in THEORIES:
        _S[name] = _build_theory_tables(name)
    for name in LADDER_THEORIES:
        _build_ladder(name)
    # ---- self-tests -----------------------------------------------------------------------------------
    # 1. name pools are legal in every theory
    for name in THEORIES:
        if len(_S[name]['names']) < 12:
            raise SelfTestError('name pool too small in theory %s' % name)
    for Ty, nms in L._NAMES_BY_TYPE:
        for nm in nms:
            for name in LADDER_THEORIES:
                if not L.legal_name(nm, _S[name]['const_names']):
                    raise SelfTestError('ladder atom name %s is a constant/keyword in %s' % (nm, name))
    # 2. every table operator of syntax/operator.py occurs as an outer frame and as an inner filler
    table = set(e.fun_name for e in operator.op_data_raw if e.arity != operator.CONST)
    if table != set(L.TABLE_OPS):
        raise SelfTestError('operator table of /repo differs from the ladder table: %s' % sorted(table ^ set(L.TABLE_OPS)))
    if set(e.fun_name for e in operator.binder_data_raw) != set(L.BINDERS):
        raise SelfTestError('binder table differs')
    have = set(F.cls for F in _S['interval_arith']['frames'])
    missing = (set(L.TABLE_OPS) | set(L.BINDERS) | {'lam', 'collect', 'if', 'app', 'list-literal', 'set-literal', 'interval',
                                                   'fun_upd'}) - have
    if missing:
        raise SelfTestError('no ladder frame for %s' % sorted(missing))
    # 3. oracle self-test: a known-good round trip, and the comparison rejects a non-identity
    H = harness.Ctx(ID)
    x, y, z = L.V('x', NAT), L.V('y', NAT), L.V('z', NAT)
    plus = L.C('plus', fun(NAT, NAT, NAT))
    times = L.C('times', fun(NAT, NAT, NAT))
    good = L.app(plus, x, L.app(times, y, z))
    r = roundtrip_term('nat', good, False, False, None)
    if r['status'] != 'ok' or 'x' not in (r['text'] or ''):
        raise SelfTestError('known-good round trip fails: %r' % (r,))
    if ref.alpha_eq(ref.from_jterm(good), ref.from_jterm(L.app(times, L.app(plus, x, y), z))):
        raise SelfTestError('reference comparison accepts different terms')
    if compare_terms(codec.term_dec(L.app(plus, y, x)), L.app(plus, x, y))[0]:
        raise SelfTestError('comparison accepts x + y vs y + x')
    lam1 = ["abs", "u", NAT, L.app(plus, ["b", 0], x)]
    lam2 = ["abs", "v", NAT, L.app(plus, ["b", 0], x)]
    if not compare_terms(codec.term_dec(lam1), lam2)[0]:
        raise SelfTestError('comparison rejects alpha-equivalent terms')
    # 4. flatten
    if L.flatten([[{'text': 'a ', 'color': 0}], [{'text': 'b', 'color': 1}]]) != ('a \nb', ['a ', 'b']):
        raise SelfTestError('flatten')
    if L.flatten('a') != ('a', None) or L.flatten([{'text': 'a', 'color': 0}, {'text': 'b', 'color': 0}])[0] != 'ab':
        raise SelfTestError('flatten')
    # 5. validation rejects out-of-domain terms
    for bad in (L.app(plus, x, L.V('x', BOOL)), L.app(L.C('plus', fun(BOOL, BOOL, BOOL)), L.V('p', BOOL), L.V('q', BOOL)),
                ["abs", "x", NAT, ["b", 1]], L.V('plus', NAT), L.V('O', NAT),
                L.app(L.V('f', fun(NAT, BOOL)), L.V('f', NAT))):
        try:
            validate('nat', bad)
        except CaseInvalid:
            continue
        raise SelfTestError('validation accepts out-of-domain term %r' % (bad,))
    validate('nat', good)
    # The loaded theories are a large, immutable heap: keep the cyclic GC of the forked shard processes away from it
    # (a full collection in a forked child touches every inherited object; measured 6x slowdown, mostly system time).
    import gc
    gc.collect()
    gc.freeze()


def use_theory(name):
    from kernel import theory
    if name not in _S:
        raise CaseInvalid('theory %r' % (name,))
    theory.thy = _S[name]['thy']


def validate(thname, j, want_type=None):
    S = _S[thname]
    return L.validate_term(j, S['declared'], S['types'], S['const_names'], want_type)


# ======================================================================================== oracle
context_of = L.context_of


def compare_terms(t2, j):
    """(equal?, how) - t2: parsed holpy term, j: JSON original."""
    try:
        r2 = ref.from_term(t2)
    except Exception as e:
        return False, 'parsed object is not a complete term: %s' % e
    same_ref = ref.alpha_eq(r2, ref.from_jterm(j))
    return same_ref, ref.show(r2)


def parsed_binder_names(t):
    """Binder names of a holpy term in pre-order (fun before arg), read from its public fields."""
    out = []
    stack = [t]
    while stack:
        s = stack.pop()
        if s.is_comb():
            stack.append(s.arg)
            stack.append(s.fun)
        elif s.is_abs():
            out.append(s.var_name)
            stack.append(s.body)
    return out


def names_look_foreign(j, parsed):
    """Cheap in-process screen for history dependence: every bound name shown in the text must be the term's own
    suggested name or a numbered variant of it.  A hit is only a reason to ask the fresh process."""
    own = L.binder_names(j)
    if parsed is None or len(own) != len(parsed):
        return False
    for a, b in zip(own, parsed):
        if not (b == a or (b.startswith(a) and b[len(a):].isdigit())):
            return True
    return False


ASCII_SPELLINGS = ['-->', '=>', '<=', '>=', ' & ', ' | ', '~', '%', ' Mem ', ' Sub ', ' Un ', ' Int ', 'UN ', 'INT ', ' O ']


def spelling_problem(text, uni):
    """The unicode setting must be honoured: ASCII mode prints ASCII only (all generated names are ASCII); Unicode mode
    uses none of the ASCII spellings that have a Unicode form in syntax/operator.py."""
    if not uni:
        for ch in text:
            if ord(ch) > 127:
                return ch
        return None
    for sp in ASCII_SPELLINGS:
        if sp in text:
            return sp
    return None


def _quiet():
    return contextlib.redirect_stdout(io.StringIO())


def exc_name(e):
    return type(e).__name__


def roundtrip_term(thname, j, uni, hl, ll, t=None):
    """Print and re-parse.  status: ok | print-raises | bad-output | reparse-fails | differs | holpy-eq-disagrees"""
    from logic import context
    from syntax import parser
    use_theory(thname)
    if t is None:
        t = codec.term_dec(j)
    try:
        text, lines = L.do_print('term', t, uni, hl, ll)
    except L.BadOutput as e:
        return {'status': 'bad-output', 'text': None, 'detail': str(e)}
    except (Timeout, RecursionError):
        raise
    except Exception as e:
        return {'status': 'print-raises', 'text': None, 'detail': '%s: %s' % (exc_name(e), str(e)[:300]), 'exc': exc_name(e)}
    bad = spelling_problem(text, uni)
    if bad:
        return {'status': 'settings-not-honoured', 'text': text,
                'detail': 'printed %r with unicode=%s: contains %r' % (text, uni, bad)}
    vs, svs = context_of([j])
    try:
        with context.fresh_context(vars=vs, svars=svs), _quiet():
            if lines is not None and not hl:
                t2 = parser.parse_term(list(lines))
            else:
                t2 = parser.parse_term(text)
    except (Timeout, RecursionError):
        raise
    except Exception as e:
        return {'status': 'reparse-fails', 'text': text, 'exc': exc_name(e),
                'detail': 'printed %r; parse raises %s: %s' % (text, exc_name(e), str(getattr(e, 'err', e))[:200])}
    same_ref, shown = compare_terms(t2, j)
    try:
        same_holpy = bool(t2 == t) and bool(t == t2)
    except Exception as e:
        same_holpy = None
    if not same_ref:
        return {'status': 'differs', 'text': text,
                'detail': 'printed %r; parsed back as %s; original %s' % (text, shown, ref.show(ref.from_jterm(j)))}
    if same_holpy is not True:
        return {'status': 'holpy-eq-disagrees', 'text': text,
                'detail': 'printed %r; reference says alpha-equal, holpy == says %r' % (text, same_holpy)}
    return {'status': 'ok', 'text': text, 'detail': '', 'parsed_binders': parsed_binder_names(t2)}


# ---- root causes: (name, predicate on the minimal failing subterm (JSON), text) -> feature.  Filled in after triage so
# ---- that one root cause maps to one signature; unknown failures get a feature computed from the minimal subterm.
def _head(j):
    return L.strip_app(j)


def _is_const(j, name=None):
    return j[0] == 'c' and (name is None or j[1] == name)


CMP50 = ('member', 'subset', 'less_eq', 'less', 'greater_eq', 'greater')
UNARY = ('neg', 'uminus', 'Union', 'Inter')


def _op_head(j):
    """(name, nargs) if j is a constant applied to arguments, else (None, 0)."""
    head, args = L.strip_app(j)
    if head[0] == 'c':
        return head[1], len(args)
    return None, 0


def _is_cmp50(j):
    nm, n = _op_head(j)
    if n != 2:
        return False
    if nm in CMP50:
        return True
    if nm == 'equals':
        head, _ = L.strip_app(j)
        return head[2][2] != BOOL
    return False


def _marks_vs_shown(thname, sub, text):
    """How many constants / binders infer_printed_type marks for a type annotation, versus how many annotations the
    text shows.  Only used to NAME the root cause of an already established failure."""
    from copy import copy
    from syntax import infertype
    try:
        use_theory(thname)
        t = copy(codec.term_dec(sub))
        infertype.infer_printed_type(t)
    except Exception:
        return None
    marks = [0]

    def rec(t):
        if hasattr(t, 'print_type'):
            marks[0] += 1
        if t.is_comb():
            rec(t.fun)
            rec(t.arg)
        elif t.is_abs():
            rec(t.body)
    rec(t)
    return marks[0], (text or '').count('::')


def _binary_value(j):
    if j[0] == 'c' and j[1] == 'zero':
        return 0
    if j[0] == 'c' and j[1] == 'one':
        return 1
    nm, n = _op_head(j)
    if nm in ('bit0', 'bit1') and n == 1:
        v = _binary_value(j[2])
        if v is None:
            return None
        return 2 * v + (1 if nm == 'bit1' else 0)
    return None


def root_cause(thname, sub, r):
    """Name of the known root cause exhibited by the minimal failing subterm `sub` (None if unknown).  One name per
    repair: see the triage notes in the C07 report."""
    nm, n = _op_head(sub)
    head, args = L.strip_app(sub)
    if (nm in UNARY or nm in L.BINDERS) and n >= 2:
        return 'unary-operator-or-binder-overapplied'
    for a in args:
        # applications that get_priority_pair classifies as atomic numerals although they are printed as applications:
        # of_nat applied to the binary 0 / 1, and 1 / 0 (dest_number() == 0)
        if _op_head(a) == ('of_nat', 1):
            v = _binary_value(a[2])
            if v is not None and v < 2:
                return 'application-treated-as-atomic-numeral'
        if _op_head(a) == ('real_divide', 2):
            _, dargs = L.strip_app(a)
            if _is_const(dargs[0], 'one') and _is_const(dargs[1], 'zero'):
                return 'application-treated-as-atomic-numeral'
    if nm == 'Char' and n == 1:
        return 'char-literal-not-in-grammar'
    if nm == 'String' and n == 1:
        return 'string-literal-not-an-identifier'
    if _is_cmp50(sub) and any(_is_cmp50(a) for a in args):
        return 'priority-50-operators-nested'
    if nm == 'append' and n == 2 and _op_head(args[1]) == ('cons', 2):
        return 'append-cons-same-priority'
    if nm is not None and n >= 1:
        inner = [_op_head(a) for a in args]
        if nm in ('uminus', 'Union', 'Inter') and n == 1 and inner[0][1] == 1 and inner[0][0] in UNARY:
            return 'unary-operator-priority'
        tight = (nm in L.TABLE_BINARY and nm not in ('conj', 'disj', 'implies') and not (nm == 'equals' and head[2][2] == BOOL))
        if tight and n == 2 and ('neg', 1) in inner:
            return 'unary-operator-priority'
    if r.get('status') == 'reparse-fails' and r.get('exc') == 'TypeInferenceException':
        mv = _marks_vs_shown(thname, sub, r.get('text'))
        if mv is not None and mv[0] > mv[1]:
            return 'type-annotation-mark-ignored'
    return None


def term_signature(status, r, feat):
    """Known root cause: one signature whatever the failure class; unknown: failure class + computed feature."""
    if '@' in feat:
        return 'term:roundtrip:' + feat.replace('@', '')
    return 'term:%s:%s' % (status if status not in ('print-raises', 'reparse-fails') else status + '-' + r.get('exc', ''), feat)


def describe(sub):
    head, args = L.strip_app(sub)
    if sub[0] == 'abs':
        return 'lam(%s)' % L.head_label(sub[3])
    inner = []
    for a in args:
        if a[0] == 'abs':
            inner.append('lam.' + L.head_label(a[3]).split('/')[0])
        else:
            inner.append(L.head_label(a).split('/')[0])
    return '%s(%s)' % (L.head_label(sub), ','.join(inner))


_feature_memo = {}


def term_feature(thname, j, uni, hl, ll, status):
    """Feature for the signature: computed from the smallest subterm that fails on its own."""
    key = harness.canon([thname, j, uni, bool(ll), status])
    if key in _feature_memo:
        return _feature_memo[key]
    best = None
    subs = L.open_subterms(j)
    subs.sort(key=lambda s: (L.jsize(s), harness.canon(s)))
    seen = set()
    for mode_ll in ((None,) if ll is None else (None, ll)):
        for s in subs:
            k = harness.canon(s)
            if (k, mode_ll) in seen:
                continue
            seen.add((k, mode_ll))
            try:
                validate(thname, s)
                r = roundtrip_term(thname, s, uni, False, mode_ll)
            except CaseInvalid:
                continue
            except (Timeout, RecursionError):
                continue
            if r['status'] != 'ok':
                best = (s, r, mode_ll)
                break
        if best:
            break
    if best is None:
        feat = 'only-in-context'
    else:
        s, r, mode_ll = best
        rc = root_cause(thname, s, r)
        feat = ('@' + rc) if rc else describe(s)
        if mode_ll is not None:
            feat = 'line-break:' + feat
    _feature_memo[key] = feat
    return feat


def components_ok(thname, js, uni, case, H):
    """Composite objects (sequents, instantiations, proof items): a component that already fails as a term is reported
    under the TERM signature (one signature per root cause) and the composite comparison is skipped."""
    ok = True
    seen = set()
    for j in js:
        k = harness.canon(j)
        if k in seen:
            continue
        seen.add(k)
        r = roundtrip_term(thname, j, uni, False, None)
        if r['status'] != 'ok':
            feat = term_feature(thname, j, uni, False, None, r['status'])
            H.violation(term_signature(r['status'], r, feat), case, '(component of a %s) %s' % (case.get('kind'), r['detail']))
            ok = False
    return ok


# ======================================================================================== kinds
def settings_of(case):
    uni, hl, ll = case.get('unicode', False), case.get('highlight', False), case.get('line_length')
    if not isinstance(uni, bool) or not isinstance(hl, bool) or not (ll is None or (isinstance(ll, int) and not isinstance(ll, bool)
                                                                                     and 5 <= ll <= 200)):
        raise CaseInvalid('settings')
    return uni, hl, ll


def term_classes(j, text):
    nops, depth, nbind = L.table_ops_in(j)
    kl = []
    if depth >= 2:
        kl.append('ops-nested>=2')
    if depth >= 3:
        kl.append('ops-nested>=3')
    if nbind:
        kl.append('binder')
    if text is not None and '::' in text:
        kl.append('type-annotation')
    if text is not None and '\n' in text:
        kl.append('multi-line')
    names = set(a[1] for a in L.free_atoms(j) if a[0] == 'v')
    if names & set(L.binder_names(j)):
        kl.append('bound-name=free-name')
    consts = set(c[0] for c in L.const_occurrences(j))
    if consts & {'bit0', 'bit1', 'of_nat', 'zero', 'one'}:
        kl.append('numeral')
    if consts & {'nil', 'insert', 'empty_set', 'Char', 'String'}:
        kl.append('literal')
    for nm, k in (('IF', 'if'), ('fun_upd', 'fun_upd'), ('collect', 'collect'), ('nat_interval', 'interval')):
        if nm in consts:
            kl.append(k)
    if any(a[0] == 'sv' for a in L.free_atoms(j)):
        kl.append('svar')
    nontrivial = depth >= 2 or nbind >= 1 or (text is not None and '::' in text)
    return nontrivial, kl


_worker_starts = {}
MAX_WORKER_STARTS = 2
MAX_SCREEN_CONFIRMATIONS = 2


def get_worker(thname, extra=()):
    """The fresh-process printing service for a theory (started at most MAX_WORKER_STARTS times per process; must be
    started OUTSIDE any time_limit - see ensure_worker).  extra: other theories that prefix ops need."""
    w = _workers.get(thname)
    if w is not None and w.proc is not None and set(extra) <= set(w.extra):
        return w
    if _worker_starts.get(thname, 0) >= MAX_WORKER_STARTS + (1 if w is not None else 0):
        raise L.WorkerFailed('worker for %s could not be (re)started' % thname)
    _worker_starts[thname] = _worker_starts.get(thname, 0) + 1
    if w is not None:
        extra = sorted(set(extra) | set(w.extra))
        w.close()
    w = L.Worker(thname, sorted(extra))
    w.extra = sorted(extra)
    _workers[thname] = w
    return w


def prefix_theories(case):
    th = case.get('theory')
    return sorted(set(op.get('theory') for op in (case.get('prefix') or [])
                      if isinstance(op, dict) and op.get('op') == 'print' and op.get('theory') in _S and op.get('theory') != th))


def ensure_worker(thname, extra=()):
    try:
        get_worker(thname, extra)
        return True
    except (Timeout, RecursionError):
        raise
    except Exception:
        return False


@atexit.register
def _close_workers():
    for w in list(_workers.values()):
        w.close()
    _workers.clear()


def run_prefix(case, t_obj, H):
    thys = {k: v['thy'] for k, v in _S.items()}
    return L.run_prefix_ops(case.get('prefix'), case['theory'], t_obj, thys, check=validate, note=H.note)


def check_term(case, H):
    thname = case.get('theory')
    j = case.get('t')
    uni, hl, ll = settings_of(case)
    if thname not in _S:
        raise CaseInvalid('theory')
    validate(thname, j)
    use_theory(thname)
    t = codec.term_dec(j)
    ran = run_prefix(case, t, H) if case.get('prefix') else []
    r = roundtrip_term(thname, j, uni, hl, ll, t=t)
    status = r['status']
    nontrivial, kl = term_classes(j, r.get('text'))
    kl = ['term', 'term:th=' + thname] + ['term:' + k for k in kl]
    if uni:
        kl.append('term:unicode')
    if hl:
        kl.append('term:highlight')
    if ll:
        kl.append('term:line_length')
    for p in sorted(set(ran)):
        kl.append('hist:prefix:' + p)
    if status != 'ok':
        # was it the history?
        feat = None
        if status == 'settings-not-honoured':
            feat = 'unicode=%s%s' % (uni, ':after-history' if ran else '')
        if feat is None:
            feat = term_feature(thname, j, uni, hl, ll, status)
            if feat == 'only-in-context' and ran:
                feat = 'after-history'
        H.violation(term_signature(status, r, feat), case, r['detail'])
        kl.append('!term:' + status)
    suspicious = bool(ran) and status == 'ok' and names_look_foreign(j, r.get('parsed_binders'))
    if suspicious:
        kl.append('hist:screen-flags-foreign-bound-names')
    if (case.get('fresh') or suspicious) and r.get('text') is not None and case.get('prefix'):
        # The verdict on history dependence compares TWO never-used processes: one runs the prefix and then prints the
        # term, the other prints the term only.  (Reproducible whatever this process printed before.)
        base = {'t': j, 'unicode': uni, 'highlight': hl, 'line_length': ll}
        reqs = [dict(base, prefix=case.get('prefix')), base]
        deferred = getattr(H, 'c07_deferred', None)
        if deferred is not None:
            # exploration: the requests of a whole shard are sent together (the children run concurrently); screen hits
            # beyond a small budget are only counted
            nscreen = sum(1 for d in deferred if d[4])
            if case.get('fresh') or nscreen < MAX_SCREEN_CONFIRMATIONS:
                deferred.append((case, reqs, r['text'], status, not case.get('fresh')))
                kl.append('hist:compared-with-fresh-process')
            else:
                H.note('hist-screen-hit-not-sent-to-fresh-process')
        else:
            try:
                answers = get_worker(thname, prefix_theories(case)).ask_many(reqs)
            except (Timeout, RecursionError):
                raise
            except Exception as e:
                H.inconc('fresh-worker-failed')
                answers = None
            if answers is not None:
                kl.append('hist:compared-with-fresh-process')
                if compare_with_fresh(case, r['text'], status, answers[0], answers[1], H):
                    kl.append('!hist:text-differs')
    # distinct by theory + term (not by printed text: the text of alpha-equal terms depends on the printing history)
    key = 'term|%s|%s' % (thname, harness.canon(j))
    H.case(case, nontrivial, kl, key=key)
    return r


def compare_with_fresh(case, text, status, polluted, alone, H):
    """polluted / alone: answers of two never-used processes (prefix then term / term only); text: what THIS process
    printed after running the prefix itself."""
    for ans in (polluted, alone):
        if 'text' not in ans and 'no answer' in str(ans.get('err')):
            H.inconc('fresh-child-killed-or-timed-out')
            return False
    if 'text' not in alone:
        if status == 'ok' and 'text' in polluted:
            H.violation('term:history:prints-only-after-history', case, 'alone: %s; after the prefix: %r' % (alone.get('err'), polluted['text']))
            return True
        return False
    if 'text' not in polluted:
        H.violation('term:history:print-fails-after-history', case, 'alone: %r; after the prefix: %s' % (alone['text'], polluted.get('err')))
        return True
    if polluted['text'] != text:
        H.note('in-process text differs from the fresh process that ran the same prefix')
    if polluted['text'] != alone['text']:
        H.violation('term:history-dependent-text:%s' % history_feature(case, polluted['text'], alone['text']), case,
                    'a fresh process that first runs the prefix prints %r; a fresh process prints %r' % (polluted['text'], alone['text']))
        return True
    return False


def history_feature(case, got, fresh):
    """How the two texts differ: only in white space, only in (bound) names, or in structure / symbols."""
    import re

    def norm(x, names):
        if names:
            x = re.sub(r'[A-Za-z_][A-Za-z0-9_]*', 'N', x)
        return re.sub(r'\s+', ' ', x)
    if norm(got, False) == norm(fresh, False):
        return 'layout'
    if norm(got, True) == norm(fresh, True):
        return 'bound-names'          # (line breaks may move with the length of the names)
    return 'structure'


# ---------------------------------------------------------------------------------------- types
def check_type(case, H):
    from syntax import parser
    thname = case.get('theory')
    if thname not in _S:
        raise CaseInvalid('theory')
    uni, hl, _ = settings_of(case)
    jT = case.get('T')

    def val(T):
        if not isinstance(T, list) or not T:
            raise CaseInvalid('type')
        if T[0] in ('tv', 'stv'):
            if not (len(T) == 2 and isinstance(T[1], str) and L.NAME_RE.match(T[1]) and not T[1].startswith('_')):
                raise CaseInvalid('type variable')
            return
        if T[0] != 'tc' or _S[thname]['types'].get(T[1]) != len(T) - 2:
            raise CaseInvalid('type constructor')
        for a in T[2:]:
            val(a)
    val(jT)
    use_theory(thname)
    T = codec.type_dec(jT)
    nontrivial = 'tc' in harness.canon(jT[2:]) if jT[0] == 'tc' else False
    kl = ['type', 'type:unicode' if uni else 'type:ascii'] + (['type:highlight'] if hl else [])
    if 'stv' in harness.canon(jT):
        kl.append('type:stvar')
    text = None
    try:
        text, _ = L.do_print('type', T, uni, hl, None)
    except (Timeout, RecursionError):
        raise
    except Exception as e:
        H.violation('type:print-raises-%s:%s' % (exc_name(e), type_feature(jT)), case, '%s: %s' % (exc_name(e), e))
    if text is not None:
        try:
            with _quiet():
                T2 = parser.parse_type(text)
            if ref.from_type(T2) != ref.from_jtype(jT):
                H.violation('type:differs:%s' % type_feature(jT), case, 'printed %r; parsed back as %s' % (text, ref.show_type(ref.from_type(T2))))
            elif not (T2 == T):
                H.violation('type:holpy-eq-disagrees', case, 'printed %r' % text)
        except (Timeout, RecursionError):
            raise
        except Exception as e:
            H.violation('type:reparse-fails-%s:%s' % (exc_name(e), type_feature(jT)), case,
                        'printed %r; parse raises %s: %s' % (text, exc_name(e), str(e)[:200]))
    H.case(case, nontrivial, kl, key='type|%s|%s' % (thname, harness.canon(jT)))


def type_feature(jT):
    """Smallest structural feature of a type: constructor shape of the outermost failing node is unknown, so use a
    coarse shape: which constructor has which kind of argument."""
    feats = set()

    def rec(T):
        if T[0] != 'tc':
            return
        for i, a in enumerate(T[2:]):
            if a[0] == 'tc' and len(a) > 2:
                feats.add('%s[%d]=%s' % (T[1], i, a[1]))
            rec(a)
    rec(jT)
    if not feats:
        return 'flat'
    return sorted(feats)[0] if len(feats) == 1 else 'nested'


# ---------------------------------------------------------------------------------------- sequents
def decode_thm(thname, jth):
    from kernel.thm import Thm
    if not isinstance(jth, dict) or not isinstance(jth.get('hyps'), list):
        raise CaseInvalid('thm')
    js = list(jth['hyps']) + [jth.get('prop')]
    for j in js:
        validate(thname, j, BOOL)
    # one type per name over the whole sequent
    seen = {}
    for j in js:
        for tag, nm, T in L.free_atoms(j):
            k = (tag, nm)
            if k in seen and seen[k] != json.dumps(T):
                raise CaseInvalid('variable at two types in a sequent')
            seen[k] = json.dumps(T)
    hyps = [codec.term_dec(h) for h in jth['hyps']]
    return Thm(codec.term_dec(jth['prop']), *hyps), js


def compare_thm(th2, jth):
    """Independent comparison of a parsed sequent with its JSON original: hypotheses as a set up to alpha."""
    want_h = set(ref.canon(ref.from_jterm(h)) for h in jth['hyps'])
    got_h = set(ref.canon(ref.from_term(h)) for h in th2.hyps)
    same_p = ref.alpha_eq(ref.from_term(th2.prop), ref.from_jterm(jth['prop']))
    return want_h == got_h and same_p


def thm_feature(thname, jth, uni):
    return 'hyps=%d' % min(len(jth['hyps']), 2)


def check_thm(case, H):
    from logic import context
    from syntax import parser
    thname = case.get('theory')
    if thname not in _S:
        raise CaseInvalid('theory')
    uni, hl, ll = settings_of(case)
    jth = {'hyps': case.get('hyps'), 'prop': case.get('prop')}
    th, js = decode_thm(thname, jth)
    use_theory(thname)
    kl = ['thm', 'thm:hyps=%d' % min(len(jth['hyps']), 3)] + (['thm:unicode'] if uni else []) + (['thm:highlight'] if hl else [])
    if ll:
        kl.append('thm:line_length')
    text = None
    comp_ok = components_ok(thname, js, uni, case, H)
    if not comp_ok:
        kl.append('!thm:component-term-fails')
    try:
        text, lines = L.do_print('thm', th, uni, hl, ll)
    except (Timeout, RecursionError):
        raise
    except Exception as e:
        if comp_ok and ll:
            H.violation('thm:print-raises:line_length-set', case, '%s: %s' % (exc_name(e), str(e)[:300]))
        elif comp_ok:
            H.violation('thm:print-raises-%s:%s' % (exc_name(e), thm_feature(thname, jth, uni)), case,
                        '%s: %s' % (exc_name(e), str(e)[:300]))
    if text is not None and comp_ok:
        vs, svs = context_of(js)
        try:
            with context.fresh_context(vars=vs, svars=svs), _quiet():
                th2 = parser.parse_thm(text)
            if not compare_thm(th2, jth):
                H.violation('thm:differs:%s' % thm_feature(thname, jth, uni), case, 'printed %r; parsed back as %s |- %s' % (
                    text, ', '.join(ref.show(ref.from_term(h)) for h in th2.hyps), ref.show(ref.from_term(th2.prop))))
            elif not (th2 == th):
                H.violation('thm:holpy-eq-disagrees', case, 'printed %r' % text)
        except (Timeout, RecursionError):
            raise
        except Exception as e:
            H.violation('thm:reparse-fails-%s:%s' % (exc_name(e), thm_feature(thname, jth, uni)), case,
                        'printed %r; parse raises %s: %s' % (text, exc_name(e), str(getattr(e, 'err', e))[:200]))
    H.case(case, len(jth['hyps']) >= 1, kl, key='thm|%s|%s' % (thname, harness.canon(jth)))


# ---------------------------------------------------------------------------------------- Inst / TyInst
def decode_inst(thname, jinst):
    from kernel.term import Inst
    if not isinstance(jinst, dict):
        raise CaseInvalid('inst')
    js = []
    for k in sorted(jinst):
        if not L.legal_name(k, ()):
            raise CaseInvalid('inst key')
        validate(thname, jinst[k])
        js.append(jinst[k])
    seen = {}
    for j in js:
        for tag, nm, T in L.free_atoms(j):
            if (tag, nm) in seen and seen[(tag, nm)] != json.dumps(T):
                raise CaseInvalid('variable at two types in an instantiation')
            seen[(tag, nm)] = json.dumps(T)
    return Inst({k: codec.term_dec(jinst[k]) for k in sorted(jinst)}), js


def compare_inst(inst2, jinst):
    from kernel.term import Inst
    if not isinstance(inst2, Inst):
        return False
    if sorted(inst2.keys()) != sorted(jinst.keys()):
        return False
    if inst2.tyinst or inst2.var_inst or inst2.abs_name_inst:
        return False
    return all(ref.alpha_eq(ref.from_term(inst2[k]), ref.from_jterm(jinst[k])) for k in jinst)


def decode_tyinst(thname, jty):
    from kernel.type import TyInst
    if not isinstance(jty, dict):
        raise CaseInvalid('tyinst')

    def val(T):
        if not isinstance(T, list) or not T:
            raise CaseInvalid('type')
        if T[0] in ('tv', 'stv'):
            if not (len(T) == 2 and isinstance(T[1], str) and L.NAME_RE.match(T[1])):
                raise CaseInvalid('type variable')
            return
        if T[0] != 'tc' or _S[thname]['types'].get(T[1]) != len(T) - 2:
            raise CaseInvalid('type constructor')
        for a in T[2:]:
            val(a)
    for k in jty:
        if not L.legal_name(k, ()):
            raise CaseInvalid('tyinst key')
        val(jty[k])
    return TyInst({k: codec.type_dec(jty[k]) for k in sorted(jty)})


def compare_tyinst(ty2, jty):
    from kernel.type import TyInst
    if not isinstance(ty2, TyInst) or sorted(ty2.keys()) != sorted(jty.keys()):
        return False
    return all(ref.from_type(ty2[k]) == ref.from_jtype(jty[k]) for k in jty)


def inst_feature(thname, jinst, uni):
    if not jinst:
        return 'empty'
    return 'entries=%d' % min(len(jinst), 2)


def inst_roundtrip(thname, kind, jobj, obj, js, uni, hl):
    """Print an Inst / TyInst the way export_proof_item does (print_str_args) and parse it back.
    Returns (text, problem) with problem = None | (signature, detail)."""
    from logic import context
    from syntax import parser, printer
    from syntax.settings import global_setting
    rule = 'substitution' if kind == 'inst' else 'subst_type'
    use_theory(thname)

    def sig(cls):
        if not jobj:
            return 'inst:roundtrip:empty-instantiation-printed-as-empty-string'
        if kind == 'tyinst':
            return 'tyinst:roundtrip:printed-with-str-not-in-grammar'
        return 'inst:%s:entries=%d' % (cls, min(len(jobj), 2))
    try:
        with global_setting(unicode=uni, highlight=hl, line_length=None):
            out = printer.print_str_args(rule, obj, None)
        text, _ = L.flatten(out)
    except (Timeout, RecursionError):
        raise
    except Exception as e:
        return None, (sig('print-raises-' + exc_name(e)), 'print_str_args raises %s: %s' % (exc_name(e), str(e)[:300]))
    vs, svs = context_of(js)
    try:
        with context.fresh_context(vars=vs, svars=svs), _quiet():
            obj2 = parser.parse_inst(text) if kind == 'inst' else parser.parse_tyinst(text)
        ok = compare_inst(obj2, jobj) if kind == 'inst' else compare_tyinst(obj2, jobj)
        if not ok:
            return text, (sig('differs'), 'printed %r; parsed back as %r' % (text, dict(obj2)))
    except (Timeout, RecursionError):
        raise
    except Exception as e:
        return text, (sig('reparse-fails-' + exc_name(e)), 'printed %r; parse raises %s: %s' % (
            text, exc_name(e), str(getattr(e, 'err', e))[:200]))
    return text, None


def check_inst(case, H):
    thname = case.get('theory')
    if thname not in _S:
        raise CaseInvalid('theory')
    uni, hl, _ = settings_of(case)
    kind = case['kind']
    use_theory(thname)
    if kind == 'inst':
        jobj = case.get('inst')
        obj, js = decode_inst(thname, jobj)
    else:
        jobj = case.get('tyinst')
        obj = decode_tyinst(thname, jobj)
        js = []
    kl = [kind, '%s:entries=%d' % (kind, min(len(jobj), 3))] + ([kind + ':unicode'] if uni else []) + ([kind + ':highlight'] if hl else [])
    text = None
    if components_ok(thname, js, uni, case, H):
        text, problem = inst_roundtrip(thname, kind, jobj, obj, js, uni, hl)
        if problem:
            H.violation(problem[0], case, problem[1])
            kl.append('!%s:fails' % kind)
    else:
        kl.append('!%s:component-term-fails' % kind)
    H.case(case, len(jobj) >= 1, kl, key='%s|%s|%s' % (kind, thname, harness.canon(jobj)))


# ---------------------------------------------------------------------------------------- proof items
RULES_BY_SIG = {
    'none': ['implies_elim', 'symmetric', 'sorry'],
    'term': ['assume', 'reflexive', 'implies_intr', 'forall_elim'],
    'terms': ['intros'],
    'str': ['apply_theorem', 'theorem'],
    'inst': ['substitution'],
    'tyinst': ['subst_type'],
    'str,inst': ['apply_theorem_for'],
    'str,term': ['rewrite_goal', 'resolve_theorem'],
    'str,term,term': ['apply_induct'],
    'str,type': ['variable'],
}
THEOREM_NAMES = ['conjI', 'disjE', 'trueI', 'nat_induct']


def args_kind(a):
    if a is None:
        return 'none'
    if not isinstance(a, list) or len(a) != 2 or not isinstance(a[0], str):
        raise CaseInvalid('args')
    if a[0] == 'tuple':
        if not isinstance(a[1], list) or not a[1]:
            raise CaseInvalid('tuple')
        return ','.join(args_kind(x) for x in a[1])
    if a[0] in ('str', 'term', 'terms', 'inst', 'tyinst', 'type'):
        return a[0]
    raise CaseInvalid('args tag')


def args_terms(a, acc):
    if a is None:
        return acc
    if a[0] == 'term':
        acc.append(a[1])
    elif a[0] == 'terms':
        acc.extend(a[1])
    elif a[0] == 'inst':
        acc.extend(a[1][k] for k in sorted(a[1]))
    elif a[0] == 'tuple':
        for x in a[1]:
            args_terms(x, acc)
    return acc


def decode_args(thname, a):
    if a is None:
        return None
    tag = a[0]
    if tag == 'str':
        if not (isinstance(a[1], str) and L.NAME_RE.match(a[1])):
            raise CaseInvalid('str arg')
        return a[1]
    if tag == 'term':
        validate(thname, a[1])
        return codec.term_dec(a[1])
    if tag == 'terms':
        for j in a[1]:
            validate(thname, j)
        return [codec.term_dec(j) for j in a[1]]
    if tag == 'inst':
        return decode_inst(thname, a[1])[0]
    if tag == 'tyinst':
        return decode_tyinst(thname, a[1])
    if tag == 'type':
        decode_tyinst(thname, {'a': a[1]})
        return codec.type_dec(a[1])
    if tag == 'tuple':
        return tuple(decode_args(thname, x) for x in a[1])
    raise CaseInvalid('args')


def compare_args(got, a):
    from kernel.term import Term
    from kernel.type import Type
    if a is None:
        return got is None
    tag = a[0]
    if tag == 'str':
        return got == a[1]
    if tag == 'term':
        return isinstance(got, Term) and ref.alpha_eq(ref.from_term(got), ref.from_jterm(a[1]))
    if tag == 'terms':
        return isinstance(got, (list, tuple)) and len(got) == len(a[1]) and all(
            isinstance(g, Term) and ref.alpha_eq(ref.from_term(g), ref.from_jterm(j)) for g, j in zip(got, a[1]))
    if tag == 'inst':
        return compare_inst(got, a[1])
    if tag == 'tyinst':
        return compare_tyinst(got, a[1])
    if tag == 'type':
        return isinstance(got, Type) and ref.from_type(got) == ref.from_jtype(a[1])
    if tag == 'tuple':
        return isinstance(got, tuple) and len(got) == len(a[1]) and all(compare_args(g, x) for g, x in zip(got, a[1]))
    return False


def check_item(case, H):
    from kernel.proof import ProofItem
    from logic import context
    from syntax import parser, printer
    from syntax.settings import global_setting
    thname = case.get('theory')
    if thname not in _S:
        raise CaseInvalid('theory')
    uni, hl, _ = settings_of(case)
    use_theory(thname)
    jid, rule, jargs, jprevs, jth = case.get('id'), case.get('rule'), case.get('args'), case.get('prevs'), case.get('th')

    def is_id(x):
        return isinstance(x, list) and 1 <= len(x) <= 4 and all(isinstance(i, int) and not isinstance(i, bool) and 0 <= i < 1000 for i in x)
    if not is_id(jid) or not isinstance(jprevs, list) or not all(is_id(p) for p in jprevs):
        raise CaseInvalid('ids')
    kind = args_kind(jargs)
    if rule not in RULES_BY_SIG.get(kind, ()):
        raise CaseInvalid('rule %r does not take arguments of kind %s' % (rule, kind))
    args = decode_args(thname, jargs)
    th = None
    js = args_terms(jargs, [])
    if jth is not None:
        th, js2 = decode_thm(thname, jth)
        js = js + js2
    seen = {}
    for j in js:
        for tag, nm, T in L.free_atoms(j):
            if (tag, nm) in seen and seen[(tag, nm)] != json.dumps(T):
                raise CaseInvalid('variable at two types in a proof item')
            seen[(tag, nm)] = json.dumps(T)
    item = ProofItem(tuple(jid), rule, args=args, prevs=[tuple(p) for p in jprevs], th=th)
    kl = ['item', 'item:args=' + kind, 'item:rule=' + rule] + (['item:unicode'] if uni else []) + (['item:highlight'] if hl else []) + \
         (['item:with-th'] if th is not None else [])

    def feature():
        if kind in ('inst', 'str,inst') and not (jargs[1] if kind == 'inst' else jargs[1][1][1]):
            return 'args=%s:empty' % kind
        return 'args=' + kind
    data = None
    comp_ok = components_ok(thname, js, uni, case, H)
    if not comp_ok:
        kl.append('!item:component-term-fails')
    if comp_ok:
        # an Inst / TyInst argument that fails on its own is reported under ITS signature (one per root cause)
        parts = [jargs] if kind in ('inst', 'tyinst') else (jargs[1] if jargs is not None and jargs[0] == 'tuple' else [])
        for part in parts:
            if part[0] in ('inst', 'tyinst'):
                if part[0] == 'inst':
                    pobj, pjs = decode_inst(thname, part[1])
                else:
                    pobj, pjs = decode_tyinst(thname, part[1]), []
                _, problem = inst_roundtrip(thname, part[0], part[1], pobj, pjs, uni, False)
                if problem is None and hl:
                    _, problem = inst_roundtrip(thname, part[0], part[1], pobj, pjs, uni, True)
                if problem:
                    H.violation(problem[0], case, '(argument of a proof item) ' + problem[1])
                    kl.append('!item:instantiation-argument-fails')
                    comp_ok = False
    try:
        with global_setting(unicode=uni, highlight=hl, line_length=None):
            exported = printer.export_proof_item(item)
        if not (isinstance(exported, list) and len(exported) == 1 and isinstance(exported[0], dict)):
            raise L.BadOutput('export_proof_item returned %r' % (exported,))
        data = exported[0]
        for k in ('id', 'rule', 'args', 'th'):
            if not isinstance(data.get(k), str):
                raise L.BadOutput('field %s of the exported item is %r' % (k, data.get(k)))
    except (Timeout, RecursionError):
        raise
    except Exception as e:
        if comp_ok:
            H.violation('item:export-raises-%s:%s' % (exc_name(e), feature()), case,
                        '%s: %s' % (exc_name(e), str(e)[:300]))
    if data is not None and comp_ok:
        vs, svs = context_of(js)
        try:
            with context.fresh_context(vars=vs, svars=svs), _quiet():
                item2 = parser.parse_proof_rule({k: data[k] for k in ('id', 'rule', 'args', 'prevs', 'th')})
            problems = []
            if tuple(item2.id.id) != tuple(jid):
                problems.append('id')
            if item2.rule != rule:
                problems.append('rule')
            if [tuple(p.id) for p in item2.prevs] != [tuple(p) for p in jprevs]:
                problems.append('prevs')
            if (item2.th is None) != (jth is None) or (jth is not None and not compare_thm(item2.th, jth)):
                problems.append('th')
            if not compare_args(item2.args, jargs):
                problems.append('args')
            if problems:
                H.violation('item:differs-%s:%s' % ('+'.join(problems), feature()), case,
                            'exported %r; parsed back with different %s (args %r)' % (data, problems, item2.args))
        except (Timeout, RecursionError):
            raise
        except Exception as e:
            H.violation('item:reparse-fails-%s:%s' % (exc_name(e), feature()), case,
                        'exported %r; parse_proof_rule raises %s: %s' % (data, exc_name(e), str(getattr(e, 'str', getattr(e, 'err', e)))[:200]))
    key = 'item|%s|%s' % (thname, harness.canon([jid, rule, jargs, jprevs, jth]))
    H.case(case, jargs is not None or jth is not None, kl, key=key)


# ======================================================================================== case interface
def run_case(case, H):
    if not isinstance(case, dict):
        raise CaseInvalid('case')
    k = case.get('kind')
    if k == 'term' and case.get('prefix') and case.get('theory') in _S and getattr(H, 'c07_deferred', None) is None:
        ensure_worker(case['theory'], prefix_theories(case))      # outside the time limit: start-up takes seconds
    try:
        with time_limit(60):
            if k == 'term':
                check_term(case, H)
            elif k == 'type':
                check_type(case, H)
            elif k == 'thm':
                check_thm(case, H)
            elif k in ('inst', 'tyinst'):
                check_inst(case, H)
            elif k == 'item':
                check_item(case, H)
            else:
                raise CaseInvalid('kind')
    except Timeout:
        H.inconc('timeout')
        H.sample('!timeout', case)
    except RecursionError:
        H.inconc('recursion')
    except (KeyError, IndexError, TypeError, AttributeError) as e:
        import traceback
        if getattr(run_case, 'debug', False):
            traceback.print_exc()
        raise CaseInvalid(repr(e))


# ======================================================================================== generation
def settings_strategy(allow_ll=True):
    from hypothesis import strategies as st
    return st.tuples(st.booleans(), st.sampled_from([False, False, True]),
                     st.sampled_from([None, None, None, 20, 40, 80]) if allow_ll else st.just(None))


def rand_term(thname, svars=False, top=None, max_fuel=4):
    """Type-directed random term over the whole signature of the theory (vlib.gen)."""
    from hypothesis import strategies as st
    S = _S[thname]
    opts = gen.Opts(sig=S['consts'], svars=svars, names=S['names'], atom_types=S['atoms'], max_order=1, redex=True)
    tops = top or ([BOOL, BOOL] + S['atoms'])

    @st.composite
    def s(draw):
        T = draw(st.sampled_from(tops))
        if draw(st.integers(0, 5)) == 0 and top is None:
            T = draw(gen.types(opts))
        fuel = draw(st.integers(1, max_fuel))
        j = draw(gen.terms(opts, T, (), fuel))
        return L.fix_names([j], S['names'])[0]
    return s()


def ladder_term(thname, depth_max=4):
    from hypothesis import strategies as st
    S = _S[thname]
    by_res, atoms_by_type, frames = S['frames_by_res'], S['atoms_by_type'], S['frames']
    table_frames = [F for F in frames if F.table]

    @st.composite
    def s(draw):
        def leaf(T):
            af = atoms_by_type.get(json.dumps(T), [])
            i = draw(st.integers(0, len(af) + 1))
            if i >= len(af):
                return L.atom(T, draw(st.integers(0, 2)))
            return af[i][3]

        def build(T, d):
            cands = by_res.get(json.dumps(T), [])
            if d <= 0 or not cands or draw(st.integers(0, 6)) == 0:
                return leaf(T)
            tab = [F for F in cands if F.table]
            F = draw(st.sampled_from(tab)) if tab and draw(st.integers(0, 2)) > 0 else draw(st.sampled_from(cands))
            return fill(F, d)

        def fill(F, d):
            main = draw(st.integers(0, len(F.holes) - 1))
            args = []
            for i, HT in enumerate(F.holes):
                if i == main or draw(st.integers(0, 3)) == 0:
                    args.append(build(HT, d - 1))
                else:
                    args.append(leaf(HT) if draw(st.integers(0, 3)) == 0 else L.atom(HT, draw(st.integers(0, 2))))
            return F.build(args)
        d = draw(st.integers(2, depth_max))
        F = draw(st.sampled_from(table_frames)) if draw(st.integers(0, 3)) > 0 else draw(st.sampled_from(frames))
        return fill(F, d)
    return s()


def enum_pairs(thname):
    """Every outer frame with every compatible inner frame / atomic filler in every argument position."""
    S = _S[thname]
    by_res, atoms_by_type = S['frames_by_res'], S['atoms_by_type']

    def special(x):
        # the string theory repeats the logic/nat/list operators of interval_arith: keep what involves chars/strings
        return thname != 'string' or 'char' in x or 'string' in x or 'Char' in x or 'String' in x
    for F in S['frames']:
        fs = special(json.dumps([F.holes, F.res]))
        for pos, HT in enumerate(F.holes):
            key = json.dumps(HT)
            for G in by_res.get(key, []):
                if fs or special(json.dumps([G.holes, G.res])):
                    yield F, pos, G.label, G.cls, G.plain()
            for (label, cls, T, term) in atoms_by_type.get(key, []):
                if fs or special(json.dumps(term)):
                    yield F, pos, label, cls, term


def type_strategy(thname, stvars=True):
    from hypothesis import strategies as st
    arity = _S[thname]['types']
    atoms = [["tc", n] for n, k in sorted(arity.items()) if k == 0] + [A, B] + ([["stv", "a"], ["stv", "b"]] if stvars else [])
    ctors = [(n, k) for n, k in sorted(arity.items()) if k >= 1]

    def ext(children):
        alts = []
        for n, k in ctors:
            alts.append(st.tuples(*([children] * k)).map(lambda args, n=n: ["tc", n] + list(args)))
            if n == 'fun':
                alts.append(st.tuples(children, children).map(lambda args: ["tc", "fun"] + list(args)))
        return st.one_of(*alts)
    return st.recursive(st.sampled_from(atoms), ext, max_leaves=8)


def thm_strategy(thname):
    from hypothesis import strategies as st
    S = _S[thname]

    @st.composite
    def s(draw):
        n = draw(st.sampled_from([0, 1, 1, 2, 3]))
        src = rand_term(thname, svars=draw(st.integers(0, 3)) == 0, top=[BOOL], max_fuel=3)
        lad = ladder_bool(thname) if thname in LADDER_THEORIES else src
        js = [draw(lad if draw(st.booleans()) else src) for _ in range(n + 1)]
        js = L.fix_names(js, S['names'])
        return {'hyps': js[:-1], 'prop': js[-1]}
    return s()


def ladder_bool(thname):
    """Ladder terms of type bool (retry-free: start from a frame whose result is bool)."""
    from hypothesis import strategies as st
    S = _S[thname]
    cands = S['frames_by_res'][json.dumps(BOOL)]
    by_res, atoms_by_type = S['frames_by_res'], S['atoms_by_type']

    @st.composite
    def s(draw):
        def build(T, d):
            c = by_res.get(json.dumps(T), [])
            if d <= 0 or not c or draw(st.integers(0, 4)) == 0:
                af = atoms_by_type.get(json.dumps(T), [])
                i = draw(st.integers(0, len(af) + 1))
                return L.atom(T, draw(st.integers(0, 2))) if i >= len(af) else af[i][3]
            F = draw(st.sampled_from(c))
            return F.build([build(HT, d - 1) for HT in F.holes])
        F = draw(st.sampled_from(cands))
        d = draw(st.integers(1, 3))
        return F.build([build(HT, d - 1) for HT in F.holes])
    return s()


def inst_strategy(thname):
    from hypothesis import strategies as st
    S = _S[thname]

    @st.composite
    def s(draw):
        keys = draw(st.lists(st.sampled_from(['x', 'y', 'A', 'B', 'f', 'P', 'n']), min_size=0, max_size=3, unique=True))
        src = rand_term(thname, max_fuel=3)
        js = L.fix_names([draw(src) for _ in keys], S['names'])
        return dict(zip(keys, js))
    return s()


def tyinst_strategy(thname):
    from hypothesis import strategies as st
    return st.dictionaries(st.sampled_from(['a', 'b', 'c']), type_strategy(thname), min_size=0, max_size=3)


def item_strategy(thname):
    from hypothesis import strategies as st
    S = _S[thname]
    ids = st.lists(st.integers(0, 30), min_size=1, max_size=3)

    @st.composite
    def s(draw):
        kind = draw(st.sampled_from(sorted(RULES_BY_SIG)))
        rule = draw(st.sampled_from(RULES_BY_SIG[kind]))
        src = rand_term(thname, svars=draw(st.integers(0, 4)) == 0, max_fuel=3)
        srcb = rand_term(thname, top=[BOOL], max_fuel=3)
        name = draw(st.sampled_from(THEOREM_NAMES))
        terms = []

        def term(b=False):
            terms.append(draw(srcb if b else src))
            return len(terms) - 1
        if kind == 'none':
            a = None
        elif kind == 'term':
            a = ['term', term(rule in ('assume', 'implies_intr'))]
        elif kind == 'terms':
            a = ['terms', [term() for _ in range(draw(st.integers(0, 3)))]]
        elif kind == 'str':
            a = ['str', name]
        elif kind == 'inst':
            a = ['inst', {k: term() for k in draw(st.lists(st.sampled_from(['x', 'y', 'A', 'f']), max_size=3, unique=True))}]
        elif kind == 'tyinst':
            a = ['tyinst', draw(tyinst_strategy(thname))]
        elif kind == 'str,inst':
            a = ['tuple', [['str', name], ['inst', {k: term() for k in draw(st.lists(st.sampled_from(['x', 'A', 'B']), max_size=2, unique=True))}]]]
        elif kind == 'str,term':
            a = ['tuple', [['str', name], ['term', term(True)]]]
        elif kind == 'str,term,term':
            a = ['tuple', [['str', name], ['term', term()], ['term', term()]]]
        elif kind == 'str,type':
            a = ['tuple', [['str', draw(st.sampled_from(S['names']))], ['type', draw(type_strategy(thname, stvars=False))]]]
        with_th = rule == 'sorry' or draw(st.integers(0, 2)) == 0
        nh = 0
        if with_th:
            nh = draw(st.integers(0, 2))
            for _ in range(nh + 1):
                term(True)
        fixed = L.fix_names(terms, S['names']) if terms else []

        def sub(a):
            if a is None:
                return None
            if a[0] == 'term':
                return ['term', fixed[a[1]]]
            if a[0] == 'terms':
                return ['terms', [fixed[i] for i in a[1]]]
            if a[0] == 'inst':
                return ['inst', {k: fixed[i] for k, i in a[1].items()}]
            if a[0] == 'tuple':
                return ['tuple', [sub(x) for x in a[1]]]
            return a
        th = None
        if with_th:
            tail = fixed[len(fixed) - nh - 1:]
            th = {'hyps': tail[:-1], 'prop': tail[-1]}
        uni, hl, _ = draw(settings_strategy(False))
        return {'kind': 'item', 'theory': thname, 'id': draw(ids), 'rule': rule, 'args': sub(a),
                'prevs': draw(st.lists(ids, max_size=3)), 'th': th, 'unicode': uni, 'highlight': hl}
    return s()


def hist_strategy(thname):
    """A term case with a pollution prefix, compared with a fresh process."""
    from hypothesis import strategies as st
    S = _S[thname]
    base = st.one_of(rand_term(thname, max_fuel=4), binder_rich(thname))

    @st.composite
    def s(draw):
        j = draw(base)
        uni, hl, ll = draw(settings_strategy())
        prefix = []
        nb = len(L.binder_names(j))
        for _ in range(draw(st.integers(1, 4))):
            kind = draw(st.sampled_from(['alpha', 'alpha', 'alpha', 'theory', 'settings', 'share', 'other']))
            puni = uni if draw(st.integers(0, 3)) > 0 else (not uni)
            if kind == 'alpha' and nb:
                names = draw(st.lists(st.sampled_from(S['names']), min_size=1, max_size=4))
                # rename all binders, or only some of them (e.g. only the nested ones)
                mask = draw(st.sampled_from([None, [False, True], [False, True, True, True], [True, False]]))
                if mask is None and draw(st.booleans()):
                    mask = draw(st.lists(st.booleans(), min_size=max(nb, 1), max_size=max(nb, 1)))
                prefix.append({'op': 'print', 't': L.rename_binders(j, names, mask), 'theory': thname, 'unicode': puni})
            elif kind == 'theory' and SUPERSETS.get(thname):
                prefix.append({'op': 'print', 't': j, 'theory': draw(st.sampled_from(SUPERSETS[thname])), 'unicode': puni})
            elif kind == 'settings':
                prefix.append({'op': 'print', 't': j, 'theory': thname, 'unicode': not uni, 'highlight': not hl,
                               'line_length': draw(st.sampled_from([None, 20, 80]))})
            elif kind == 'share':
                prefix.append({'op': 'share', 'how': draw(st.sampled_from(['eq', 'sub', 'lam', 'thm'])), 'unicode': puni})
            else:
                prefix.append({'op': 'print', 't': draw(rand_term(thname, max_fuel=2)), 'theory': thname, 'unicode': puni})
        return {'kind': 'term', 'theory': thname, 't': j, 'unicode': uni, 'highlight': hl, 'line_length': ll,
                'prefix': prefix, 'fresh': draw(st.sampled_from([True] + [False] * 19))}
    return s()


def binder_rich(thname):
    """Terms with several nested binders (all binder constants of the theory, lambda, collect when present)."""
    from hypothesis import strategies as st
    S = _S[thname]
    have = S['declared']
    atoms = [T for T in S['atoms'] if T != BOOL] or [A]
    kinds = [k for k in ('all', 'exists', 'exists1') if k in have]

    @st.composite
    def s(draw):
        n = draw(st.integers(2, 4))
        tys = [draw(st.sampled_from(atoms)) for _ in range(n)]
        names = [draw(st.sampled_from(S['names'])) for _ in range(n)]
        # body: a predicate variable applied to all bound variables, or an equation between two of them
        P = L.V('P', fun(*(tys + [BOOL])))
        body = L.app(P, *[["b", n - 1 - i] for i in range(n)])
        if draw(st.booleans()):
            fv = L.V(draw(st.sampled_from(S['names'])), tys[-1])
            if fv[1] != 'P':
                body = L.app(L.C('conj', fun(BOOL, BOOL, BOOL)), body, L.app(L.C('equals', fun(tys[-1], tys[-1], BOOL)), ["b", 0], fv))
        t = body
        for i in reversed(range(n)):
            k = draw(st.sampled_from(kinds))
            t = L.app(L.C(k, fun(fun(tys[i], BOOL), BOOL)), ["abs", names[i], tys[i], t])
        return L.fix_names([t], S['names'])[0]
    return s()


# ======================================================================================== shards
def shards(tier):
    quick = tier == 'quick'
    mul = 1 if quick else 10
    out = []
    # (e) history first: these shards mostly wait for their fresh-process service
    for th in THEORIES:
        out.append({'kind': 'hist', 'theory': th, 'n': (60 if quick else 800), 'i': 0})
    # (d) other syntactic categories
    for kind, n, k in (('item', 1000, 4), ('thm', 800, 3), ('type', 700, 2), ('inst', 300, 2), ('tyinst', 200, 1)):
        for i, c in enumerate(harness.split(n * mul, k if quick else 3 * k)):
            out.append({'kind': kind, 'n': c, 'i': i})
    # (a) enumerated ladder pairs
    for th in LADDER_THEORIES:
        p = (12 if quick else 24) if th == 'interval_arith' else (4 if quick else 8)
        for i in range(p):
            out.append({'kind': 'pairs', 'theory': th, 'part': i, 'parts': p})
    # (a') random deeper ladders
    for th, n, k in (('interval_arith', 2100, 6), ('string', 400, 1)):
        for i, c in enumerate(harness.split(n * mul, k * (2 if not quick else 1))):
            out.append({'kind': 'ladder', 'theory': th, 'n': c, 'i': i})
    # (b) random terms per theory
    for th in THEORIES:
        n = 800 if th in ('real', 'set', 'list') else 560
        for i, c in enumerate(harness.split(n * mul, 2 if quick else 6)):
            out.append({'kind': 'rand', 'theory': th, 'n': c, 'i': i})
    # (c) the statements of the library itself (what real callers print and parse)
    for th in THEORIES:
        out.append({'kind': 'library', 'theory': th})
    return out


def run_shard(desc, seed, tier, H):
    from hypothesis import strategies as st
    import gc
    gc.freeze()
    kind = desc['kind']

    def body(case):
        try:
            run_case(case, H)
        except CaseInvalid as e:
            H.note('generated-out-of-domain:' + case.get('kind', '?'))
            if getattr(run_case, 'debug', False):
                print('INVALID', e, harness.canon(case)[:300])

    if kind == 'pairs':
        th = desc['theory']
        seen = set()
        idx = cnt = 0
        for F, pos, glabel, gcls, filler in enum_pairs(th):
            idx += 1
            if idx % desc['parts'] != desc['part']:
                continue
            j = F.with_hole(pos, filler)
            k = harness.canon(j)
            if k in seen:
                continue
            seen.add(k)
            cnt += 1
            for uni in ((False, True) if (tier != 'quick' or cnt % 3 == 0) else (False,)):
                case = {'kind': 'term', 'theory': th, 't': j, 'unicode': uni, 'highlight': False, 'line_length': None}
                body(case)
            H.classes['pair:outer=%s' % F.cls] += 1
            H.classes['pair:inner=%s' % gcls] += 1
        H.mark_exhaustive('ladder pairs over theory %s (part of %d)' % (th, desc['parts']))
    elif kind == 'library':
        from logic import basic
        th = desc['theory']
        combos = [(True, False, 80), (False, False, None)]
        if tier != 'quick':
            combos = [(u, h, l) for u in (False, True) for h in (False, True) for l in (None, 20, 40, 80)]
        n = 0
        for item in basic.theory_cache['master'][th]['content']:
            if getattr(item, 'error', None) is not None or item.ty not in ('thm', 'thm.ax'):
                continue
            try:
                j = codec.term_enc(item.prop)
            except Exception:
                H.note('library-item-not-encodable')
                continue
            n += 1
            if tier == 'quick' and th == 'set' and n % 2:
                continue
            for (u, h, l) in combos:
                body({'kind': 'term', 'theory': th, 't': j, 'unicode': u, 'highlight': h, 'line_length': l})
        H.classes['library:statements:' + th] += n
    elif kind == 'ladder':
        strat = st.tuples(ladder_term(desc['theory']), settings_strategy()).map(
            lambda p: {'kind': 'term', 'theory': desc['theory'], 't': p[0], 'unicode': p[1][0], 'highlight': p[1][1],
                       'line_length': p[1][2]})
        harness.hyp_run(strat, body, desc['n'], seed)
    elif kind == 'rand':
        th = desc['theory']
        strat = st.tuples(rand_term(th, svars=desc['i'] % 2 == 1), settings_strategy()).map(
            lambda p: {'kind': 'term', 'theory': th, 't': p[0], 'unicode': p[1][0], 'highlight': p[1][1], 'line_length': p[1][2]})
        harness.hyp_run(strat, body, desc['n'], seed)
    elif kind == 'type':
        strat = st.sampled_from(THEORIES).flatmap(lambda th: st.tuples(type_strategy(th), st.booleans(), st.booleans()).map(
            lambda p: {'kind': 'type', 'theory': th, 'T': p[0], 'unicode': p[1], 'highlight': p[2]}))
        harness.hyp_run(strat, body, desc['n'], seed)
    elif kind == 'thm':
        def mk(th):
            return st.tuples(thm_strategy(th), settings_strategy(False), st.sampled_from([None] * 39 + [40])).map(
                lambda p: {'kind': 'thm', 'theory': th, 'hyps': p[0]['hyps'], 'prop': p[0]['prop'], 'unicode': p[1][0],
                           'highlight': p[1][1], 'line_length': p[2]})
        harness.hyp_run(st.sampled_from(THEORIES).flatmap(mk), body, desc['n'], seed)
    elif kind == 'inst':
        def mk(th):
            return st.tuples(inst_strategy(th), st.booleans(), st.sampled_from([False, False, True])).map(
                lambda p: {'kind': 'inst', 'theory': th, 'inst': p[0], 'unicode': p[1], 'highlight': p[2]})
        harness.hyp_run(st.sampled_from(THEORIES).flatmap(mk), body, desc['n'], seed)
    elif kind == 'tyinst':
        def mk(th):
            return st.tuples(tyinst_strategy(th), st.booleans(), st.sampled_from([False, False, True])).map(
                lambda p: {'kind': 'tyinst', 'theory': th, 'tyinst': p[0], 'unicode': p[1], 'highlight': p[2]})
        harness.hyp_run(st.sampled_from(THEORIES).flatmap(mk), body, desc['n'], seed)
    elif kind == 'item':
        harness.hyp_run(st.sampled_from(THEORIES).flatmap(item_strategy), body, desc['n'], seed)
    elif kind == 'hist':
        th = desc['theory']
        H.c07_deferred = []
        try:
            harness.hyp_run(hist_strategy(th), body, desc['n'], seed)
            pending, H.c07_deferred = H.c07_deferred, None
            if pending:
                try:
                    extra = sorted(set(x for p in pending for x in prefix_theories(p[0])))
                    answers = get_worker(th, extra).ask_many([q for p in pending for q in p[1]])
                except Exception:
                    answers = None
                    for _ in pending:
                        H.inconc('fresh-worker-failed')
                if answers is not None:
                    for i, (case, reqs, text, status, _) in enumerate(pending):
                        if compare_with_fresh(case, text, status, answers[2 * i], answers[2 * i + 1], H):
                            H.classes['!hist:text-differs'] += 1
        finally:
            H.c07_deferred = None
            _close_workers()
    else:
        raise ValueError(kind)
