"""C18 - each accepted veriT (Alethe) proof step is a logical consequence of its premises.

Case (JSON):
  {"rule": "verit_and_pos",            registered macro name (what validate_step looks up)
   "args": [term, ...],                the step clause `cl` (terms in the IR of vlib/c18_lib.py)
   "prevs": [{"hyps": [term...], "prop": term}, ...],   premises exactly as validate_step assembles them
   "ctx": {name: term} | null,         anchor context (refl, bind, onepoint, sko_*)
   "sizes": [int...]                   clause sizes (th_resolution)
   "coeffs": [term...]                 Farkas coefficients (la_generic)
   "inst": [[name, term]...]           instantiation (forall_inst)
   "mut": "none" | <mutation kind>}    label only (statistics / signature); never used by the oracle
"""
import contextlib
import io
import json
import os
import sys
import types
from fractions import Fraction

from vlib import harness
from vlib.harness import CaseInvalid, SelfTestError, time_limit, Timeout
from vlib import c18_lib as L
from vlib.c18_lib import AND, OR, NOT, SUM, NUM, ty, Unsupported

ID = 'C18'
RULE = ("One shard per registered verit_* macro (85, enumerated from kernel.theory.global_macros, so an unknown rule shows "
        "up as not claimed). Correct instances come from per-rule templates written from the Alethe rule definitions "
        "over drawn atoms (boolean variables, equalities / predicates over uninterpreted terms, linear atoms over int "
        "and real, small compound formulas); each case is the deterministic expansion of one Hypothesis-drawn integer. "
        "Near misses are derived mechanically from a correct instance by ONE mutation: clause literal dropped / added / "
        "negated / double-negated / duplicated / swapped; premise dropped / duplicated / swapped / added / replaced; a "
        "sub-term negated, un-negated (negation replaced by another operator with the same last argument), its "
        "connective swapped (and/or/imp/iff/xor, </<=/>/>=, +/-/*, forall/exists), replaced by another term of the same "
        "type (once or everywhere), shortened, lengthened, operands swapped, a numeral perturbed; clause sizes, Farkas "
        "coefficients, context or instantiation perturbed (for la_generic a literal perturbation may be combined with a "
        "coefficient perturbation). macro.eval(args, prevs) is called exactly as ProofReconstruction.validate_step "
        "does in eval mode. If it returns a theorem H |- C: (a) H must be contained in the premise hypotheses (plus "
        "context equations for contextual rules); (b) 'every model of all premise sequents satisfies H ==> C' is "
        "decided by an independent encoding (truth table for propositional problems, otherwise own z3 encoding of "
        "bool/EUF/LIA/LRA/quantifiers, bounded by rlimit) and a z3 counter-model only counts after re-evaluation of "
        "premises and conclusion by the module's own evaluator; when the conclusion only fails because premise "
        "hypotheses were dropped the signature is <rule>:drops-hypotheses. Three extra shards run generated "
        "refutations (assume + or/and/not_and/implies + resolution tree ending in the empty clause, and one-step "
        "mutations of them) through ProofReconstruction.validate(is_eval=True): an accepted proof must end in a clause "
        "entailed by the assumed formulas. Non-trivial = accepted instance (distinct by canonical JSON). Notes give "
        "per rule: accepted-correct, rejected-correct, accepted-nm-valid, accepted-nm-INVALID, "
        "accepted-INVALID-correct, rejected-nm, accepted-unjudged; 'not-claimed/<rule>' marks rules without any "
        "accepted instance.")
ASSUMPTIONS = [
    "instances are generated (no veriT binary / proof corpus offline); rules tied to solver-specific normal forms may "
    "have no accepted instance and are then listed under notes 'not-claimed/<rule>' (imp_conj, imp_disj, round_lia "
    "have no eval method at all)",
    "free variables are read as constants (one valuation for premises and conclusion); for bind the premise is "
    "universally closed over the context variables; for onepoint the goal must be valid on its own (eval ignores "
    "the premise)",
    "sko_ex, sko_forall and let need Hilbert-choice / let terms the oracle does not decide: exercised, but an accepted "
    "instance is only counted (accepted-unjudged), never judged",
    "division by zero and quantifiers over int/real make a counter-model non-evaluable: inconclusive",
    "conj_pts, disj_pts, norm_lia, norm_lra are helper macros, but a proof file can name them as a rule "
    "(validate_step prefixes 'verit_' to any rule name), so they are exercised like rules",
    "rejections (exceptions) and completeness are never flagged",
]
SHRINK_SECONDS = 8
SHRINK_BUDGET = 120

REPO = os.environ.get('VERIF_REPO', '/repo')
theory = None
_macros = {}
CTX_RULES = ('verit_refl', 'verit_bind', 'verit_sko_ex', 'verit_sko_forall', 'verit_onepoint')
UNDECIDED_RULES = ('verit_sko_ex', 'verit_sko_forall', 'verit_let')


# =================================================================================================== setup
def setup():
    global theory
    if 'smt' not in sys.modules or not hasattr(sys.modules['smt'], '__path__') or \
            REPO + '/smt' not in list(sys.modules['smt'].__path__):
        m = types.ModuleType('smt')
        m.__path__ = [REPO + '/smt']
        sys.modules['smt'] = m
    import warnings
    with warnings.catch_warnings():
        warnings.simplefilter('ignore')
        from smt.veriT import verit_macro, la_generic, proof_rec  # noqa: F401  (registers the macros)
    from kernel import theory as _theory
    from logic import basic
    basic.load_theory('verit')
    theory = _theory
    for name in sorted(_theory.global_macros):
        if name.startswith('verit_'):
            _macros[name] = _theory.global_macros[name]
    if len(_macros) < 60:
        raise SelfTestError('only %d verit_* macros registered' % len(_macros))
    L.Holpy.load()
    self_test()


def self_test():
    p, q, h = ['v', 'p', 'bool'], ['v', 'q', 'bool'], ['v', 'h', 'bool']
    a, b = ['v', 'a', 'U'], ['v', 'b', 'U']
    f = ['v', 'f', ['fn', 'U', 'U']]
    x, y = ['v', 'x', 'int'], ['v', 'y', 'int']
    r, s = ['v', 'r', 'real'], ['v', 's', 'real']
    # IR <-> holpy round trip
    samples = [AND([p, q, NOT(p)]), ['eq', ['ap', f, a], b], ['<', ['+', x, NUM('int', -3)], ['*', NUM('int', 2), y]],
               ['<=', ['/', r, NUM('real', 2)], NUM('real', Fraction(-3, 2))],
               ['forall', 'u', 'U', ['eq', ['ap', f, ['v', 'u', 'U']], a]], ['ite', p, q, ['xor', p, q]],
               ['distinct', a, b, ['ap', f, a]], ['eq', ['ite', p, x, y], ['neg', x]]]
    for t in samples:
        if L.enc(L.dec(t)) != t:
            raise SelfTestError('IR round trip failed on %s' % L.show(t))
    # oracle: known valid / invalid
    good = [([([], ['imp', p, q]), ([], p)], ([], q)),
            ([([h], ['eq', a, b])], ([h], ['eq', ['ap', f, a], ['ap', f, b]])),
            ([([], ['<', x, y])], ([], ['<=', ['+', x, NUM('int', 1)], y])),
            ([([], ['forall', 'u', 'U', ['eq', ['ap', f, ['v', 'u', 'U']], a]])], ([], ['eq', ['ap', f, b], a]))]
    bad = [([([], ['imp', p, q])], ([], q)),
           ([([h], ['eq', a, b])], ([], ['eq', ['ap', f, a], ['ap', f, b]])),
           ([([], ['<', r, s])], ([], ['<=', ['+', r, NUM('real', 1)], s])),
           ([], ([], ['forall', 'u', 'U', ['eq', ['ap', f, ['v', 'u', 'U']], a]]))]
    for pr, c in good:
        v, info = L.entails(pr, c)
        if v != 'valid':
            raise SelfTestError('oracle: valid entailment judged %s (%s)' % (v, info))
    for pr, c in bad:
        v, info = L.entails(pr, c)
        if v != 'invalid':
            raise SelfTestError('oracle: invalid entailment judged %s (%s)' % (v, info))
    # the evaluator refuses a bogus counter-model
    if L.counter_model_holds([([], p)], ([], p), {'vars': {('p', 'bool'): True}, 'univ': {}}):
        raise SelfTestError('counter_model_holds accepts a non-counter-model')
    # every template: a canonical correct instance must be a semantic consequence (template sanity), and the
    # driver must classify a known-good and a known-bad step correctly
    Hs = harness.Ctx(ID)
    for name in sorted(TEMPLATES):
        if name not in _macros:
            continue
        for k in range(3):
            case = build_case(name, SeqDraw(17 + 31 * k), mutate=False)
            st = template_status(case)
            if st == 'invalid':
                raise SelfTestError('template %s produces a non-consequence: %s' % (name, json.dumps(case)))
    ok_case = {'rule': 'verit_and_pos', 'args': [NOT(AND([p, q])), q], 'prevs': [], 'mut': 'none'}
    run_case(ok_case, Hs)
    if Hs.violations or Hs.notes.get('rule/verit_and_pos/accepted-correct') != 1:
        raise SelfTestError('driver self-test: and_pos good instance not accepted cleanly: %s' % Hs.violations)
    bad_case = {'rule': 'verit_not_and', 'args': [NOT(p)], 'prevs': [{'hyps': [], 'prop': NOT(AND([p, q]))}],
                'mut': 'cl-drop'}
    # (this one is a known defect of the unchanged tree; only the classification machinery is exercised)
    Hs2 = harness.Ctx(ID)
    run_case(bad_case, Hs2)
    if Hs2.evaluations != 1:
        raise SelfTestError('driver self-test: case not recorded')


# =================================================================================================== drawing
class SeqDraw:
    """Deterministic expansion of ONE integer (drawn by Hypothesis, or fixed in self-tests) into the stream of
    small choices a template needs (splitmix64).  Keeps the per-case Hypothesis overhead at a single draw."""
    MASK = (1 << 64) - 1

    def __init__(self, seed):
        self.s = (seed * 0x9E3779B97F4A7C15 + 0x1234567) & self.MASK

    def i(self, a, b):
        self.s = (self.s + 0x9E3779B97F4A7C15) & self.MASK
        z = self.s
        z = ((z ^ (z >> 30)) * 0xBF58476D1CE4E5B9) & self.MASK
        z = ((z ^ (z >> 27)) * 0x94D049BB133111EB) & self.MASK
        z ^= z >> 31
        return a + z % (b - a + 1)


BV = [['v', 'p%d' % i, 'bool'] for i in range(8)]
UV = [['v', n, 'U'] for n in ('a', 'b', 'c', 'd')]
FU1 = ['v', 'f', ['fn', 'U', 'U']]
FU2 = ['v', 'g', ['fn', 'U', 'U', 'U']]
PU1 = ['v', 'P', ['fn', 'U', 'bool']]
PU2 = ['v', 'Q', ['fn', 'U', 'U', 'bool']]
FU3 = ['v', 'g3', ['fn', 'U', 'U', 'U', 'U']]
PU3 = ['v', 'R', ['fn', 'U', 'U', 'U', 'bool']]
IV = [['v', n, 'int'] for n in ('x', 'y', 'z')]
RV = [['v', n, 'real'] for n in ('u', 'v', 'w')]
FI1 = ['v', 'fi', ['fn', 'int', 'int']]


class G:
    """Generation context of one case."""

    def __init__(self, D, flavour=None):
        self.D = D
        self.fl = flavour or self.pick(['prop', 'prop', 'prop', 'euf', 'euf', 'lia', 'lra', 'mix'])

    def i(self, a, b):
        return self.D.i(a, b)

    def pick(self, xs):
        return xs[self.D.i(0, len(xs) - 1)]

    def coin(self, num=1, den=2):
        return self.D.i(1, den) <= num

    def shuffle(self, xs):
        xs = list(xs)
        for k in range(len(xs) - 1, 0, -1):
            j = self.i(0, k)
            xs[k], xs[j] = xs[j], xs[k]
        return xs

    # ---- terms
    def uterm(self, depth=1):
        if depth <= 0 or self.coin(3, 5):
            return self.pick(UV)
        if self.coin():
            return ['ap', FU1, self.uterm(depth - 1)]
        return ['ap', FU2, self.uterm(depth - 1), self.uterm(depth - 1)]

    def aterm(self, T, depth=1):
        """small linear arithmetic term"""
        V = IV if T == 'int' else RV
        k = self.i(0, 9)
        if depth <= 0 or k <= 3:
            return self.pick(V)
        if k == 4:
            return self.num(T)
        if k == 5:
            return ['*', self.num(T, nonzero=True), self.pick(V)]
        if k == 6:
            return ['+', self.aterm(T, depth - 1), self.aterm(T, depth - 1)]
        if k == 7:
            return ['-', self.aterm(T, depth - 1), self.aterm(T, depth - 1)]
        if k == 8:
            return ['neg', self.pick(V)]
        return ['+', self.pick(V), self.num(T)]

    def num(self, T, nonzero=False, lo=-4, hi=6):
        while True:
            n = self.i(lo, hi)
            if T == 'real' and self.coin(1, 4):
                q = Fraction(n, self.pick([2, 3, 4]))
            else:
                q = Fraction(n)
            if q != 0 or not nonzero:
                return NUM(T, q)

    def term(self, T=None):
        T = T or self.pick(['U', 'int', 'real'] if self.fl == 'mix' else
                           {'prop': ['U'], 'euf': ['U'], 'lia': ['int'], 'lra': ['real']}[self.fl])
        return self.uterm(1) if T == 'U' else self.aterm(T, 1)

    def atom(self):
        fl = self.fl
        if fl == 'mix':
            fl = self.pick(['prop', 'euf', 'lia', 'lra'])
        if fl == 'prop' or self.coin(1, 4):
            return self.pick(BV)
        if fl == 'euf':
            k = self.i(0, 3)
            if k <= 1:
                return ['eq', self.uterm(1), self.uterm(1)]
            if k == 2:
                return ['ap', PU1, self.uterm(1)]
            return ['ap', PU2, self.uterm(0), self.uterm(1)]
        T = 'int' if fl == 'lia' else 'real'
        op = self.pick(['<', '<=', '<', '<=', 'eq', '>', '>='])
        return [op, self.aterm(T, 1), self.aterm(T, 1)]

    def form(self, depth=1):
        k = self.i(0, 11)
        if depth <= 0 or k <= 6:
            return self.atom()
        if k == 7:
            return NOT(self.atom())
        if k == 8:
            return ['and', self.form(depth - 1), self.form(depth - 1)]
        if k == 9:
            return ['or', self.form(depth - 1), self.form(depth - 1)]
        if k == 10:
            return ['imp', self.atom(), self.atom()]
        return ['eq', self.atom(), self.atom()]

    def forms(self, n, gen=None):
        """n syntactically distinct formulas"""
        gen = gen or self.form
        out = []
        tries = 0
        while len(out) < n:
            f = gen()
            tries += 1
            if f not in out or tries > 40:
                if f in out:
                    f = ['v', 'q%d' % len(out), 'bool']
                out.append(f)
        return out

    def atoms(self, n):
        return self.forms(n, self.atom)


# =================================================================================================== templates
TEMPLATES = {}


def template(*names):
    def deco(fn):
        for n in names:
            TEMPLATES[n] = fn
        return fn
    return deco


def prem(prop, hyps=None):
    d = {'prop': prop}
    if hyps is not None:
        d['hyps'] = hyps
    return d


@template('verit_false')
def t_false(g):
    return dict(args=[NOT(['false'])])


@template('verit_not_not')
def t_not_not(g):
    p = g.form()
    return dict(args=[NOT(NOT(NOT(p))), p])


@template('verit_and_pos')
def t_and_pos(g):
    n = g.i(1, 4)
    ps = g.forms(n)
    if n >= 2 and g.coin(1, 5):
        return dict(args=[NOT(AND(ps)), AND(ps[g.i(0, n - 2):])])
    return dict(args=[NOT(AND(ps)), ps[g.i(0, n - 1)]])


@template('verit_and_neg')
def t_and_neg(g):
    ps = g.forms(g.i(1, 4))
    return dict(args=[AND(ps)] + [NOT(p) for p in ps])


@template('verit_or_pos')
def t_or_pos(g):
    ps = g.forms(g.i(1, 4))
    return dict(args=[NOT(OR(ps))] + ps)


@template('verit_or_neg')
def t_or_neg(g):
    n = g.i(1, 4)
    ps = g.forms(n)
    return dict(args=[OR(ps), NOT(ps[g.i(0, n - 1)])])


@template('verit_xor_pos1', 'verit_xor_pos2', 'verit_xor_neg1', 'verit_xor_neg2')
def t_xor(g, rule):
    a, b = g.forms(2)
    x = ['xor', a, b]
    return dict(args={'verit_xor_pos1': [NOT(x), a, b], 'verit_xor_pos2': [NOT(x), NOT(a), NOT(b)],
                      'verit_xor_neg1': [x, a, NOT(b)], 'verit_xor_neg2': [x, NOT(a), b]}[rule])


@template('verit_implies_pos', 'verit_implies_neg1', 'verit_implies_neg2')
def t_implies_taut(g, rule):
    a, b = g.forms(2)
    x = ['imp', a, b]
    return dict(args={'verit_implies_pos': [NOT(x), NOT(a), b], 'verit_implies_neg1': [x, a],
                      'verit_implies_neg2': [x, NOT(b)]}[rule])


@template('verit_equiv_pos1', 'verit_equiv_pos2', 'verit_equiv_neg1', 'verit_equiv_neg2')
def t_equiv_taut(g, rule):
    a, b = g.forms(2)
    x = ['eq', a, b]
    return dict(args={'verit_equiv_pos1': [NOT(x), a, NOT(b)], 'verit_equiv_pos2': [NOT(x), NOT(a), b],
                      'verit_equiv_neg1': [x, NOT(a), NOT(b)], 'verit_equiv_neg2': [x, a, b]}[rule])


@template('verit_ite_pos1', 'verit_ite_pos2', 'verit_ite_neg1', 'verit_ite_neg2')
def t_ite_taut(g, rule):
    c, a, b = g.forms(3)
    x = ['ite', c, a, b]
    return dict(args={'verit_ite_pos1': [NOT(x), c, b], 'verit_ite_pos2': [NOT(x), NOT(c), a],
                      'verit_ite_neg1': [x, c, NOT(b)], 'verit_ite_neg2': [x, NOT(c), NOT(a)]}[rule])


@template('verit_and')
def t_and(g):
    n = g.i(1, 4)
    ps = g.forms(n)
    return dict(prevs=[prem(AND(ps))], args=[ps[g.i(0, n - 1)]])


@template('verit_not_or')
def t_not_or(g):
    n = g.i(1, 4)
    ps = g.forms(n)
    return dict(prevs=[prem(NOT(OR(ps)))], args=[NOT(ps[g.i(0, n - 1)])])


@template('verit_or')
def t_or(g):
    ps = g.forms(g.i(1, 4))
    return dict(prevs=[prem(OR(ps))], args=ps)


@template('verit_not_and')
def t_not_and(g):
    ps = g.forms(g.i(1, 4))
    return dict(prevs=[prem(NOT(AND(ps)))], args=[NOT(p) for p in ps])


@template('verit_implies', 'verit_not_implies1', 'verit_not_implies2')
def t_implies(g, rule):
    a, b = g.forms(2)
    x = ['imp', a, b]
    if rule == 'verit_implies':
        return dict(prevs=[prem(x)], args=[NOT(a), b])
    return dict(prevs=[prem(NOT(x))], args=[a] if rule == 'verit_not_implies1' else [NOT(b)])


@template('verit_equiv1', 'verit_equiv2', 'verit_not_equiv1', 'verit_not_equiv2')
def t_equiv(g, rule):
    a, b = g.forms(2)
    x = ['eq', a, b]
    if rule == 'verit_equiv1':
        return dict(prevs=[prem(x)], args=[NOT(a), b])
    if rule == 'verit_equiv2':
        return dict(prevs=[prem(x)], args=[a, NOT(b)])
    if rule == 'verit_not_equiv1':
        return dict(prevs=[prem(NOT(x))], args=[a, b])
    return dict(prevs=[prem(NOT(x))], args=[NOT(a), NOT(b)])


@template('verit_ite1', 'verit_ite2', 'verit_not_ite1', 'verit_not_ite2')
def t_ite(g, rule):
    c, a, b = g.forms(3)
    x = ['ite', c, a, b]
    if rule == 'verit_ite1':
        return dict(prevs=[prem(x)], args=[c, b])
    if rule == 'verit_ite2':
        return dict(prevs=[prem(x)], args=[NOT(c), a])
    if rule == 'verit_not_ite1':
        return dict(prevs=[prem(NOT(x))], args=[c, NOT(b)])
    return dict(prevs=[prem(NOT(x))], args=[NOT(c), NOT(a)])


def lit_forms(g, n):
    """literals: atoms, negated atoms, occasionally a compound that is not a disjunction"""
    out = []
    for a in g.atoms(n):
        k = g.i(0, 9)
        if k <= 4:
            out.append(a)
        elif k <= 8:
            out.append(NOT(a))
        else:
            out.append(['and', a, g.atom()])
    return out


@template('verit_contraction')
def t_contraction(g):
    base = lit_forms(g, g.i(1, 4))
    seq = list(base)
    for _ in range(g.i(0, 3)):
        seq.insert(g.i(0, len(seq)), g.pick(base))
    ded = []
    for x in seq:
        if x not in ded:
            ded.append(x)
    return dict(prevs=[prem(OR(seq))], args=ded)


def compl(l):
    return l[1] if l[0] == 'not' else NOT(l)


@template('verit_th_resolution')
def t_resolution(g):
    k = g.i(2, 4)
    atoms = g.atoms(k - 1 + g.i(0, 4))
    piv = atoms[:k - 1]
    side_atoms = atoms[k - 1:]
    clauses = [[] for _ in range(k)]
    for a in side_atoms:
        l = a if g.coin() else NOT(a)
        for ci in set(g.i(0, k - 1) for _ in range(g.i(1, 2))):
            clauses[ci].append(l)
    for j, a in enumerate(piv):
        l = a if g.coin() else NOT(a)
        if g.coin(1, 6):
            l = NOT(NOT(l)) if l[0] == 'not' else l
        clauses[j].append(l)
        clauses[j + 1].append(NOT(l) if g.coin(5, 6) or l[0] != 'not' else l[1])
    clauses = [g.shuffle(c) for c in clauses]
    res = []
    for c in clauses:
        for l in c:
            core = l
            while core[0] == 'not':
                core = core[1]
            if core not in piv and l not in res:
                res.append(l)
    res = g.shuffle(res)
    return dict(prevs=[prem(OR(c)) for c in clauses], args=res, sizes=[len(c) for c in clauses])


@template('verit_subproof')
def t_subproof(g):
    n = g.i(1, 3)
    fs = g.forms(n + 1)
    assms, c = fs[:n], fs[n]
    glob = [['v', 'h0', 'bool']] if g.coin() else []
    prevs = [prem(a, [a]) for a in assms] + [prem(c, list(assms) + glob)]
    return dict(prevs=prevs, args=[NOT(a) for a in assms] + [c])


# ---- simplification / definitional equivalences -------------------------------------------------
@template('verit_connective_def')
def t_connective_def(g):
    k = g.i(0, 3)
    a, b, c = g.forms(3)
    if k == 0:
        return dict(args=[['eq', ['eq', a, b], ['and', ['imp', a, b], ['imp', b, a]]]])
    if k == 1:
        return dict(args=[['eq', ['ite', c, a, b], ['and', ['imp', c, a], ['imp', NOT(c), b]]]])
    if k == 2:
        return dict(args=[['eq', ['xor', a, b], ['or', ['and', NOT(a), b], ['and', a, NOT(b)]]]])
    body = ['ap', PU1, ['v', 'x1', 'U']]
    return dict(args=[['eq', ['exists', 'x1', 'U', body], NOT(['forall', 'x1', 'U', NOT(body)])]])


@template('verit_and_simplify')
def t_and_simplify(g):
    k = g.i(0, 4)
    ps = g.forms(g.i(1, 3))
    if k == 0:
        return dict(args=[['eq', AND([['true']] * g.i(2, 3)), ['true']]])
    if k == 1:
        xs = list(ps)
        for _ in range(g.i(1, 2)):
            xs.insert(g.i(0, len(xs)), ['true'])
        return dict(args=[['eq', AND(xs), AND(ps)]])
    if k == 2:
        xs = list(ps)
        for _ in range(g.i(1, 2)):
            xs.insert(g.i(0, len(xs)), g.pick(ps))
        return dict(args=[['eq', AND(xs), AND(ps)]])
    if k == 3:
        xs = list(ps)
        xs.insert(g.i(0, len(xs)), ['false'])
        return dict(args=[['eq', AND(xs), ['false']]])
    xs = list(ps)
    xs.insert(g.i(0, len(xs)), NOT(g.pick(ps)))
    return dict(args=[['eq', AND(xs), ['false']]])


@template('verit_or_simplify')
def t_or_simplify(g):
    k = g.i(0, 4)
    ps = g.forms(g.i(1, 3))
    if k == 0:
        return dict(args=[['eq', OR([['false']] * g.i(2, 3)), ['false']]])
    if k == 1:
        xs = list(ps)
        for _ in range(g.i(1, 2)):
            xs.insert(g.i(0, len(xs)), ['false'])
        return dict(args=[['eq', OR(xs), OR(ps)]])
    if k == 2:
        xs = list(ps)
        for _ in range(g.i(1, 2)):
            xs.insert(g.i(0, len(xs)), g.pick(ps))
        return dict(args=[['eq', OR(xs), OR(ps)]])
    if k == 3:
        xs = list(ps)
        xs.insert(g.i(0, len(xs)), ['true'])
        return dict(args=[['eq', OR(xs), ['true']]])
    xs = list(ps)
    xs.insert(g.i(0, len(xs)), NOT(g.pick(ps)))
    return dict(args=[['eq', OR(xs), ['true']]])


@template('verit_not_simplify')
def t_not_simplify(g):
    k = g.i(0, 2)
    if k == 0:
        p = g.form()
        return dict(args=[['eq', NOT(NOT(p)), p]])
    if k == 1:
        return dict(args=[['eq', NOT(['false']), ['true']]])
    return dict(args=[['eq', NOT(['true']), ['false']]])


@template('verit_implies_simplify')
def t_implies_simplify(g):
    k = g.i(0, 8)
    a, b = g.forms(2)
    T, F = ['true'], ['false']
    pairs = [(['imp', NOT(a), NOT(b)], ['imp', b, a]), (['imp', F, a], T), (['imp', a, T], T), (['imp', T, a], a),
             (['imp', a, F], NOT(a)), (['imp', a, a], T), (['imp', NOT(a), a], a), (['imp', a, NOT(a)], NOT(a)),
             (['imp', ['imp', a, b], b], ['or', a, b])]
    l, r = pairs[k]
    return dict(args=[['eq', l, r]])


@template('verit_equiv_simplify')
def t_equiv_simplify(g):
    k = g.i(0, 7)
    a, b = g.forms(2)
    T, F = ['true'], ['false']
    pairs = [(['eq', NOT(a), NOT(b)], ['eq', a, b]), (['eq', a, a], T), (['eq', a, NOT(a)], F), (['eq', NOT(a), a], F),
             (['eq', T, a], a), (['eq', a, T], a), (['eq', F, a], NOT(a)), (['eq', a, F], NOT(a))]
    l, r = pairs[k]
    return dict(args=[['eq', l, r]])


@template('verit_bool_simplify')
def t_bool_simplify(g):
    k = g.i(0, 6)
    a, b, c = g.forms(3)
    pairs = [(NOT(['imp', a, b]), ['and', a, NOT(b)]), (NOT(['or', a, b]), ['and', NOT(a), NOT(b)]),
             (NOT(['and', a, b]), ['or', NOT(a), NOT(b)]), (['imp', a, ['imp', b, c]], ['imp', ['and', a, b], c]),
             (['imp', ['imp', a, b], b], ['or', a, b]), (['and', a, ['imp', a, b]], ['and', a, b]),
             (['and', ['imp', a, b], a], ['and', a, b])]
    l, r = pairs[k]
    return dict(args=[['eq', l, r]])


@template('verit_ite_simplify')
def t_ite_simplify(g):
    k = g.i(0, 13)
    c, a, b = g.forms(3)
    T, F = ['true'], ['false']
    if k <= 4 and g.coin():
        x, y, z = g.term('U'), g.term('U'), g.term('U')       # term-level ite
    else:
        x, y, z = a, b, g.form()
    pairs = [(['ite', T, x, y], x), (['ite', F, x, y], y), (['ite', c, x, x], x), (['ite', NOT(c), x, y], ['ite', c, y, x]),
             (['ite', c, ['ite', c, x, y], z], ['ite', c, x, z]), (['ite', c, x, ['ite', c, y, z]], ['ite', c, x, z]),
             (['ite', c, T, F], c), (['ite', c, F, T], NOT(c)), (['ite', c, T, a], ['or', c, a]),
             (['ite', c, a, F], ['and', c, a]), (['ite', c, F, a], ['and', NOT(c), a]),
             (['ite', c, a, T], ['or', NOT(c), a]), (['ite', NOT(c), a, T], ['or', c, a]),
             (['ite', NOT(c), F, a], ['and', c, a])]
    l, r = pairs[k]
    return dict(args=[['eq', l, r]])


@template('verit_eq_simplify')
def t_eq_simplify(g):
    k = g.i(0, 2)
    if k == 0:
        t = g.term()
        return dict(args=[['eq', ['eq', t, t], ['true']]])
    if k == 1:
        T = g.pick(['int', 'real'])
        n1 = g.i(-3, 5)
        n2 = n1 + g.i(1, 3)
        if g.coin():
            n1, n2 = n2, n1
        return dict(args=[['eq', ['eq', NUM(T, n1), NUM(T, n2)], ['false']]])
    t = g.term()
    return dict(args=[['eq', NOT(['eq', t, t]), ['false']]])


@template('verit_ac_simp')
def t_ac_simp(g):
    op = g.pick(['and', 'or'])
    leaves = g.forms(g.i(2, 4))

    def tree(xs):
        if len(xs) == 1:
            return xs[0]
        k = g.i(1, len(xs) - 1)
        return [op, tree(xs[:k]), tree(xs[k:])]
    seq = list(leaves)
    for _ in range(g.i(0, 2)):
        seq.insert(g.i(0, len(seq)), g.pick(leaves))
    uniq = []
    for x in seq:
        if x not in uniq:
            uniq.append(x)
    lhs = tree(seq)
    if lhs[0] != op:
        lhs = [op, lhs, lhs]
    return dict(args=[['eq', lhs, (AND if op == 'and' else OR)(uniq)]])


@template('verit_distinct_elim')
def t_distinct_elim(g):
    n = g.i(2, 4)
    ts = g.forms(n, lambda: g.uterm(1))
    ts = [t if t[0] != 'v' or t[2] == 'U' else UV[i] for i, t in enumerate(ts)]
    conjs = [NOT(['eq', ts[i], ts[j]]) for i in range(n) for j in range(i + 1, n)]
    return dict(args=[['eq', ['distinct'] + ts, AND(conjs)]])


@template('verit_ite_intro')
def t_ite_intro(g):
    c = g.atom()
    if g.coin():
        x, y = g.uterm(0), g.uterm(1)
        it = ['ite', c, x, y]
        lhs = ['ap', PU1, it] if g.coin() else ['eq', ['ap', FU1, it], g.uterm(0)]
    else:
        T = g.pick(['int', 'real'])
        x, y = g.aterm(T, 0), g.aterm(T, 1)
        it = ['ite', c, x, y]
        lhs = [g.pick(['<', '<=']), ['+', it, g.aterm(T, 0)], g.aterm(T, 0)]
    intro = ['ite', c, ['eq', x, it], ['eq', y, it]]
    return dict(args=[['eq', lhs, ['and', lhs, intro]]])


@template('verit_bfun_elim')
def t_bfun_elim(g):
    if g.coin():
        p = g.form()
        return dict(prevs=[prem(p)], args=[p])
    bq = ['v', 'bq', 'bool']
    a = g.atom()
    op = g.pick(['or', 'and', 'imp'])
    body = lambda v: [op, v, a]
    if g.coin():
        return dict(prevs=[prem(['forall', 'bq', 'bool', body(bq)])], args=[AND([body(['false']), body(['true'])])])
    return dict(prevs=[prem(['exists', 'bq', 'bool', body(bq)])], args=[OR([body(['false']), body(['true'])])])


# ---- equality --------------------------------------------------------------------------------------
@template('verit_eq_reflexive')
def t_eq_reflexive(g):
    t = g.term()
    return dict(args=[['eq', t, t]])


def chain_terms(g, n):
    T = g.pick(['U', 'U', 'int'])
    ts = g.forms(n, (lambda: g.uterm(1)) if T == 'U' else (lambda: g.aterm('int', 1)))
    for i, t in enumerate(ts):
        if t[0] == 'v' and t[2] == 'bool':      # forms() fallback produced a boolean filler: replace
            ts[i] = ['ap', FU1, ['ap', FU1, UV[i % 4]]] if T == 'U' else ['+', IV[i % 3], NUM('int', 10 + i)]
    return ts


def flip(g, e):
    return ['eq', e[2], e[1]] if g.coin(1, 3) else e


@template('verit_eq_transitive')
def t_eq_transitive(g):
    n = g.i(3, 5)
    ts = chain_terms(g, n)
    eqs = [flip(g, ['eq', ts[i], ts[i + 1]]) for i in range(n - 1)]
    return dict(args=[NOT(e) for e in eqs] + [flip(g, ['eq', ts[0], ts[-1]])])


@template('verit_trans')
def t_trans(g):
    n = g.i(3, 5)
    ts = chain_terms(g, n)
    eqs = [flip(g, ['eq', ts[i], ts[i + 1]]) for i in range(n - 1)]
    return dict(prevs=[prem(e) for e in eqs], args=[flip(g, ['eq', ts[0], ts[-1]])])


def cong_pairs(g, n):
    xs = [g.uterm(1) for _ in range(n)]
    ys = []
    for x in xs:
        y = g.uterm(1)
        ys.append(y)
    return xs, ys


@template('verit_eq_congruent')
def t_eq_congruent(g):
    n = g.i(1, 3)
    xs, ys = cong_pairs(g, n)
    f = [FU1, FU2, FU3][n - 1]
    return dict(args=[NOT(flip(g, ['eq', x, y])) for x, y in zip(xs, ys)] + [['eq', ['ap', f] + xs, ['ap', f] + ys]])


@template('verit_eq_congruent_pred')
def t_eq_congruent_pred(g):
    n = g.i(1, 3)
    xs, ys = cong_pairs(g, n)
    P = [PU1, PU2, PU3][n - 1]
    a, b = ['ap', P] + xs, ['ap', P] + ys
    tail = [NOT(a), b] if g.coin() else [a, NOT(b)]
    return dict(args=[NOT(flip(g, ['eq', x, y])) for x, y in zip(xs, ys)] + tail)


@template('verit_cong')
def t_cong(g):
    k = g.i(0, 4)
    if k <= 1:
        n = g.i(1, 3)
        xs, ys = cong_pairs(g, n)
        f = g.pick([[FU1, PU1], [FU2, PU2], [FU3, PU3]][n - 1])
        keep = g.i(0, n - 1) if g.coin(1, 4) else None      # one argument unchanged, no premise for it
        prevs = []
        for i, (x, y) in enumerate(zip(xs, ys)):
            if i == keep:
                ys[i] = x
            else:
                prevs.append(prem(['eq', x, y]))
        return dict(prevs=prevs, args=[['eq', ['ap', f] + xs, ['ap', f] + ys]])
    if k == 4:
        ts = [UV[0], UV[1], ['ap', FU1, UV[2]], UV[3]][:g.i(3, 4)]
        j = g.i(0, len(ts) - 1)
        t2 = g.uterm(1)
        ts2 = list(ts)
        ts2[j] = t2
        return dict(prevs=[prem(['eq', ts[j], t2])], args=[['eq', ['distinct'] + ts, ['distinct'] + ts2]])
    a, b, c, d = g.forms(4)
    op = g.pick(['and', 'or', 'imp', 'eq'])
    if k == 2:
        return dict(prevs=[prem(['eq', a, c]), prem(['eq', b, d])], args=[['eq', [op, a, b], [op, c, d]]])
    return dict(prevs=[prem(['eq', a, c])], args=[['eq', NOT(a), NOT(c)]])


@template('verit_refl')
def t_refl(g):
    T = g.pick(['U', 'int'])
    t = g.uterm(1) if T == 'U' else g.aterm('int', 1)
    x = ['v', 'x1', T]
    goal = ['eq', x, t] if g.coin() else ['eq', t, x]
    return dict(args=[goal], ctx={'x1': t})


# ---- arithmetic ------------------------------------------------------------------------------------
def lin_side(g, T, pairs, const):
    """IR for sum(coef*var) + const (pairs: [(coef, var)])"""
    parts = []
    for c, v in pairs:
        if c == 0:
            continue
        if c == 1 and g.coin(2, 3):
            parts.append(v)
        elif c == -1 and g.coin():
            parts.append(['neg', v])
        else:
            parts.append(['*', NUM(T, c), v])
    if const != 0 or not parts:
        k = NUM(T, const)
        if g.coin():
            parts.append(k)
        else:
            parts.insert(0, k)
    return SUM(parts)


def render_constraint(g, T, coefs, vars_, rel, d):
    """literal whose NEGATION is  sum coefs*vars REL d   (REL in '>=', '>', '=')"""
    left, right = [], []
    for c, v in zip(coefs, vars_):
        if c == 0:
            continue
        if g.coin(2, 3):
            left.append((c, v))
        else:
            right.append((-c, v))
    if g.coin(2, 3):
        s, t = lin_side(g, T, left, 0), lin_side(g, T, right, d)
    else:
        s, t = lin_side(g, T, left, -d), lin_side(g, T, right, 0)
    if rel == '=':
        return NOT(['eq', s, t]) if g.coin() else NOT(['eq', t, s])
    if rel == '>':           # s > t
        return NOT(['<', t, s]) if g.coin() else ['<=', s, t]
    return NOT(['<=', t, s]) if g.coin() else ['<', s, t]


def la_tight(g):
    """Integer instances at the boundary of the tightening step: one row has coefficient gcd m >= 2 and a constant of
    either sign that m usually does not divide, and the weighted sum of the constants lies within one tightening gain of
    zero, so that whether the clause is a tautology depends on the rounding direction.  Both valid and invalid clauses
    arise; the oracle decides (mut = 'tight': the instance is not claimed to be correct)."""
    T = 'int'
    vars_ = IV[:g.i(1, 2)]
    k = g.i(2, 3)
    rels = [g.pick(['>=', '>=', '>']) for _ in range(k)]
    cs = [g.i(1, 3) for _ in range(k)]
    cs[-1] = 1
    m = g.pick([2, 2, 3, 4])
    i0 = g.i(0, k - 2)
    Ls = [[g.i(-3, 3) for _ in vars_] for _ in range(k - 1)]
    Ls[i0] = [m * g.i(-2, 2) for _ in vars_]
    if not any(Ls[i0]):
        Ls[i0][0] = m * g.pick([-1, 1])
    Ls.append([-sum(cs[i] * Ls[i][j] for i in range(k - 1)) for j in range(len(vars_))])
    ds = [g.i(-9, 9) for _ in range(k - 1)]
    if ds[i0] % m == 0 and g.coin(3, 4):
        ds[i0] += g.i(1, m - 1)
    S = g.i(-m * cs[i0], m * cs[i0])
    ds.append(S - sum(cs[i] * ds[i] for i in range(k - 1)))
    lits = [render_constraint(g, T, Ls[i], vars_, rels[i], ds[i]) for i in range(k)]
    scale = g.pick([1, 1, 2])
    return dict(args=lits, coeffs=[NUM(T, c * scale) for c in cs], mut='tight')


@template('verit_la_generic')
def t_la_generic(g):
    T = g.pick(['int', 'real', 'real'])
    if g.coin(1, 8):                                  # la_tautology style: one literal over constants
        a, b = g.i(-3, 4), g.i(-3, 4)
        lits = [['<=', NUM(T, a), NUM(T, b)] if a <= b else NOT(['<=', NUM(T, a), NUM(T, b)]),
                ['<', NUM(T, a), NUM(T, b)] if a < b else NOT(['<', NUM(T, a), NUM(T, b)])]
        return dict(args=[g.pick(lits)], coeffs=[])
    if T == 'int' and g.coin(1, 2):
        return la_tight(g)
    vars_ = (IV if T == 'int' else RV)[:g.i(1, 3)]
    k = g.i(2, 4)
    rels = [g.pick(['>=', '>=', '>', '=']) for _ in range(k)]
    cs = [g.i(1, 3) for _ in range(k)]
    for i in range(k):
        if rels[i] == '=' and g.coin():
            cs[i] = -cs[i]
    cs[-1] = 1
    Ls = [[g.i(-3, 3) for _ in vars_] for _ in range(k - 1)]
    Ls.append([-sum(cs[i] * Ls[i][j] for i in range(k - 1)) for j in range(len(vars_))])
    strict = any(r == '>' for r in rels)
    alleq = all(r == '=' for r in rels)
    S = g.i(1, 3) if not strict else g.i(0, 2)
    if alleq and g.coin():
        S = -S
    ds = [g.i(-4, 4) for _ in range(k - 1)]
    ds.append(S - sum(cs[i] * ds[i] for i in range(k - 1)))
    lits = [render_constraint(g, T, Ls[i], vars_, rels[i], ds[i]) for i in range(k)]
    scale = g.pick([1, 1, 1, 2, Fraction(1, 2)]) if T == 'real' else g.pick([1, 1, 2])
    if not any(r == '=' for r in rels) and g.coin(1, 3):
        scale = -scale          # the rule takes absolute values of the coefficients of inequalities
    coeffs = [NUM(T, c * scale) for c in cs]
    return dict(args=lits, coeffs=coeffs)


@template('verit_la_disequality')
def t_la_disequality(g):
    T = g.pick(['int', 'real'])
    a, b = g.aterm(T, 1), g.aterm(T, 1)
    return dict(args=[OR([['eq', a, b], NOT(['<=', a, b]), NOT(['<=', b, a])])])


@template('verit_la_rw_eq')
def t_la_rw_eq(g):
    T = g.pick(['int', 'real'])
    a, b = g.aterm(T, 1), g.aterm(T, 1)
    return dict(args=[['eq', ['eq', a, b], ['and', ['<=', a, b], ['<=', b, a]]]])


@template('verit_sum_simplify')
def t_sum_simplify(g):
    T = g.pick(['int', 'real'])
    V = IV if T == 'int' else RV
    items, non, c = [], [], Fraction(0)
    for _ in range(g.i(2, 5)):
        if g.coin():
            n = g.i(-3, 5)
            items.append(NUM(T, n))
            c += n
        else:
            t = g.pick(V) if g.coin(2, 3) else ['*', NUM(T, g.i(2, 3)), g.pick(V)]
            items.append(t)
            non.append(t)
    if not any(x[0] in ('n', 'neg') for x in items):
        items.append(NUM(T, 0))
    if not non:
        rhs = NUM(T, c)
    elif c == 0:
        rhs = SUM(non)
    else:
        rhs = ['+', NUM(T, c), SUM(non)]
    return dict(args=[['eq', SUM(items), rhs]])


def PROD(xs):
    r = xs[0]
    for x in xs[1:]:
        r = ['*', r, x]
    return r


@template('verit_prod_simplify')
def t_prod_simplify(g):
    T = g.pick(['int', 'real'])
    V = IV if T == 'int' else RV
    items, non, c = [], [], Fraction(1)
    for _ in range(g.i(2, 4)):
        if g.coin():
            n = g.i(-2, 4)
            items.append(NUM(T, n))
            c *= n
        else:
            t = g.pick(V)
            items.append(t)
            non.append(t)
    if not any(x[0] in ('n', 'neg') for x in items):
        items.insert(0, NUM(T, 2))
        c *= 2
    if c == 0:
        rhs = NUM(T, 0)
    elif not non:
        rhs = NUM(T, c)
    elif c == 1:
        rhs = PROD(non)
    else:
        rhs = PROD([NUM(T, c)] + non)
    return dict(args=[['eq', PROD(items), rhs]])


@template('verit_minus_simplify')
def t_minus_simplify(g):
    T = g.pick(['int', 'real'])
    t = g.aterm(T, 1)
    k = g.i(0, 3)
    if k == 0:
        return dict(args=[['eq', ['-', t, t], NUM(T, 0)]])
    if k == 1:
        return dict(args=[['eq', ['-', t, NUM(T, 0)], t]])
    if k == 2:
        return dict(args=[['eq', ['-', NUM(T, 0), t], ['neg', t]]])
    a, b = g.i(-3, 5), g.i(-3, 5)
    return dict(args=[['eq', ['-', NUM(T, a), NUM(T, b)], NUM(T, a - b)]])


@template('verit_unary_minus_simplify')
def t_unary_minus_simplify(g):
    T = g.pick(['int', 'real'])
    k = g.i(0, 2)
    if k == 0:
        t = g.aterm(T, 1)
        return dict(args=[['eq', ['neg', ['neg', t]], t]])
    n = g.i(0, 5)
    if k == 1:
        return dict(args=[['eq', ['neg', ['neg', ['n', T, n]]], ['n', T, n]]])
    return dict(args=[['eq', ['neg', ['n', T, n]], NUM(T, -n)]])


@template('verit_div_simplify')
def t_div_simplify(g):
    k = g.i(0, 2)
    n = g.i(1, 6)
    if k == 0:
        return dict(args=[['eq', ['/', ['n', 'real', n], ['n', 'real', n]], ['n', 'real', 1]]])
    if k == 1:
        t = g.aterm('real', 1)
        return dict(args=[['eq', ['/', t, ['n', 'real', 1]], t]])
    m = g.i(2, 5)
    sign = 1 if g.coin() else -1
    return dict(args=[['eq', ['/', NUM('real', sign * n * m), ['n', 'real', m]], NUM('real', sign * n)]])


@template('verit_comp_simplify')
def t_comp_simplify(g):
    T = g.pick(['int', 'real'])
    k = g.i(0, 6)
    a, b = g.aterm(T, 1), g.aterm(T, 1)
    Tr, Fa = ['true'], ['false']
    if k == 0:
        n1, n2 = g.i(-3, 4), g.i(-3, 4)
        return dict(args=[['eq', ['<', NUM(T, n1), NUM(T, n2)], Tr if n1 < n2 else Fa]])
    if k == 1:
        n1, n2 = g.i(-3, 4), g.i(-3, 4)
        return dict(args=[['eq', ['<=', NUM(T, n1), NUM(T, n2)], Tr if n1 <= n2 else Fa]])
    if k == 2:
        return dict(args=[['eq', ['<', a, a], Fa]])
    if k == 3:
        return dict(args=[['eq', ['<=', a, a], Tr]])
    if k == 4:
        return dict(args=[['eq', ['>=', a, b], ['<=', b, a]]])
    if k == 5:
        return dict(args=[['eq', ['<', a, b], NOT(['<=', b, a])]])
    return dict(args=[['eq', ['>', a, b], NOT(['<=', a, b])]])


# ---- quantifiers / context ---------------------------------------------------------------------------
def qbody(g, names):
    """a body over bound U-variables `names` (and free ones)"""
    vs = [['v', n, 'U'] for n in names]
    k = g.i(0, 3)
    x = g.pick(vs)
    if k == 0:
        return ['ap', PU1, x]
    if k == 1:
        return ['ap', PU2, x, g.pick(vs + UV[:2])]
    if k == 2:
        return ['eq', ['ap', FU1, x], g.pick(vs + UV[:2])]
    return ['or', ['ap', PU1, x], g.pick(BV)]


@template('verit_forall_inst')
def t_forall_inst(g):
    n = g.i(1, 2)
    names = ['x1', 'x2'][:n]
    body = qbody(g, names)
    if n == 2 and g.coin():
        body = ['imp', body, qbody(g, names)]
    q = body
    for nm in reversed(names):
        q = ['forall', nm, 'U', q]
    inst = []
    res = body
    for nm in names:
        t = g.uterm(1)
        inst.append([nm, t])
        res = L.subst(res, nm, 'U', t)
    return dict(args=[['or', NOT(q), res]], inst=inst)


@template('verit_qnt_simplify')
def t_qnt_simplify(g):
    c = g.pick([['true'], ['false']])
    q = c
    for nm in ['x1', 'x2'][:g.i(1, 2)]:
        q = [g.pick(['forall', 'exists']), nm, g.pick(['U', 'int']), q]
    return dict(args=[['eq', q, c]])


@template('verit_qnt_rm_unused')
def t_qnt_rm_unused(g):
    qn = g.pick(['forall', 'exists'])
    names = ['x1', 'x2', 'x3']
    used = [n for n in names if g.coin()] or ['x1']
    body = qbody(g, used[:1])
    for n in used[1:]:
        body = ['or', body, ['ap', PU1, ['v', n, 'U']]]
    lhs = body
    for n in reversed(names):
        lhs = [qn, n, 'U', lhs]
    rhs = body
    for n in reversed(used):
        rhs = [qn, n, 'U', rhs]
    return dict(args=[['eq', lhs, rhs]])


@template('verit_qnt_join')
def t_qnt_join(g):
    qn = g.pick(['forall', 'exists'])
    body = qbody(g, ['x1', 'x2'])
    q = [qn, 'x1', 'U', [qn, 'x2', 'U', body]]
    return dict(args=[['eq', q, q]])


@template('verit_qnt_cnf')
def t_qnt_cnf(g):
    x = ['v', 'x1', 'U']
    A, B, C = ['ap', PU1, x], ['ap', PU2, x, UV[0]], ['eq', ['ap', FU1, x], UV[1]]
    k = g.i(0, 3)
    if k == 0:
        body, cl = ['and', A, B], g.pick([A, B])
    elif k == 1:
        body, cl = ['imp', A, B], ['or', NOT(A), B]
    elif k == 2:
        body, cl = ['or', A, ['and', B, C]], g.pick([['or', A, B], ['or', A, C]])
    else:
        body, cl = NOT(['or', A, B]), g.pick([NOT(A), NOT(B)])
    return dict(args=[['or', NOT(['forall', 'x1', 'U', body]), ['forall', 'x1', 'U', cl]]])


@template('verit_bind')
def t_bind(g):
    qn = g.pick(['forall', 'exists'])
    x, y = ['v', 'x1', 'U'], ['v', 'y1', 'U']
    k = g.i(0, 2)
    if k == 0:
        Fx, Gy = ['ap', PU1, x], ['ap', PU1, y]
    elif k == 1:
        Fx, Gy = ['ap', PU2, x, UV[0]], ['ap', PU2, y, UV[0]]
    else:
        Fx, Gy = NOT(NOT(['ap', PU1, x])), ['ap', PU1, y]
    return dict(prevs=[prem(['eq', Fx, Gy], [['eq', x, y]])], ctx={'x1': y},
                args=[['eq', [qn, 'x1', 'U', Fx], [qn, 'y1', 'U', Gy]]])


@template('verit_onepoint')
def t_onepoint(g):
    x = ['v', 'x1', 'U']
    t = g.pick(UV[:3])
    k = g.i(0, 2)
    Px, Pt = ['ap', PU1, x], ['ap', PU1, t]
    if k == 0:
        lhs = ['forall', 'x1', 'U', ['imp', ['eq', x, t], Px]]
        rhs = ['imp', ['eq', t, t], Pt]
    elif k == 1:
        lhs = ['forall', 'x1', 'U', ['or', NOT(['eq', x, t]), Px]]
        rhs = ['or', NOT(['eq', t, t]), Pt]
    else:
        lhs = ['exists', 'x1', 'U', ['and', ['eq', x, t], Px]]
        rhs = ['and', ['eq', t, t], Pt]
    return dict(args=[['eq', lhs, rhs]], ctx={'x1': t}, prevs=[prem(['eq', Px, Pt], [['eq', x, t]])])


@template('verit_sko_ex')
def t_sko_ex(g):
    x = ['v', 'x1', 'U']
    Px = ['ap', PU1, x]
    sk = ['some', 'x1', 'U', Px]
    rhs = L.subst(Px, 'x1', 'U', sk)
    return dict(prevs=[prem(['eq', Px, rhs], [['eq', x, sk]])], ctx={'x1': sk},
                args=[['eq', ['exists', 'x1', 'U', Px], rhs]])


@template('verit_sko_forall')
def t_sko_forall(g):
    x = ['v', 'x1', 'U']
    Px = ['ap', PU1, x]
    sk = ['some', 'x1', 'U', NOT(Px)]
    rhs = L.subst(Px, 'x1', 'U', sk)
    return dict(prevs=[prem(['eq', Px, rhs], [['eq', x, sk]])], ctx={'x1': sk},
                args=[['eq', ['forall', 'x1', 'U', Px], rhs]])


@template('verit_let')
def t_let(g):
    x = ['v', 'x1', 'U']
    t, s = g.pick(UV[:2]), g.pick(UV[2:])
    Px = ['ap', PU1, x]
    return dict(prevs=[prem(['eq', t, s]), prem(['eq', Px, ['ap', PU1, s]], [['eq', x, s]])],
                args=[['eq', ['let', 'x1', 'U', t, Px], ['ap', PU1, s]]])


# ---- helper macros reachable through a rule name in a proof file ---------------------------------------
@template('verit_conj_pts', 'verit_disj_pts')
def t_pts(g, rule):
    n = g.i(1, 3)
    fs = g.forms(2 * n)
    return dict(prevs=[prem(['eq', fs[i], fs[n + i] if g.coin(2, 3) else fs[i]]) for i in range(n)], args=[])


@template('verit_norm_lia', 'verit_norm_lra')
def t_norm(g, rule):
    T = 'int' if rule == 'verit_norm_lia' else 'real'
    return dict(args=[['+', g.aterm(T, 1), g.aterm(T, 1)]], nonbool_args=True)


# =================================================================================================== cases
def build_case(rule, D, mutate):
    g = G(D)
    fn = TEMPLATES[rule]
    d = fn(g, rule) if fn.__code__.co_argcount == 2 else fn(g)
    case = {'rule': rule, 'args': d.get('args', []), 'prevs': [], 'mut': 'none'}
    for i, p in enumerate(d.get('prevs', [])):
        if 'hyps' in p:
            hyps = p['hyps']
        else:
            k = g.i(0, 9)
            hyps = [] if k <= 2 else [['v', 'h%d' % (i + 1), 'bool']] if k <= 8 else \
                [['v', 'h%d' % (i + 1), 'bool'], ['v', 'h0', 'bool']]
        case['prevs'].append({'hyps': hyps, 'prop': p['prop']})
    for k in ('ctx', 'sizes', 'coeffs', 'inst'):
        if k in d:
            case[k] = d[k]
    if 'mut' in d:                  # the template itself does not claim that the instance is a correct one
        case['mut'] = d['mut']
    if mutate:
        for _ in range(6):
            new, kind = mutate_case(g, case)
            if new is not None and new != case:
                new['mut'] = kind
                return new
    return case


# ---- mutation ----------------------------------------------------------------------------------------
def positions(t, path=(), out=None):
    if out is None:
        out = []
    out.append((path, t))
    tag = t[0]
    if tag in ('v', 'n', 'true', 'false'):
        return out
    if tag in L.BINDERS:
        positions(t[3], path + (3,), out)
    elif tag == 'let':
        positions(t[3], path + (3,), out)
        positions(t[4], path + (4,), out)
    else:
        for i in range(1, len(t)):
            positions(t[i], path + (i,), out)
    return out


def set_at(t, path, new):
    if not path:
        return new
    t = list(t)
    t[path[0]] = set_at(t[path[0]], path[1:], new)
    return t


def bound_at(t, path):
    """names bound on the way to `path` (a replacement term must not be captured / must stay well-scoped)"""
    names = {}
    for i in path:
        if t[0] in L.BINDERS and i == 3:
            names[t[1]] = t[2]
        elif t[0] == 'let' and i == 4:
            names[t[1]] = t[2]
        t = t[i]
    return names


def case_terms(case):
    ts = list(case['args']) + [p['prop'] for p in case['prevs']]
    return [t for t in ts if isinstance(t, list)]


def fresh_var(case, T):
    names = set()
    for t in case_terms(case):
        L.all_names(t, names)
    base = {'bool': 'r', 'U': 'e', 'V': 'e', 'int': 'k', 'real': 'm'}.get(T if isinstance(T, str) else 'fn', 'F')
    i = 0
    while '%s%d' % (base, i) in names:
        i += 1
    return ['v', '%s%d' % (base, i), T]


CONN_GROUPS = [('and', 'or', 'imp', 'xor'), ('<', '<=', '>', '>='), ('+', '-', '*'), ('forall', 'exists')]


def deep_mutate(g, case, where):
    """Mutate one sub-term of a clause literal ('cl') or of a premise ('prem')."""
    if where == 'cl':
        if not case['args']:
            return None, None
        idx = g.i(0, len(case['args']) - 1)
        root = case['args'][idx]
    else:
        if not case['prevs']:
            return None, None
        idx = g.i(0, len(case['prevs']) - 1)
        root = case['prevs'][idx]['prop']
    pos = positions(root)
    # prefer shallow positions a little: pick two, take the shallower with prob 1/2
    path, sub = pos[g.i(0, len(pos) - 1)]
    if g.coin():
        p2, s2 = pos[g.i(0, len(pos) - 1)]
        if len(p2) < len(path):
            path, sub = p2, s2
    try:
        T = ty(sub)
    except CaseInvalid:
        return None, None
    tag = sub[0]
    ops = ['replace']
    if T == 'bool':
        ops += ['neg', 'neg', 'lengthen']
    if T in ('int', 'real'):
        ops += ['lengthen']
    if tag in ('and', 'or', 'imp', 'xor', '+', '*', '-'):
        ops += ['shorten', 'conn', 'conn', 'argswap']
    if tag in ('<', '<=', '>', '>=', 'forall', 'exists'):
        ops += ['conn', 'conn']
    if tag in ('<', '<=', '>', '>=', 'eq'):
        ops += ['argswap']
    if tag == 'eq':
        ops += ['conn']
    if tag == 'ite':
        ops += ['argswap']
    if tag == 'distinct':
        ops += ['shorten'] * 5 + ['argswap']
    if tag == 'not':
        ops += ['neg', 'unneg', 'unneg']
    if tag == 'neg':
        ops += ['unneg', 'unneg']
    if tag == 'n':
        ops += ['const', 'const', 'const']
    op = g.pick(ops)
    new = None
    if op == 'neg':
        new = sub[1] if tag == 'not' and g.coin(3, 4) else NOT(sub)
    elif op == 'unneg':
        # a non-negation whose last argument is the negated term (what `.arg` of a careless check still finds)
        if tag == 'not':
            extra = fresh_var(case, 'bool') if g.coin() else g.pick(BV)
            new = [g.pick(['or', 'and', 'imp', 'eq']), extra, sub[1]]
        else:
            new = ['-', g.pick([fresh_var(case, T), NUM(T, 0), NUM(T, 1)]), sub[1]]
    elif op == 'conn':
        if tag == 'eq':
            if ty(sub[1]) == 'bool':
                new = [g.pick(['and', 'or', 'imp', 'xor']), sub[1], sub[2]]
            elif ty(sub[1]) in ('int', 'real'):
                new = [g.pick(['<=', '<']), sub[1], sub[2]]
            else:
                new = NOT(sub)
        else:
            for grp in CONN_GROUPS:
                if tag in grp:
                    alt = [x for x in grp if x != tag]
                    if tag in ('and', 'or', 'imp', 'xor'):
                        alt.append('eq')
                    if tag in ('<', '<=') and g.coin(1, 5):
                        alt.append('eq')
                    new = [g.pick(alt)] + list(sub[1:])
    elif op == 'replace':
        pool = []
        scope = set(bound_at(root, path))
        binders = set()
        for t in case_terms(case):
            for _, s in positions(t):
                if s[0] in L.BINDERS or s[0] == 'let':
                    binders.add(s[1])
        for t in case_terms(case):
            for _, s in positions(t):
                try:
                    if s != sub and s not in pool and ty(s) == T:
                        own = set(x[1] for _, x in positions(s) if x[0] in L.BINDERS or x[0] == 'let')
                        if own & scope:
                            continue        # would nest binders of the same name (the IR names must stay unique)
                        pool.append(s)
                except CaseInvalid:
                    pass
        if pool and g.coin(2, 3):
            new = g.pick(pool)
        elif T == 'bool' and g.coin(1, 4):
            new = g.pick([['true'], ['false']])
        elif T in ('int', 'real') and g.coin(1, 3):
            new = NUM(T, g.i(-2, 3))
        else:
            new = fresh_var(case, T)
    elif op == 'shorten' and tag == 'distinct':
        if len(sub) <= 3:
            return None, None
        k = g.i(1, len(sub) - 1)
        new = sub[:k] + sub[k + 1:]
    elif op == 'shorten':
        new = sub[g.i(1, 2)]
    elif op == 'lengthen':
        if T == 'bool':
            extra = fresh_var(case, 'bool') if g.coin() else g.pick(BV)
            k = g.pick(['and', 'or', 'imp'])
            new = [k, sub, extra] if g.coin() else [k, extra, sub]
        else:
            new = ['+', sub, NUM(T, 1)]
    elif op == 'argswap':
        if tag == 'ite':
            new = ['ite', sub[1], sub[3], sub[2]]
        elif tag == 'distinct':
            new = ['distinct', sub[2], sub[1]] + sub[3:]
        else:
            new = [tag, sub[2], sub[1]]
    elif op == 'const':
        k = sub[2]
        new = ['n', sub[1], g.pick([k + 1, max(0, k - 1), 0, k + 2, k + 3, 2 * k + 1, max(0, k - 2)])]
    if new is None or new == sub:
        return None, None
    root2 = set_at(root, path, new)
    try:
        ty(root2)
    except CaseInvalid:
        return None, None
    c2 = json.loads(json.dumps(case))
    if where == 'cl':
        c2['args'][idx] = root2
    else:
        c2['prevs'][idx]['prop'] = root2
    return c2, 'deep-%s@%s' % (op, where)


def mutate_case(g, case):
    c2 = json.loads(json.dumps(case))
    args, prevs = c2['args'], c2['prevs']
    kinds = ['deep-cl'] * 5 + ['cl'] * 4
    if prevs:
        kinds += ['deep-prem'] * 4 + ['prem'] * 2
    else:
        kinds += ['prem']
    if case['rule'] == 'verit_la_generic' and case.get('coeffs'):
        kinds += ['coeff'] * 2 + ['lit+coeff'] * 5 + ['deep-cl'] * 5
    if case.get('sizes'):
        kinds += ['sizes'] * 2
    if case.get('ctx'):
        kinds += ['ctx'] * 3
    if case.get('inst'):
        kinds += ['inst'] * 3
    kinds += ['replace-all'] * 3
    kind = g.pick(kinds)
    if kind == 'replace-all':
        return replace_all_mutation(g, case)
    if kind == 'deep-cl':
        return deep_mutate(g, case, 'cl')
    if kind == 'deep-prem':
        return deep_mutate(g, case, 'prem')
    bool_args = all(_is_bool(a) for a in args)
    if kind == 'cl':
        ops = ['add']
        if args:
            ops += ['drop', 'drop', 'negate', 'negate', 'dneg', 'dup']
        if len(args) >= 2:
            ops += ['swap']
        op = g.pick(ops)
        if op != 'drop' and op != 'swap' and op != 'dup' and not bool_args:
            return None, None
        if op == 'add':
            extra = fresh_var(case, 'bool') if g.coin() else g.pick(BV)
            if g.coin(1, 3):
                extra = NOT(extra)
            args.insert(g.i(0, len(args)), extra)
        else:
            i = g.i(0, len(args) - 1)
            if op == 'drop':
                del args[i]
            elif op == 'negate':
                args[i] = args[i][1] if args[i][0] == 'not' else NOT(args[i])
            elif op == 'dneg':
                args[i] = NOT(NOT(args[i]))
            elif op == 'dup':
                args.insert(g.i(0, len(args)), args[i])
            elif op == 'swap':
                j = g.i(0, len(args) - 2)
                j = j if j < i else j + 1
                args[i], args[j] = args[j], args[i]
        if case.get('coeffs') and op == 'drop' and len(c2['coeffs']) == len(args) + 1:
            del c2['coeffs'][i]
        return c2, 'cl-' + op
    if kind == 'prem':
        ops = ['add']
        if prevs:
            ops += ['drop', 'drop', 'dup', 'replace']
        if len(prevs) >= 2:
            ops += ['swap', 'swap']
        op = g.pick(ops)
        if op == 'add':
            f = fresh_var(case, 'bool')
            prevs.insert(g.i(0, len(prevs)), {'hyps': [], 'prop': f})
            if case.get('sizes') is not None:
                c2['sizes'].insert(0, 1)
                c2['sizes'] = [1] * 0 + c2['sizes']
                # keep sizes aligned with premises
                c2['sizes'] = _realign_sizes(c2)
        else:
            i = g.i(0, len(prevs) - 1)
            if op == 'drop':
                del prevs[i]
                if case.get('sizes') is not None:
                    del c2['sizes'][i]
            elif op == 'dup':
                prevs.insert(i, json.loads(json.dumps(prevs[i])))
                if case.get('sizes') is not None:
                    c2['sizes'].insert(i, c2['sizes'][i])
            elif op == 'replace':
                prevs[i]['prop'] = fresh_var(case, 'bool') if g.coin() else g.form()
            elif op == 'swap':
                j = g.i(0, len(prevs) - 2)
                j = j if j < i else j + 1
                prevs[i], prevs[j] = prevs[j], prevs[i]
                if case.get('sizes') is not None:
                    c2['sizes'][i], c2['sizes'][j] = c2['sizes'][j], c2['sizes'][i]
        return c2, 'prem-' + op
    if kind == 'sizes':
        i = g.i(0, len(c2['sizes']) - 1)
        c2['sizes'][i] = max(1, c2['sizes'][i] + g.pick([-1, 1]))
        return c2, 'sizes'
    if kind in ('coeff', 'lit+coeff'):
        label = 'coeff'
        if kind == 'lit+coeff':
            c3, k3 = deep_mutate(g, case, 'cl')
            if c3 is None:
                return None, None
            c2 = c3
            label = k3 + '+coeff'
        cs = c2['coeffs']
        T = ty(cs[0])
        if kind == 'lit+coeff':
            op = g.pick(['zero-all', 'zero-all', 'negate-one', 'negate-all', 'negate-all', 'bump-one', 'zero-one'])
        else:
            op = g.pick(['zero-all', 'scale', 'negate-one', 'negate-all', 'bump-one', 'zero-one', 'swap'])
        vals = [_num_value(c) for c in cs]
        if op == 'zero-all':
            vals = [Fraction(0)] * len(vals)
        elif op == 'scale':
            vals = [v * 2 for v in vals]
        elif op == 'negate-all':
            vals = [-v for v in vals]
        else:
            i = g.i(0, len(vals) - 1)
            if op == 'negate-one':
                vals[i] = -vals[i]
            elif op == 'bump-one':
                vals[i] = vals[i] + g.pick([1, -1])
            elif op == 'zero-one':
                vals[i] = Fraction(0)
            elif op == 'swap' and len(vals) >= 2:
                j = (i + 1) % len(vals)
                vals[i], vals[j] = vals[j], vals[i]
        if T == 'int' and any(v.denominator != 1 for v in vals):
            return None, None
        c2['coeffs'] = [NUM(T, v) for v in vals]
        return c2, label + ':' + op
    if kind == 'ctx':
        name = g.pick(sorted(c2['ctx']))
        T = ty(c2['ctx'][name])
        pool = [UV[3]] if T == 'U' else []
        c2['ctx'][name] = g.pick(pool + [fresh_var(case, T)])
        return c2, 'ctx'
    if kind == 'inst':
        i = g.i(0, len(c2['inst']) - 1)
        T = ty(c2['inst'][i][1])
        c2['inst'][i][1] = g.pick([UV[3], fresh_var(case, T)]) if T == 'U' else fresh_var(case, T)
        return c2, 'inst'
    return None, None


def replace_everywhere(t, old, new):
    if t == old:
        return new
    if not isinstance(t, list) or t[0] in ('v', 'n'):
        return t
    if t[0] in L.BINDERS:
        return [t[0], t[1], t[2], replace_everywhere(t[3], old, new)]
    if t[0] == 'let':
        return ['let', t[1], t[2], replace_everywhere(t[3], old, new), replace_everywhere(t[4], old, new)]
    return [t[0]] + [replace_everywhere(a, old, new) for a in t[1:]]


def replace_all_mutation(g, case):
    """Replace EVERY occurrence of one sub-term (in clause, premises, context, instantiation) by another term of
    the same type: keeps the shape of the step and breaks only side conditions."""
    cands = []
    for t in case_terms(case):
        for _, s in positions(t):
            if s not in cands:
                cands.append(s)
    if not cands:
        return None, None
    # prefer small sub-terms
    sub = g.pick(cands)
    for _ in range(2):
        s2 = g.pick(cands)
        if len(json.dumps(s2)) < len(json.dumps(sub)):
            sub = s2
    try:
        T = ty(sub)
    except CaseInvalid:
        return None, None
    if L.is_fn(T):
        return None, None
    binders = set()
    for t in case_terms(case):
        for _, s in positions(t):
            if s[0] in L.BINDERS or s[0] == 'let':
                binders.add(s[1])
    if L.all_names(sub) & binders:
        return None, None
    k = g.i(0, 5)
    bvars = []
    for t in case_terms(case):
        for _, s in positions(t):
            if s[0] in ('forall', 'exists') and s[2] in ('U', 'int') and [s[1], s[2]] not in bvars:
                bvars.append([s[1], s[2]])
    if T == 'bool' and bvars and g.coin():
        nm, BT = g.pick(bvars)
        bv = ['v', nm, BT]
        new = ['ap', PU1, bv] if BT == 'U' else ['<', bv, g.pick(IV + [NUM('int', 0)])]
    elif T == 'bool':
        new = [fresh_var(case, 'bool'), g.pick(BV), ['true'], ['false'], NOT(sub) if sub[0] != 'not' else sub[1],
               g.atom()][k]
    elif [b_ for b_ in bvars if b_[1] == T] and g.coin(1, 3):
        nm, BT = g.pick([b_ for b_ in bvars if b_[1] == T])
        new = ['v', nm, BT]                 # a variable that is bound elsewhere in the step (capture)
    elif T in ('int', 'real'):
        V = IV if T == 'int' else RV
        new = [fresh_var(case, T), g.pick(V), NUM(T, g.i(-2, 3)), NUM(T, 0), ['+', sub, NUM(T, 1)],
               ['*', NUM(T, 2), g.pick(V)]][k]
    else:
        new = [fresh_var(case, T), g.pick(UV), ['ap', FU1, g.pick(UV)]][k % 3] if T == 'U' else fresh_var(case, T)
    if new == sub:
        return None, None
    c2 = json.loads(json.dumps(case))
    c2['args'] = [replace_everywhere(a, sub, new) for a in c2['args']]
    for p in c2['prevs']:
        p['prop'] = replace_everywhere(p['prop'], sub, new)
        p['hyps'] = [replace_everywhere(h, sub, new) for h in p['hyps']]
    if c2.get('ctx'):
        c2['ctx'] = {k_: replace_everywhere(v, sub, new) for k_, v in c2['ctx'].items()}
    if c2.get('inst'):
        c2['inst'] = [[n_, replace_everywhere(v, sub, new)] for n_, v in c2['inst']]
    try:
        for t in case_terms(c2):
            ty(t)
    except CaseInvalid:
        return None, None
    return c2, 'replace-all'


def _realign_sizes(c2):
    return [c2['sizes'][i] if i < len(c2['sizes']) else 1 for i in range(len(c2['prevs']))]


def _is_bool(t):
    try:
        return ty(t) == 'bool'
    except CaseInvalid:
        return False


def _num_value(t):
    if t[0] == 'n':
        return Fraction(t[2])
    if t[0] == 'neg':
        return -_num_value(t[1])
    if t[0] == '/':
        return _num_value(t[1]) / _num_value(t[2])
    raise CaseInvalid('coefficient is not a numeral')


# =================================================================================================== running a case
def parse_case(case):
    if not isinstance(case, dict) or not isinstance(case.get('rule'), str):
        raise CaseInvalid('case')
    rule = case['rule']
    if rule not in _macros:
        raise CaseInvalid('unknown macro %s' % rule)
    args = case.get('args')
    prevs = case.get('prevs', [])
    if not isinstance(args, list) or not isinstance(prevs, list):
        raise CaseInvalid('args/prevs')
    nonbool = rule in ('verit_norm_lia', 'verit_norm_lra')
    for a in args:
        if ty(a) != 'bool' and not nonbool:
            raise CaseInvalid('clause literal is not boolean')
    P = []
    for p in prevs:
        if not isinstance(p, dict) or 'prop' not in p or not isinstance(p.get('hyps', []), list):
            raise CaseInvalid('premise')
        if ty(p['prop']) != 'bool' or any(ty(h) != 'bool' for h in p.get('hyps', [])):
            raise CaseInvalid('premise is not boolean')
        P.append((list(p.get('hyps', [])), p['prop']))
    ctx = case.get('ctx')
    if ctx is not None:
        if not isinstance(ctx, dict):
            raise CaseInvalid('ctx')
        for k, v in ctx.items():
            ty(v)
    sizes = case.get('sizes')
    if sizes is not None:
        if not isinstance(sizes, list) or any(not isinstance(s, int) or isinstance(s, bool) or s < 1 or s > 50
                                              for s in sizes):
            raise CaseInvalid('sizes')
    coeffs = case.get('coeffs')
    if coeffs is not None:
        if not isinstance(coeffs, list):
            raise CaseInvalid('coeffs')
        for c in coeffs:
            if ty(c) not in ('int', 'real'):
                raise CaseInvalid('coeff')
    inst = case.get('inst')
    if inst is not None:
        if not isinstance(inst, list) or any(not isinstance(p, list) or len(p) != 2 or not isinstance(p[0], str)
                                             for p in inst):
            raise CaseInvalid('inst')
        for p in inst:
            ty(p[1])
    return rule, args, P, ctx, sizes, coeffs, inst


def holpy_call(rule, args, P, ctx, sizes, coeffs, inst):
    """Assemble (args, prevs) exactly as ProofReconstruction.validate_step does and call macro.eval."""
    from kernel.thm import Thm
    cl = tuple(L.dec(a) for a in args)
    prev_ths = [Thm(L.dec(p), tuple(L.dec(h) for h in hs)) for hs, p in P]
    if rule == 'verit_th_resolution':
        if sizes is None:
            raise CaseInvalid('th_resolution without sizes')
        hargs = (cl, tuple(sizes))
    elif rule == 'verit_la_generic':
        hargs = cl + (tuple(L.dec(c) for c in (coeffs or [])),)
    elif rule == 'verit_forall_inst':
        hargs = cl + tuple((nm, L.dec(t)) for nm, t in (inst or []))
    elif rule in CTX_RULES:
        hargs = cl + ({k: L.dec(v) for k, v in (ctx or {}).items()},)
    else:
        hargs = cl
    macro = _macros[rule]
    buf = io.StringIO()
    with contextlib.redirect_stdout(buf):
        return macro.eval(hargs, prev_ths)


def close_over(prop_hyps, names_types):
    """universal closure of the sequent (hyps => prop) over the given variables, as one formula"""
    hyps, prop = prop_hyps
    f = prop
    for h in reversed(hyps):
        f = ['imp', h, f]
    for nm, T in names_types:
        f = ['forall', nm, T, f]
    return ([], f)


def template_status(case):
    """Is the *expected* conclusion Or(cl) of a correct instance a consequence (premise hypotheses assumed)?"""
    rule, args, P, ctx, sizes, coeffs, inst = parse_case(case)
    if rule in UNDECIDED_RULES or rule in ('verit_conj_pts', 'verit_disj_pts', 'verit_norm_lia', 'verit_norm_lra'):
        return 'skip'
    prems = oracle_premises(rule, P, ctx)
    hyps = []
    if rule not in ('verit_bind', 'verit_subproof', 'verit_onepoint'):
        for hs, _ in P:
            hyps += [h for h in hs if h not in hyps]
    if rule == 'verit_subproof':
        for hs, _ in P[-1:]:
            hyps += [h for h in hs if h not in [p for _, p in P[:-1]]]
    if rule == 'verit_refl':
        hyps += [['eq', ['v', k, ty(v)], v] for k, v in (ctx or {}).items()]
    v, info = L.entails(prems, (hyps, OR(args)))
    return v


def oracle_premises(rule, P, ctx):
    if rule == 'verit_bind' and ctx:
        closed = []
        for hs, p in P:
            nts = []
            for k, v in ctx.items():
                nts.append((k, ty(v)))
                if v[0] == 'v' and (v[1], v[2]) not in nts:
                    nts.append((v[1], v[2]))
            closed.append(close_over((hs, p), nts))
        return closed
    if rule == 'verit_onepoint':
        return []           # eval ignores the premise; the goal must be valid on its own
    return list(P)


def run_case(case, H):
    if isinstance(case, dict) and case.get('kind') == 'e2e':
        return run_e2e(case, H)
    rule, args, P, ctx, sizes, coeffs, inst = parse_case(case)
    mut = case.get('mut', 'none')
    if not isinstance(mut, str):
        raise CaseInvalid('mut')
    correct = (mut == 'none')
    short = rule[len('verit_'):]

    def done(status, nontrivial=False):
        H.note('rule/%s/%s' % (rule, status))
        H.case(case, nontrivial=nontrivial, klass='%s:%s' % (short, status), sample=nontrivial)

    # round trip of the bridge IR -> holpy -> IR (harness sanity; mismatch = malformed case)
    try:
        for t in list(args) + [p for _, p in P] + [h for hs, _ in P for h in hs]:
            if L.enc(L.dec(t)) != t:
                raise CaseInvalid('IR round trip')
    except Unsupported:
        raise CaseInvalid('IR round trip (unsupported)')
    except CaseInvalid:
        raise
    except Exception as e:
        raise CaseInvalid('decode: %s' % e)
    try:
        with time_limit(60):
            th = holpy_call(rule, args, P, ctx, sizes, coeffs, inst)
    except Timeout:
        H.inconc('eval-timeout')
        done('timeout')
        return
    except CaseInvalid:
        raise
    except Exception:
        done('rejected-correct' if correct else 'rejected-nm')
        return
    from kernel.thm import Thm
    if not isinstance(th, Thm):
        done('returned-nothing-correct' if correct else 'returned-nothing-nm')
        return
    # ---- accepted: H |- C
    try:
        C = L.enc(th.prop)
        Hy = [L.enc(h) for h in th.hyps]
        ty(C)
    except (Unsupported, CaseInvalid) as e:
        H.inconc('result-not-encodable')
        done('accepted-unjudged', True)
        return
    if rule not in ('verit_conj_pts', 'verit_disj_pts', 'verit_norm_lia', 'verit_norm_lra') and C != OR(args):
        H.note('result-differs-from-clause/%s' % rule)
    if ty(C) != 'bool':
        H.violation('verit:%s:non-boolean-theorem' % short, case, 'returned %s' % L.show(C))
        done('accepted-INVALID', True)
        return
    # (a) hypotheses
    allowed = [h for hs, _ in P for h in hs]
    if ctx:
        for k, v in ctx.items():
            allowed.append(['eq', ['v', k, ty(v)], v])
    foreign = [h for h in Hy if h not in allowed]
    if foreign:
        H.violation('verit:%s:foreign-hypothesis' % short, case,
                    'hypothesis %s of the result is not a hypothesis of any premise' % L.show(foreign[0]))
    if rule in UNDECIDED_RULES:
        H.inconc('choice/let term: not judged')
        done('accepted-unjudged', True)
        return
    # (b) consequence
    prems = oracle_premises(rule, P, ctx)
    try:
        with time_limit(120):
            v, info = L.entails(prems, (Hy, C))
            if v == 'invalid':
                # is it only a matter of dropped hypotheses?
                allh = []
                for hs, _ in P:
                    allh += [h for h in hs if h not in allh]
                v2, _ = L.entails(prems, (allh + [h for h in Hy if h not in allh], C))
    except Timeout:
        H.inconc('oracle-timeout')
        done('accepted-unjudged', True)
        return
    if v == 'valid':
        done('accepted-correct' if correct else 'accepted-nm-valid', True)
    elif v == 'unknown':
        H.inconc('oracle-unknown: ' + info.split(':')[0])
        done('accepted-unjudged', True)
    else:
        detail = '%s accepted:  %s   from premises [%s];  counter-model: %s' % (
            short, L.show(['imp', AND(Hy), C]) if Hy else L.show(C),
            '; '.join((L.show(AND(hs)) + ' |- ' if hs else '|- ') + L.show(p) for hs, p in P), info)
        if v2 == 'valid':
            H.violation('verit:%s:drops-hypotheses' % short, case, detail)
        else:
            H.violation('verit:%s:accepts-non-consequence:%s' % (short, mut_class(mut)), case, detail)
        done('accepted-INVALID-correct' if correct else 'accepted-nm-INVALID', True)


def mut_class(mut):
    """Signature feature: WHERE the instance was perturbed and whether a negation or another term was touched
    (= which input the rule failed to check), not the exact operation: one missing check maps to (nearly) one
    signature and signatures are stable across seeds."""
    m = mut.split(':')[0]
    if m == 'none':
        return 'none'
    if m.endswith('+coeff'):
        return 'literal+coefficients'
    if m == 'cl-drop':
        return 'literal-dropped'
    if m == 'cl-add':
        return 'literal-added'
    if m in ('cl-negate', 'cl-dneg', 'deep-neg@cl', 'deep-unneg@cl'):
        return 'clause-negation'
    if m.startswith('cl-') or m.endswith('@cl') or m == 'replace-all':
        return 'clause-term'
    if m in ('deep-neg@prem', 'deep-unneg@prem'):
        return 'premise-negation'
    if m.endswith('@prem'):
        return 'premise-term'
    if m.startswith('prem-'):
        return 'premise-set'
    if m in ('sizes', 'coeff', 'ctx', 'inst'):
        return 'arguments'
    if m == 'tight':
        return 'boundary'
    return 'other'


# =================================================================================================== end to end
def e2e_build(D, mutate):
    """A small refutation: assumptions + or/and/not_and/implies steps + a resolution tree ending in (cl)."""
    g = G(D, flavour=None)
    if g.fl in ('lra', 'mix'):
        g.fl = 'prop'
    atoms = g.atoms(g.i(2, 4))
    steps = []
    ctr = [0]

    def nid(prefix):
        ctr[0] += 1
        return '%s%d' % (prefix, ctr[0])

    def leaf(clause):
        kinds = ['or', 'or', 'and']
        if all(l[0] == 'not' for l in clause) and len(clause) >= 2:
            kinds += ['not_and', 'not_and']
        if len(clause) == 2 and clause[0][0] == 'not':
            kinds += ['implies']
        k = g.pick(kinds)
        a = nid('a')
        if len(clause) == 1 and k in ('or',):
            steps.append(['assume', a, clause[0]])
            return a
        if k == 'or':
            steps.append(['assume', a, OR(clause)])
            t = nid('t')
            steps.append(['step', t, 'or', clause, [a]])
            return t
        if k == 'and':
            other = g.form()
            conj = [OR(clause), other] if g.coin() else [other, OR(clause)]
            steps.append(['assume', a, AND(conj)])
            t = nid('t')
            steps.append(['step', t, 'and', [OR(clause)], [a]])
            if len(clause) == 1:
                return t
            t2 = nid('t')
            steps.append(['step', t2, 'or', clause, [t]])
            return t2
        if k == 'not_and':
            steps.append(['assume', a, NOT(AND([l[1] for l in clause]))])
            t = nid('t')
            steps.append(['step', t, 'not_and', clause, [a]])
            return t
        steps.append(['assume', a, ['imp', clause[0][1], clause[1]]])
        t = nid('t')
        steps.append(['step', t, 'implies', clause, [a]])
        return t

    def derive(clause, avail, depth, root=False):
        if not root and (depth == 0 or not avail or g.coin(1, 4)) and clause:
            return leaf(g.shuffle(clause))
        if not avail:
            return leaf(g.shuffle(clause)) if clause else None
        p, rest = avail[0], avail[1:]
        i1 = derive(clause + [p], rest, depth - 1)
        i2 = derive(clause + [NOT(p)], rest, depth - 1)
        t = nid('t')
        prem_ids = [i1, i2] if g.coin() else [i2, i1]
        steps.append(['step', t, g.pick(['resolution', 'th_resolution']), g.shuffle(clause), prem_ids])
        return t
    derive([], atoms, g.i(1, 3), root=True)
    case = {'kind': 'e2e', 'steps': steps, 'mut': 'none'}
    if mutate:
        for _ in range(6):
            c2 = json.loads(json.dumps(case))
            st_ = c2['steps']
            op = g.pick(['step-drop-lit', 'step-drop-lit', 'step-neg-lit', 'assume-weaken', 'assume-weaken',
                         'assume-replace', 'prem-drop', 'prem-redirect', 'step-add-lit'])
            idx_steps = [i for i, x in enumerate(st_) if x[0] == 'step']
            idx_ass = [i for i, x in enumerate(st_) if x[0] == 'assume']
            i = g.pick(idx_steps)
            if op == 'step-drop-lit' and st_[i][3]:
                del st_[i][3][g.i(0, len(st_[i][3]) - 1)]
            elif op == 'step-neg-lit' and st_[i][3]:
                j = g.i(0, len(st_[i][3]) - 1)
                l = st_[i][3][j]
                st_[i][3][j] = l[1] if l[0] == 'not' else NOT(l)
            elif op == 'step-add-lit':
                st_[i][3].append(g.pick(BV))
            elif op == 'assume-weaken':
                j = g.pick(idx_ass)
                f = st_[j][2]
                extra = ['v', 'r9', 'bool']
                if f[0] == 'not' and f[1][0] == 'and':
                    st_[j][2] = NOT(['and', f[1][1], ['and', extra, f[1][2]]])
                elif f[0] == 'imp':
                    st_[j][2] = ['imp', ['and', f[1], extra], f[2]]
                elif f[0] == 'and':
                    st_[j][2] = ['and', ['or', f[1], extra], ['or', f[2], extra]]
                else:
                    st_[j][2] = ['or', f, extra]
            elif op == 'assume-replace':
                j = g.pick(idx_ass)
                st_[j][2] = ['v', 'r9', 'bool']
            elif op == 'prem-drop' and len(st_[i][4]) >= 2:
                del st_[i][4][g.i(0, len(st_[i][4]) - 1)]
            elif op == 'prem-redirect' and i > 0:
                earlier = [x[1] for x in st_[:i]]
                st_[i][4][g.i(0, len(st_[i][4]) - 1)] = g.pick(earlier)
            if c2 != case:
                c2['mut'] = op
                return c2
    return case


def run_e2e(case, H):
    from smt.veriT import command
    from smt.veriT.proof_rec import ProofReconstruction
    steps = case.get('steps')
    mut = case.get('mut', 'none')
    if not isinstance(steps, list) or not steps or not isinstance(mut, str):
        raise CaseInvalid('e2e')
    cmds, assms, ids = [], [], set()
    try:
        for s_ in steps:
            if s_[0] == 'assume' and len(s_) == 3 and isinstance(s_[1], str):
                if ty(s_[2]) != 'bool' or L.enc(L.dec(s_[2])) != s_[2]:
                    raise CaseInvalid('assume')
                cmds.append(command.Assume(s_[1], L.dec(s_[2])))
                assms.append(s_[2])
            elif s_[0] == 'step' and len(s_) == 5 and isinstance(s_[1], str) and isinstance(s_[2], str):
                if any(ty(l) != 'bool' for l in s_[3]) or any(p not in ids for p in s_[4]):
                    raise CaseInvalid('step')
                cmds.append(command.Step(s_[1], s_[2], tuple(L.dec(l) for l in s_[3]), pm=tuple(s_[4])))
            else:
                raise CaseInvalid('e2e step')
            if s_[1] in ids:
                raise CaseInvalid('duplicate id')
            ids.add(s_[1])
    except (TypeError, IndexError, Unsupported):
        raise CaseInvalid('e2e step')
    if not isinstance(cmds[-1], command.Step):
        raise CaseInvalid('proof must end in a step')
    correct = (mut == 'none')

    def done(status, nontrivial=False):
        H.note('rule/e2e/%s' % status)
        H.case(case, nontrivial=nontrivial, klass='e2e:%s' % status, sample=nontrivial)
    try:
        with time_limit(30):
            with contextlib.redirect_stdout(io.StringIO()):
                pt = ProofReconstruction(cmds).validate(is_eval=True, with_bar=False)
    except Timeout:
        H.inconc('eval-timeout')
        done('timeout')
        return
    except Exception:
        done('rejected-correct' if correct else 'rejected-nm')
        return
    try:
        C = L.enc(pt.prop)
        Hy = [L.enc(h) for h in pt.hyps]
    except Exception:
        H.inconc('result-not-encodable')
        done('accepted-unjudged', True)
        return
    foreign = [h for h in Hy if h not in assms]
    if foreign:
        H.violation('verit:e2e:foreign-hypothesis', case, 'final theorem depends on %s which was never assumed'
                    % L.show(foreign[0]))
    v, info = L.entails([([], a) for a in assms], ([], C))
    if v == 'valid':
        done('accepted-correct' if correct else 'accepted-nm-valid', True)
    elif v == 'unknown':
        H.inconc('oracle-unknown: ' + info.split(':')[0])
        done('accepted-unjudged', True)
    else:
        what = 'refutes-satisfiable-assumptions' if C == ['false'] else 'derives-non-consequence'
        H.violation('verit:e2e:%s:%s' % (what, mut), case,
                    'proof accepted in eval mode, final clause %s, but the assumed formulas {%s} have the model %s'
                    % (L.show(C), '; '.join(L.show(a) for a in assms), info))
        done('accepted-INVALID-correct' if correct else 'accepted-nm-INVALID', True)


# =================================================================================================== shards
def shards(tier):
    n_ok, n_nm = (150, 450) if tier == 'quick' else (1500, 4500)
    out = []
    for name in sorted(_macros):
        out.append({'kind': 'rule', 'rule': name, 'n_ok': n_ok, 'n_nm': n_nm})
    for i in range(3 if tier == 'quick' else 12):
        out.append({'kind': 'e2e', 'i': i, 'n_ok': n_ok, 'n_nm': n_nm * 2 // 3})
    return out


def run_shard(desc, seed, tier, H):
    from hypothesis import strategies as st
    if desc['kind'] == 'e2e':
        def body2(case):
            try:
                run_case(case, H)
            except CaseInvalid:
                H.note('generated-case-invalid/e2e')
        for mutate, n, off in ((False, desc['n_ok'], 0), (True, desc['n_nm'], 7919)):
            harness.hyp_run(st.integers(0, (1 << 62) - 1).map(lambda k, m=mutate: e2e_build(SeqDraw(k), m)),
                            body2, n, seed + off)
        return
    rule = desc['rule']
    if rule not in TEMPLATES:
        H.note('no-template/%s' % rule)
        H.note('not-claimed/%s' % rule)
        return
    before = dict(H.notes)

    def strat(mutate):
        return st.integers(0, (1 << 62) - 1).map(lambda k: build_case(rule, SeqDraw(k), mutate))

    def body(case):
        try:
            run_case(case, H)
        except CaseInvalid as e:
            H.note('generated-case-invalid/%s' % rule)
    harness.hyp_run(strat(False), body, desc['n_ok'], seed)
    harness.hyp_run(strat(True), body, desc['n_nm'], seed + 7919)
    acc = sum(n for k, n in H.notes.items() if k.startswith('rule/%s/accepted' % rule)) - \
        sum(n for k, n in before.items() if k.startswith('rule/%s/accepted' % rule))
    if acc == 0:
        H.note('not-claimed/%s' % rule)
